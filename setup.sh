#!/bin/sh
# Offline setup: nothing to build (pyg-base is an editable install of /repo; the harness is plain
# Python under /venv; TLC is pre-installed).  Parse every specification module (8 at a time) and import the library.
set -e
cd "$(dirname "$0")/spec"
out=$(mktemp -d /tmp/verif-sany.XXXXXX); trap 'rm -rf "$out"' EXIT
ls *.tla | xargs -P 8 -I{} sh -c 'java -Xss16m -cp /opt/veriftools/tla/tla2tools.jar:/opt/veriftools/tla/CommunityModules-deps.jar tla2sany.SANY "$1" > "$2/$1.log" 2>&1 || echo failed >> "$2/$1.log"' _ {} "$out"
bad=0
for f in *.tla; do
  if [ ! -s "$out/$f.log" ] || grep -q -e "Semantic errors" -e "Parse Error" -e "Fatal errors" -e "^failed$" -e "Could not" "$out/$f.log"; then cat "$out/$f.log"; echo "SANY failed on $f"; bad=1; fi
done
[ $bad -eq 0 ] || exit 1
/venv/bin/python -c "import pyg_base, pandas, numpy; print('pyg_base from', pyg_base.__file__)"
echo setup ok
