#!/bin/sh
# Offline setup: nothing to build (pyg-base is an editable install of /repo; the harness is plain
# Python under /venv; TLC is pre-installed).  Parse every specification module and smoke-test TLC.
set -e
cd "$(dirname "$0")/spec"
for f in *.tla; do
  java -cp /opt/veriftools/tla/tla2tools.jar:/opt/veriftools/tla/CommunityModules-deps.jar tla2sany.SANY "$f" > /tmp/sany.$$ 2>&1 || { cat /tmp/sany.$$; rm -f /tmp/sany.$$; echo "SANY failed on $f"; exit 1; }
  if grep -q -e "Semantic errors" -e "Parse Error" -e "Fatal errors" /tmp/sany.$$; then cat /tmp/sany.$$; rm -f /tmp/sany.$$; echo "SANY failed on $f"; exit 1; fi
done
rm -f /tmp/sany.$$
/venv/bin/python -c "import pyg_base, pandas, numpy; print('pyg_base from', pyg_base.__file__)"
echo setup ok
