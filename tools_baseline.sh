#!/bin/sh
# Runs the repository's pinned suite (guard off) and checks that every test of BASELINE.stable_pass still passes.
tmp=$(mktemp -d /tmp/baseline.XXXXXX); trap 'rm -rf "$tmp"' EXIT
cd /repo && env -u PYG_BASE_VERIF /venv/bin/python -m pytest -ra -q -p no:cacheprovider --timeout=900 --continue-on-collection-errors --junitxml=$tmp/j.xml > $tmp/out.txt 2>&1
tail -1 $tmp/out.txt
/venv/bin/python - "$tmp/j.xml" <<'PY'
import json, sys, xml.etree.ElementTree as ET
base = set(json.load(open('/root/.vp/BASELINE.json'))['stable_pass'])
passed = set()
for tc in ET.parse(sys.argv[1]).getroot().iter('testcase'):
    if not any(ch.tag in ('failure', 'error', 'skipped') for ch in tc):
        passed.add('%s::%s' % (tc.get('classname'), tc.get('name')))
missing = sorted(base - passed)
print('baseline stable_pass: %d, still passing: %d, newly passing: %d' % (len(base), len(base & passed), len(passed - base)))
if missing:
    print('REGRESSED:', missing); sys.exit(1)
PY
