#!/venv/bin/python
"""tools_design_add.py <file with a paragraph>: appends the paragraph to the end of DESIGN.md section 0 (currently 0.8, before section 1)."""
import sys
para = open(sys.argv[1]).read().strip()
d = open('/verif/DESIGN.md').read()
mark = "---------------------------------------------------------------------------------------------\n\n## 1. The system"
assert mark in d
d = d.replace(mark, para + "\n\n" + mark, 1)
open('/verif/DESIGN.md', 'w').write(d)
print('added', len(para))
