#!/venv/bin/python
"""tools_design_add.py <file with a paragraph>: inserts the paragraph at the end of DESIGN.md section 0.6 (before 0.7)."""
import sys
para = open(sys.argv[1]).read().strip()
d = open('/verif/DESIGN.md').read()
sec07 = "### 0.7 Extensions of the specification"
assert sec07 in d
d = d.replace(sec07, para + "\n\n" + sec07, 1)
open('/verif/DESIGN.md', 'w').write(d)
print('added', len(para))
