"""X08 - text, number parsing, logger registry, cache keys, paths and csv (extension; spec/Text*.tla).

X08-a  text helpers as laws over strings (= sequences of characters) and the grammar of as_float with exact values  (Text, TextNum / MC_Text)
X08-b  the logger registry as a state machine and the cache key as an injection on arguments                         (TextLog, TextKey)
X08-c  path algebra, mkdir / dictdir over a real scratch tree, csv write + read round trip                          (TextPath, TextFs, TextCsv)

TLA+ decides: TLC enumerates the inputs / histories together with the admitted outcomes (S2C, compared here with == / membership
in the printed list) and judges every recorded line, the replayed ones included (C2S, Trace_Text).  Python builds the objects,
calls pyg_base and encodes what came back.
"""
import copy, json, os
from harness import x_text as xt
from harness.core import Machinery
from harness.x_text import S, codes, seq, norm, outcome

ONLY = os.environ.get('VERIF_X08_ONLY', '')          # development aid: text | log | key | path | fs | csv (comma separated)
CORRUPT = os.environ.get('VERIF_X08_CORRUPT', '')    # binding self-check: falsify one recorded field of that area
HERE = os.path.dirname(os.path.dirname(os.path.abspath(__file__)))


class Log(object):
    """observations for Trace_Text plus, per line, the `case` a rejection is reported on"""
    def __init__(self):
        self.obs, self.cases = [], []

    def add(self, o, case):
        self.obs.append(o)
        self.cases.append(case)


_seen = set()
_per_kind = {}


def report(ctx, clause, case, detail=None, kind=None):
    """a violation once per (clause, case); at most 25 of one kind are handed on (the rest is counted)"""
    key = json.dumps([clause, case], sort_keys=True, default=str)
    if key in _seen:
        return
    _seen.add(key)
    kind = (clause,) + tuple(kind if kind is not None else (case.get('op'),))
    _per_kind[kind] = _per_kind.get(kind, 0) + 1
    if _per_kind[kind] <= 25:
        ctx.violation(clause, case, detail)


def ordered(cases):
    """TLC's workers print in any order: the replay goes through the cases in a fixed one"""
    return sorted(cases, key=lambda e: json.dumps(e, sort_keys=True))


def active(area):
    return not ONLY or area in ONLY.split(',')


# =========================================================================================================
# X08-a  text and numbers
# =========================================================================================================
import pyg_base
from pyg_base import _txt as TX
from pyg_base import as_float


def _val(v):
    return {'kind': 'val', 'v': v}


def observe_text(c):
    """one call of the text area: the case c (as TLC prints it), rendered, called, projected"""
    op = c['op']
    o = {'area': 'text', 'c': c}
    if op in ('common_prefix', 'deprefix'):
        ints = c.get('elem') == 'li'
        vals = [list(seq(v)) if ints else S(v) for v in seq(c['vs'])]
        kw = {}
        if op == 'deprefix' and seq(c['sep']):
            kw['sep'] = S(c['sep'])
        f = getattr(TX, op)
        k, r = outcome(f, *vals, **kw) if c['form'] == 'args' else outcome(f, vals, **kw)
        if c['form'] == 'list':
            o['after'] = [list(v) if ints else codes(v) for v in vals]
        if k == 'val':
            if op == 'common_prefix':
                r = ['n', 0] if r is None else ['li', list(r)] if ints and isinstance(r, list) else xt.enc(r)
            else:
                r = ['ls', [codes(w) for w in r]] if isinstance(r, list) and all(isinstance(w, str) for w in r) else xt.enc(r)
    elif op == 'replace':
        x = xt.build(c['x'])
        old = S(c['olds'][0]) if c['oldform'] == 'str' else [S(w) for w in seq(c['olds'])]
        k, r = outcome(TX.replace, x, old, S(c['new']))
        r = xt.enc(r) if k == 'val' else r
    elif op == 'split':
        x = xt.build(c['x'])
        seps = [S(w) for w in seq(c['seps'])]
        form = c['sepform']
        if form == 'default':
            k, r = outcome(TX.split, x, dedup=bool(c['dedup']))
        else:
            sep = seps[0] if form == 'str' else seps if form == 'list' else tuple(seps)
            k, r = outcome(TX.split, x, sep, bool(c['dedup']))
        if k == 'val':
            r = ['ls', [codes(w) for w in r]] if isinstance(r, list) else xt.enc(r)
    elif op in ('alphabet', 'ALPHABET'):
        k, r = 'val', xt.enc(getattr(pyg_base, op))
    elif op == 'as_float':
        k, r = outcome(as_float, xt.build(c['x']))
        r = xt.enc_num(r) if k == 'val' else r
    else:
        f = getattr(TX, op)                      # lower upper proper strip capitalize as_ascii relabel_lower bbgcase f12
        k, r = outcome(f, xt.build(c['x']))
        r = xt.enc(r) if k == 'val' else r
    o['out'] = _val(r) if k == 'val' else {'kind': 'exc', 'cls': r}
    return o


def text_case(c, tags=None, out=None):
    """matchable keys: the operation, the form of the call, the features TLC printed for the input, long or short digits observed"""
    case = {'op': c['op'], 'form': c.get('form') or c.get('sepform') or c.get('oldform') or '', 'n': len(seq(c.get('vs'))) if 'vs' in c else -1}
    if 'x' in c:
        case['arg'] = c['x'][0]
    for k, v in (tags or {}).items():
        case[k] = v
    if out is not None and c['op'] == 'as_float':
        case['digits'] = 'long' if out['kind'] == 'val' and out['v'][0] == 'numbig' else 'short'
    if 'sep' in c:
        case['has_sep'] = int(bool(seq(c['sep'])))
    if c['op'] == 'as_ascii' and c['x'][0] == 's':
        case['backslash'] = int(92 in seq(c['x'][1]))
    case['c'] = c
    return case


def s2c_text(ctx, cases, log):
    for k, e in enumerate(cases):
        c, want, tags = norm(e['case']), norm(e['want']), e.get('tags') or {}
        o = observe_text(c)
        ctx.evals += 1; ctx.traces += 1
        if o['out'] not in want:
            clause = ('as_float' if c['op'] == 'as_float' else c['op']) + ('_raised' if o['out']['kind'] == 'exc' and all(w['kind'] != 'exc' for w in want) else '_result')
            report(ctx, clause, text_case(c, tags, o['out']), {'admitted': want, 'observed': o['out']}, kind=(c['op'], json.dumps(tags, sort_keys=True)))
        elif 'after' in o and o['after'] != seq(c['vs']):
            report(ctx, 'argument_changed', text_case(c, tags), {'after': o['after']})
        if k % 4 == 0 or o['out'] not in want:
            log.add(o, text_case(c, tags, o['out']))
        if len(json.dumps(c)) > 60:
            ctx.note(('text', k))
        if k % 997 == 0:
            ctx.sample({'text_case': c, 'admitted': want})


# ---- random, larger, stranger inputs ---------------------------------------------------------------------
def rstr(rng, alphabet, lo, hi):
    return [rng.choice(alphabet) for _ in range(rng.randint(lo, hi))]


ENDINGS = ['million', 'billion', 'trillion', 'percent', 'mln', 'bln', 'tln', 'trl', 'pct', 'mn', 'bn', 'tn', 'bp', '%', 'm', 'k', 'b', 't', 'crore', 'lakh']
LATIN = [ord(ch) for ch in 'abcxyzABCXYZ019 .,;:/&()_-\t"\'#?$'] + [201, 233, 215, 247, 163, 8364, 20013, 8211, 92]
VOCAB = ['spx', 'cmon', 'index', 'InDex', 'comdty', 'Curncy', 'corp', 'pfd', 'equity', 'govt', 'mtge', '1', '<go>', '', 'us', 'Z5']


def rand_number_text(rng):
    nd = rng.randint(1, 6)
    ip = [rng.choice('0123456789') for _ in range(nd)]
    for _ in range(rng.choice([0, 0, 1, 2])):
        ip.insert(rng.randint(0, len(ip)), rng.choice([',', ' ', ', ']))
    s = ''.join(ip)
    if rng.random() < 0.5:
        s += '.' + ''.join(rng.choice('0123456789') for _ in range(rng.randint(0, 9 - nd if nd < 7 else 2) % 4))
    if rng.random() < 0.1:
        s = s.lstrip('0123456789, ') if '.' in s else s
    if rng.random() < 0.3:
        s += rng.choice('eE') + rng.choice(['', '+', '-']) + str(rng.randint(0, 30))
    s = rng.choice(['', '', '-', '+', ' -']) + s
    if rng.random() < 0.7:
        e = rng.choice(ENDINGS)
        e = rng.choice([e, e.upper(), e.capitalize()])
        s += rng.choice(['', ' ']) + e
    if rng.random() < 0.15:                                 # damage
        i = rng.randint(0, len(s))
        s = s[:i] + rng.choice(['x', '.', '-', '(', ')', 'e', '%', '']) + s[i + rng.choice([0, 1]):]
    return s


def rand_text_case(rng):
    op = rng.choice(['common_prefix', 'deprefix', 'deprefix', 'replace', 'replace', 'split', 'split', 'chars', 'chars', 'bbgcase', 'as_float', 'as_float', 'as_float', 'f12'])
    if op in ('common_prefix', 'deprefix'):
        ab = rng.choice([[97, 98], [97, 98, 95], [97, 95, 47]])
        pre = rstr(rng, ab, 0, 5)
        vs = [pre + rstr(rng, ab, 0, 5) for _ in range(rng.randint(1, 5))]
        if op == 'common_prefix':
            if rng.random() < 0.2:
                pre = rstr(rng, [1, 2, 3], 0, 3)
                return {'op': op, 'vs': [pre + rstr(rng, [1, 2, 3], 0, 3) for _ in range(rng.randint(2, 4))], 'form': 'args', 'elem': 'li'}
            return {'op': op, 'vs': vs, 'form': rng.choice(['args', 'list']), 'elem': 's'}
        return {'op': op, 'vs': vs, 'form': rng.choice(['args', 'list']), 'sep': rng.choice([[], [], [95], [47], [95, 95], [97]])}
    if op == 'replace':
        ab = rng.choice([[97, 98], [97, 98, 32], [97, 32]])
        olds = [rstr(rng, ab, 1, 3) for _ in range(rng.choice([1, 1, 2, 3]))]
        return {'op': op, 'x': ['s', rstr(rng, ab, 0, 10)], 'olds': olds, 'oldform': 'str' if len(olds) == 1 and rng.random() < 0.7 else 'list', 'new': rstr(rng, ab, 0, 2)}
    if op == 'split':
        seps, form = rng.choice([([], 'default'), ([[32]], 'str'), ([[46, 46]], 'str'), ([[32], [46]], 'list'), ([[44], [32], [46]], 'list'), ([[46], [44]], 'tuple'), ([], 'list'), ([[32, 46]], 'list')])
        return {'op': op, 'x': ['s', rstr(rng, [97, 98, 32, 46, 44], 0, 14)], 'sepform': form, 'seps': seps, 'dedup': rng.random() < 0.5}
    if op == 'chars':
        return {'op': rng.choice(['as_ascii', 'capitalize', 'relabel_lower', 'lower', 'upper', 'proper', 'strip']), 'x': ['s', rstr(rng, LATIN, 0, 10)]}
    if op == 'bbgcase':
        ws = [rng.choice(VOCAB) for _ in range(rng.randint(1, 4))]
        return {'op': op, 'x': ['s', codes(' '.join(ws))]}
    if op == 'as_float':
        return {'op': op, 'x': ['s', codes(rand_number_text(rng))]}
    k = rng.choice([1, 2, 4, 8, 16, 32, 64])
    return {'op': 'f12', 'x': ['f', [rng.randint(-999999, 999999), k]]}


def c2s_text(ctx, n, log):
    for _ in range(n):
        c = rand_text_case(ctx.rng)
        o = observe_text(c)
        ctx.evals += 1
        log.add(o, text_case(c, None, o['out']))


def run_text(ctx, log):
    # one action (Eval) over one initial state per case: -coverage would only cost (5x), vacuity is ruled out by the case counts below
    ctx.mc('MC_Text', 'MC_Text_quick.cfg' if ctx.quick else 'MC_Text_thorough.cfg', coverage=False)
    cases = ctx.generate('MC_Text', 'MC_Text_gen.cfg' if ctx.quick else 'MC_Text_gent.cfg')
    s2c_text(ctx, ordered(cases), log)
    c2s_text(ctx, 3000 if ctx.quick else 40000, log)


# =========================================================================================================
# X08-b  the logger registry and the cache key
# =========================================================================================================
import io, logging, shutil, sys, tempfile
from pyg_base import get_logger, cache
import pyg_base._logger as LG

LEVELNAME = {10: 'debug', 20: 'info', 30: 'warning', 40: 'error'}
FMT = '%(name)s|%(levelno)s|%(message)s'
_hid = [0]


def run_log_history(calls, nfiles, scratch):
    """one history on fresh names: get_logger calls and messages through the objects handed out; per step the observation"""
    _hid[0] += 1
    prefix = 'x08h%d_' % _hid[0]
    real = lambda name: prefix + '.'.join(name)
    files = {f: os.path.join(scratch, 'h%d_f%d.log' % (_hid[0], f)) for f in range(1, nfiles + 1)}
    buf = io.StringIO()
    objs, held, steps = [], {}, []
    read = {d: 0 for d in range(nfiles + 1)}

    def lines(d):
        if d == 0:
            text = buf.getvalue()
        else:
            text = open(files[d]).read() if os.path.exists(files[d]) else ''
        got = text.split('\n')[:-1]
        new, read[d] = got[read[d]:], len(got)
        out = []
        for l in new:
            nm, lv, _ = l.split('|')
            out.append([nm[len(prefix):].split('.'), int(lv)])
        return out
    try:
        for k, call in enumerate(calls):
            if call['op'] == 'get':
                lv = call['level']
                spell = call.get('spell', 'lower')
                lv = LEVELNAME[lv] if spell == 'lower' else LEVELNAME[lv].upper() if spell == 'upper' else lv
                old = sys.stderr
                sys.stderr = buf                      # the console of this history
                try:
                    lg = get_logger(real(call['name']), level=lv, fmt=FMT, file=files[call['file']] if call['file'] else False, console=bool(call['console']))
                finally:
                    sys.stderr = old
                if not any(lg is x for x in objs):
                    objs.append(lg)
                held[tuple(call['name'])] = lg
                hs = []
                for h in lg.handlers:
                    if isinstance(h, logging.FileHandler):
                        dest = [f for f, path in files.items() if os.path.abspath(path) == h.baseFilename]
                        hs.append({'kind': 'file', 'level': h.level, 'dest': dest[0] if dest else -1})
                    else:
                        hs.append({'kind': 'console', 'level': h.level, 'dest': 0 if getattr(h, 'stream', None) is buf else -1})
                obs = {'obj': [i for i, x in enumerate(objs) if x is lg][0] + 1, 'level': lg.level, 'hs': hs}
            else:
                held[tuple(call['name'])].log(call['level'], 'm%d' % k)
                for lg in objs:
                    for h in lg.handlers:
                        h.flush()
                obs = [lines(d) for d in range(nfiles + 1)]
            steps.append({'call': call, 'obs': obs})
    finally:                                           # the harness cleans up what it made: handlers, files, names
        for lg in objs:
            for h in list(lg.handlers):
                lg.removeHandler(h); h.close()
            LG._loggers.pop(lg.name, None)
            logging.Logger.manager.loggerDict.pop(lg.name, None)
        for path in files.values():
            if os.path.exists(path):
                os.remove(path)
    return steps


def log_case(calls):
    return {'op': 'get_logger', 'area': 'log', 'steps': len(calls), 'gets': sum(1 for c in calls if c['op'] == 'get'), 'hist': calls}


def rand_log_history(rng):
    names = [['A'], ['A', 'B'], ['A', 'B', 'D'], ['C'], ['C', 'E']]
    calls, known = [], []
    for _ in range(rng.randint(4, 10)):
        if known and rng.random() < 0.5:
            calls.append({'op': 'log', 'name': rng.choice(known), 'level': rng.choice([10, 20, 30, 40]), 'console': False, 'file': 0})
        else:
            nm = rng.choice(names)
            calls.append({'op': 'get', 'name': nm, 'level': rng.choice([10, 20, 30, 40]), 'console': rng.random() < 0.6, 'file': rng.choice([0, 0, 1, 2, 3]),
                          'spell': rng.choice(['lower', 'upper', 'int'])})
            if nm not in known:
                known.append(nm)
    return calls


def run_log(ctx, log, expect):
    ctx.mc('MC_TextLog', 'MC_TextLog_quick.cfg' if ctx.quick else 'MC_TextLog_thorough.cfg')
    ctx.mc('MC_TextLog', 'MC_TextLog_nocache.cfg', must_fail='MechIsLaw', coverage=False)          # a registry that forgets its cache is seen by the law
    hists = ordered(ctx.generate('MC_TextLog', 'MC_TextLog_gen.cfg' if ctx.quick else 'MC_TextLog_gent.cfg'))
    scratch = tempfile.mkdtemp(prefix='x08-log-')
    last = logging.lastResort
    logging.lastResort = logging.NullHandler()       # messages that reach no handler are not to be printed on the real console
    try:
        for k, e in enumerate(hists):
            want = norm(e['hist'])
            steps = run_log_history([st['call'] for st in want], e['nfiles'], scratch)
            ctx.evals += len(steps); ctx.traces += 1
            ok = steps == want
            if not ok or k % 3 == 0:
                expect[len(log.obs)] = ok
                log.add({'area': 'log', 'steps': steps, 'nfiles': e['nfiles']}, log_case([st['call'] for st in steps]))
            if len({tuple(st['call']['name']) for st in want}) > 1:
                ctx.note(('log', k))
            if k % 1499 == 0:
                ctx.sample({'log_history': want})
        for _ in range(400 if ctx.quick else 6000):
            calls = rand_log_history(ctx.rng)
            steps = run_log_history(calls, 3, scratch)
            ctx.evals += len(steps)
            log.add({'area': 'log', 'steps': steps, 'nfiles': 3}, log_case(calls))
    finally:
        logging.lastResort = last
        shutil.rmtree(scratch, ignore_errors=True)


# ---- cache keys -------------------------------------------------------------------------------------------
def buildv(v):
    tag, x = v[0], v[1]
    if tag in ('i', 's'):
        return x
    if tag == 'l':
        return [buildv(w) for w in seq(x)]
    return {buildv(p[0]): buildv(p[1]) for p in seq(x)}


def encv(x):
    if isinstance(x, bool):
        return ['b', int(x)]
    if isinstance(x, int):
        return ['i', x]
    if isinstance(x, str):
        return ['s', x]
    if isinstance(x, list):
        return ['l', [encv(w) for w in x]]
    if isinstance(x, dict):
        return ['d', [[encv(k), encv(w)] for k, w in x.items()]]
    return ['other', type(x).__name__]


def run_key_history(calls):
    count = [0]

    def f(*args, **kwargs):
        count[0] += 1
        return ('token', count[0])
    g = cache(f)
    steps = []
    for call in calls:
        args = [buildv(v) for v in seq(call['args'])]
        kw = {p[0]: buildv(p[1]) for p in seq(call['kw'])}
        before = count[0]
        k, r = outcome(g, *args, **kw)
        if k == 'exc':
            obs = {'eval': count[0] - before, 'token': -1, 'exc': r}
        else:
            obs = {'eval': count[0] - before, 'token': r[1]}
        steps.append({'call': call, 'obs': obs, 'after': {'args': [encv(a) for a in args], 'kw': [[n, encv(w)] for n, w in kw.items()]}})
    return steps


def key_case(calls, mech=0):
    return {'op': 'cache', 'area': 'key', 'steps': len(calls), 'mech': mech, 'hist': calls}


def rand_value(rng, depth=0):
    r = rng.random()
    if depth >= 2 or r < 0.35:
        return rng.choice([['i', 1], ['i', 2], ['i', 3], ['s', 'a'], ['s', 'b'], ['s', 'x']])
    if r < 0.65:
        return ['l', [rand_value(rng, depth + 1) for _ in range(rng.randint(0, 3))]]
    keys = rng.sample([['s', 'a'], ['s', 'b'], ['s', 'c'], ['i', 1], ['i', 2]] if rng.random() < 0.3 else
                      rng.choice([[['s', 'a'], ['s', 'b'], ['s', 'c'], ['s', 'd']], [['i', 1], ['i', 2], ['i', 3]]]), rng.randint(0, 3))
    return ['d', [[k, rand_value(rng, depth + 1)] for k in keys]]


def variant(rng, v):
    """the same value written differently, or a different value that looks alike"""
    if v[0] == 'd':
        r = rng.random()
        ps = list(v[1])
        if r < 0.5:
            rng.shuffle(ps)
            return ['d', [[p[0], variant(rng, p[1])] for p in ps]]
        if r < 0.8:
            return ['l', [['l', [p[0], p[1]]] for p in ps]]
        return ['d', ps[:-1]] if ps else ['l', []]
    if v[0] == 'l':
        xs = [variant(rng, w) for w in v[1]]
        if rng.random() < 0.25 and len(xs) > 1:
            rng.shuffle(xs)
        return ['l', xs]
    return v


def rand_key_history(rng):
    pool = []
    for _ in range(rng.randint(1, 3)):
        args = [rand_value(rng) for _ in range(rng.randint(0, 2))]
        kw = [[n, rand_value(rng)] for n in rng.sample(['a', 'b', 'x'], rng.randint(0, 2))]
        pool.append({'args': args, 'kw': kw})
    calls = []
    for _ in range(rng.randint(3, 7)):
        c = rng.choice(pool)
        if rng.random() < 0.6:
            kw = [[p[0], variant(rng, p[1])] for p in c['kw']]
            if rng.random() < 0.5:
                kw.reverse()
            c = {'args': [variant(rng, a) for a in c['args']], 'kw': kw}
        calls.append(c)
    return calls


def run_key(ctx, log, expect):
    ctx.mc('MC_TextKey', 'MC_TextKey_quick.cfg' if ctx.quick else 'MC_TextKey_thorough.cfg')
    ctx.mc('MC_TextKey', 'MC_TextKey_nodict.cfg')
    # today's way of making the key is complete but not sound: a dict and the list of its pairs get the same key
    ctx.mc('MC_TextKey', 'MC_TextKey_sound.cfg', must_fail='KeySound', coverage=False)
    hists = ordered(ctx.generate('MC_TextKey', 'MC_TextKey_gen.cfg' if ctx.quick else 'MC_TextKey_gent.cfg'))
    for k, e in enumerate(hists):
        want = norm(e['hist'])
        steps = run_key_history([st['call'] for st in want])
        ctx.evals += len(steps); ctx.traces += 1
        ok = [{'call': st['call'], 'obs': st['obs']} for st in steps] == want
        if not ok or k % 3 == 0:
            expect[len(log.obs)] = ok
            log.add({'area': 'key', 'steps': steps}, key_case([st['call'] for st in steps]))
        if any(st['obs']['eval'] == 0 for st in want):
            ctx.note(('key', k))
        if k % 499 == 0:
            ctx.sample({'key_history': want})
    for _ in range(1500 if ctx.quick else 20000):
        calls = rand_key_history(ctx.rng)
        steps = run_key_history(calls)
        ctx.evals += len(steps)
        log.add({'area': 'key', 'steps': steps}, key_case(calls))


# =========================================================================================================
# X08-c  paths, a real directory tree, csv
# =========================================================================================================
import csv as _csv
from pyg_base import path_name, path_dirname, path_join, mkdir, dictdir, read_csv, dictable


def observe_path(c):
    if c['op'] == 'path_join':
        k, r = outcome(path_join, *[S(p) for p in seq(c['ps'])])
    else:
        k, r = outcome(path_name if c['op'] == 'path_name' else path_dirname, S(c['p']))
    out = {'kind': 'val', 'v': codes(r) if isinstance(r, str) else ['?', type(r).__name__]} if k == 'val' else {'kind': 'exc', 'cls': r}
    return {'area': 'path', 'c': c, 'out': out}


def path_case(c, backslash, early=0):
    return {'op': c['op'], 'area': 'path', 'backslash': backslash, 'early': early, 'c': c, 'text': S(c['p']) if 'p' in c else [S(p) for p in seq(c['ps'])]}


def has_backslash(c):
    return int(any(92 in seq(p) for p in ([c['p']] if 'p' in c else seq(c['ps']))))


def rand_path_case(rng):
    ab = [ord(ch) for ch in 'ab.c: /\\/\\']
    if rng.random() < 0.4:
        return {'area': 'path', 'op': 'path_join', 'ps': [rstr(rng, ab, 0, 5) for _ in range(rng.randint(1, 4))]}
    return {'area': 'path', 'op': rng.choice(['path_name', 'path_dirname']), 'p': rstr(rng, ab, 0, 12)}


# ---- the directory tree ---------------------------------------------------------------------------------------
def fs_rel(root, r):
    if not isinstance(r, str):
        return ['?', type(r).__name__]
    if r == root or r == root + '/':
        return []
    if r.startswith(root + '/'):
        return [w for w in r[len(root) + 1:].split('/')] if not r.endswith('/') else ['?trailing', r[len(root):]]
    return ['?outside', r[-40:]]


def fs_enc(root, x):
    if isinstance(x, dict):
        return {k: (['d', fs_enc(root, v)] if isinstance(v, dict) else ['p', fs_rel(root, v)]) for k, v in x.items()}
    return ['?', type(x).__name__]


def fs_tree(root):
    dirs, files = [], []
    for d, ds, fs in os.walk(root):
        rel = [] if d == root else d[len(root) + 1:].split('/')
        dirs += [rel + [x] for x in ds]
        files += [rel + [x] for x in fs]
    return sorted(dirs), sorted(files)


def run_fs_history(calls, scratch):
    _hid[0] += 1
    root = os.path.join(scratch, 'r%d' % _hid[0])
    os.mkdir(root)
    steps = []
    for call in calls:
        op, parts = call['op'], list(seq(call['path']))
        call = dict(call, path=parts)
        if op == 'mkdir':
            sep = {'plain': '/', 'double': '//', 'back': '\\'}[call['spell']]
            k, r = outcome(mkdir, root + sep + sep.join(parts) + (sep if call['trail'] else ''))
            ret = fs_rel(root, r) if k == 'val' else []
        elif op == 'touch':
            open(os.path.join(root, *parts), 'w').close()
            k, ret = 'val', []
        else:
            k, r = outcome(dictdir, '/'.join([root] + parts), call['level'])
            ret = fs_enc(root, r) if k == 'val' else []
        dirs, files = fs_tree(root)
        obs = {'ret': ret, 'dirs': dirs, 'files': files}
        if k == 'exc':
            obs['exc'] = r
        steps.append({'call': call, 'obs': obs})
    shutil.rmtree(root, ignore_errors=True)
    return steps


def fs_case(calls, backslash=0):
    return {'op': 'mkdir/dictdir', 'area': 'fs', 'steps': len(calls), 'backslash': backslash, 'hist': calls}


def rand_fs_history(rng):
    names = ['a', 'b', 'c d', 'e.x']
    calls, dirs, files = [], [[]], []
    for _ in range(rng.randint(3, 8)):
        r = rng.random()
        if r < 0.5:
            path = [rng.choice(names) for _ in range(rng.randint(1, 3))]
            trail = rng.random() < 0.6
            if any(path[:k] in files for k in range(1, len(path) + 1)):
                continue
            calls.append({'op': 'mkdir', 'path': path, 'trail': trail, 'spell': rng.choice(['plain', 'plain', 'double', 'back']), 'level': 0})
            if calls[-1]['spell'] == 'back':
                break                                   # (what a backslash path leaves behind is not part of the model: the history ends there)
            t = path if trail else path[:-1]
            dirs += [t[:k] for k in range(1, len(t) + 1) if t[:k] not in dirs]
        elif r < 0.7:
            path = rng.choice(dirs) + [rng.choice(['f.txt', 'g.csv', 'b'])]
            if path in dirs:
                continue
            calls.append({'op': 'touch', 'path': path, 'trail': False, 'spell': 'plain', 'level': 0})
            files.append(path)
        else:
            calls.append({'op': 'dictdir', 'path': rng.choice(dirs), 'trail': False, 'spell': 'plain', 'level': rng.randint(0, 3)})
    return calls or rand_fs_history(rng)


def fs_norm_want(steps):
    out = []
    for st in steps:
        o = dict(st['obs'])
        o['dirs'] = sorted(seq(o['dirs'])); o['files'] = sorted(seq(o['files']))
        out.append({'call': st['call'], 'obs': o})
    return out


# ---- csv ----------------------------------------------------------------------------------------------------------
def cells(row):
    return [codes(x) if isinstance(x, str) else ['?', type(x).__name__] for x in row]


def read_back(path, form):
    if form == 'dictable':
        k, r = outcome(lambda: dict(dictable(path)))
        if k == 'val':
            return {'kind': 'val', 'cols': [codes(c) if isinstance(c, str) else ['?'] for c in r], 'data': [cells(v) for v in r.values()]}
    else:
        if form == 'path':
            k, r = outcome(read_csv, path)
        elif form == 'noext':
            k, r = outcome(read_csv, path[:-4])
        elif form == 'list':
            k, r = outcome(lambda: (lambda x: x[0] if isinstance(x, list) and len(x) == 1 else ['?list'])(read_csv([path])))
        else:
            k, r = outcome(lambda: read_csv({'k': path})['k'])
        if k == 'val':
            return {'kind': 'val', 'rows': [cells(row) for row in r]}
    return {'kind': 'exc', 'cls': r}


def observe_csv(c, text, scratch):
    path = os.path.join(scratch, S(c['fname']) + '.csv')
    with open(path, 'w', newline='', encoding='utf-8') as f:
        f.write(text)
    out = read_back(path, c['form'])
    os.remove(path)
    return {'area': 'csv', 'c': c, 'out': out}


def csv_case(c, tags):
    return dict({'op': 'read_csv' if c['form'] != 'dictable' else 'dictable', 'area': 'csv', 'form': c['form'], 'c': c}, **tags)


def rand_csv_case(rng, scratch):
    """a table written by a csv writer of the standard library or by pandas, read back by the library"""
    ncol = rng.randint(1, 4)
    cols = rng.sample(['a', 'b c', 'Col', 'd', 'x,y', 'q"'], ncol)
    ab = 'ab1 ,";\n\té' + ('\r' if rng.random() < 0.1 else '')
    rows = [[''.join(rng.choice(ab) for _ in range(rng.choice([0, 1, 1, 2, 3, 5]))) for _ in range(ncol)] for _ in range(rng.randint(0 if rng.random() < 0.1 else 1, 5))]
    c = {'t': {'cols': [codes(x) for x in cols], 'rows': [[codes(x) for x in row] for row in rows]}, 'fname': codes(rng.choice(['t', 't', 'u2', 'Tab'])),
         'form': rng.choice(['path', 'noext', 'list', 'dict', 'dictable', 'dictable']), 'writer': rng.choice(['csv', 'csv_quote_all', 'pandas'])}
    buf = io.StringIO(newline='')
    if c['writer'] == 'pandas':
        import pandas as pd
        pd.DataFrame({col: [row[k] for row in rows] for k, col in enumerate(cols)}, dtype=object).to_csv(buf, index=False)
    else:
        _csv.writer(buf, quoting=_csv.QUOTE_ALL if c['writer'] == 'csv_quote_all' else _csv.QUOTE_MINIMAL).writerows([cols] + rows)
    return c, buf.getvalue()


def csv_tags(c):
    t = c['t']
    return {'norows': int(not seq(t['rows'])), 'capital': int(any(65 <= k <= 90 for k in seq(c['fname']))),
            'cr': int(any(13 in seq(cell) for row in seq(t['rows']) for cell in seq(row)))}


def run_paths(ctx, log, expect):
    ctx.mc('MC_TextPath', 'MC_TextPath_quick.cfg' if ctx.quick else 'MC_TextPath_thorough.cfg', coverage=False)     # one action per case, as MC_Text
    cases = ordered(ctx.generate('MC_TextPath', 'MC_TextPath_gen.cfg' if ctx.quick else 'MC_TextPath_gent.cfg'))
    scratch = tempfile.mkdtemp(prefix='x08fs')
    try:
        for k, e in enumerate(cases):
            c = norm(e['case'])
            ctx.evals += 1; ctx.traces += 1
            if c['area'] == 'path':
                o = observe_path(c)
                ok = o['out'] == {'kind': 'val', 'v': norm(e['want'])}
                case = path_case(c, e['tags']['backslash'], e['tags']['early'])
                if len(seq(c.get('p') or c.get('ps'))) > 2:
                    ctx.note(('path', k))
            else:
                o = observe_csv(c, S(e['text']), scratch)
                if c['form'] == 'dictable':
                    ok = o['out']['kind'] == 'val' and sorted(zip(o['out']['cols'], o['out']['data'])) == sorted(zip(norm(e['case'])['t']['cols'], norm(e['data'])))
                else:
                    ok = o['out'] == {'kind': 'val', 'rows': norm(e['rows'])}
                case = csv_case(c, e['tags'])
                if seq(c['t']['rows']):
                    ctx.note(('csv', k))
            if not ok or k % 3 == 0:
                expect[len(log.obs)] = ok
                log.add(o, case)
            if k % 701 == 0:
                ctx.sample({'case': c})
        for _ in range(2000 if ctx.quick else 30000):
            c = rand_path_case(ctx.rng)
            ctx.evals += 1
            log.add(observe_path(c), path_case(c, has_backslash(c)))
        for _ in range(500 if ctx.quick else 8000):
            c, text = rand_csv_case(ctx.rng, scratch)
            ctx.evals += 1
            log.add(observe_csv(c, text, scratch), csv_case(c, csv_tags(c)))
        # the tree
        ctx.mc('MC_TextFs', 'MC_TextFs_quick.cfg' if ctx.quick else 'MC_TextFs_thorough.cfg')
        for k, e in enumerate(ordered(ctx.generate('MC_TextFs', 'MC_TextFs_gen.cfg' if ctx.quick else 'MC_TextFs_gent.cfg'))):
            want = fs_norm_want(norm(e['hist']))
            steps = run_fs_history([st['call'] for st in want], scratch)
            ctx.evals += len(steps); ctx.traces += 1
            ok = norm(steps) == want
            back = int(any(st['call']['spell'] == 'back' for st in want))
            if not ok or k % 3 == 0:
                expect[len(log.obs)] = ok
                log.add({'area': 'fs', 'steps': steps}, fs_case([st['call'] for st in steps], back))
            if len(want[-1]['obs']['dirs']) > 1:
                ctx.note(('fs', k))
            if k % 997 == 0:
                ctx.sample({'fs_history': want})
        for _ in range(400 if ctx.quick else 6000):
            calls = rand_fs_history(ctx.rng)
            steps = run_fs_history(calls, scratch)
            ctx.evals += len(steps)
            log.add({'area': 'fs', 'steps': steps}, fs_case(calls, int(any(c['spell'] == 'back' for c in calls))))
    finally:
        shutil.rmtree(scratch, ignore_errors=True)


# =========================================================================================================
def judge(ctx, log, expect):
    """Trace_Text judges every recorded line; "outside_domain" = the specification does not speak about that input (counted)"""
    obs = log.obs
    if CORRUPT:
        obs = corrupt(obs)
    bad = ctx.validate('Trace_Text', obs)
    outside = {}
    for i, clause in bad:
        o = obs[i - 1]
        if clause == 'outside_domain':
            outside[o['area']] = outside.get(o['area'], 0) + 1
            continue
        if clause in ('unknown_area', 'unknown_op'):
            raise Machinery('the driver recorded a line the trace specification does not know: %s' % json.dumps(o)[:500])
        clause, _, feat = clause.partition(':')
        case = dict(log.cases[i - 1])
        if o['area'] == 'text' and o['c']['op'] == 'as_float':
            case = text_case(o['c'], {'negpower': int('n' in feat), 'scineg': int('s' in feat)}, o['out'])
        if o['area'] == 'key':
            case['mech'] = int(feat == 'mech')
        if o['area'] in ('path', 'fs'):
            case['backslash'] = int('backslash' in feat)
            case['early'] = int('early' in feat)
        if o['area'] == 'csv':
            case.update({'norows': int('norows' in feat), 'capital': int('capital' in feat), 'cr': int('cr' in feat)})
        report(ctx, clause, case, {'line': o if len(json.dumps(o)) < 3000 else '(large)'},
               kind=(case.get('op'), case.get('negpower'), case.get('scineg')))
    rejected = {i - 1 for i, clause in bad if clause != 'outside_domain'}
    for i, ok in expect.items():                      # the replayed histories: == against TLC's print and the trace verdict must agree
        if ok and i in rejected and not CORRUPT:
            raise Machinery('Trace_Text rejects a history that the S2C replay (==) accepted: %s' % json.dumps(obs[i])[:700])
        if not ok and i not in rejected:
            raise Machinery('the S2C replay (==) rejected a history that Trace_Text accepts: %s' % json.dumps(obs[i])[:700])
    n_by_area = {}
    for o in obs:
        n_by_area[o['area']] = n_by_area.get(o['area'], 0) + 1
    ctx.extra['recorded_lines_by_area'] = n_by_area
    ctx.extra['outside_domain_by_area'] = outside
    for a, k in outside.items():
        if 2 * k > n_by_area[a]:
            raise Machinery('more than half of the recorded lines of area %s are outside the domain of the specification (%d of %d)' % (a, k, n_by_area[a]))


def corrupt(obs):
    """falsify ONE field of ONE recorded observation of the chosen area: the trace specification must reject that line"""
    obs = [json.loads(json.dumps(o)) for o in obs]
    for o in obs:
        if o['area'] != CORRUPT:
            continue
        if o['area'] == 'text' and o['c']['op'] == 'as_float' and o['out']['kind'] == 'val' and o['out']['v'][0] == 'num' and o['out']['v'][1][0] != 0:
            o['out']['v'][1][1] += 1                      # ten times the number that was read
            return obs
        if o['area'] == 'log' and any(st['call']['op'] == 'get' and st['obs']['hs'] for st in o['steps']):
            st = [st for st in o['steps'] if st['call']['op'] == 'get' and st['obs']['hs']][0]
            st['obs']['hs'].append(dict(st['obs']['hs'][0]))      # one handler too many on the object handed out
            return obs
        if o['area'] == 'key' and len(o['steps']) > 1 and o['steps'][1]['obs']['eval'] == 1:
            o['steps'][1]['obs'] = {'eval': 0, 'token': 1}       # the second call served the result of the first
            return obs
        if o['area'] == 'path' and o['out']['kind'] == 'val' and o['out']['v']:
            o['out']['v'] = o['out']['v'] + [47]                  # a separator nobody asked for
            return obs
        if o['area'] == 'fs' and any(st['obs']['dirs'] for st in o['steps']):
            st = [st for st in o['steps'] if st['obs']['dirs']][0]
            st['obs']['dirs'] = st['obs']['dirs'][1:]             # a directory that was made is not there
            return obs
        if o['area'] == 'csv' and o['out']['kind'] == 'val' and 'rows' in o['out'] and len(o['out']['rows']) > 1:
            o['out']['rows'][1][0] = o['out']['rows'][1][0] + [120]   # a cell that reads differently
            return obs
    raise Machinery('nothing to corrupt for area %r' % CORRUPT)


def run(ctx):
    _seen.clear(); _per_kind.clear()
    if os.environ.get('VERIF_X08_ACCEPT_PROPOSED') == '1':
        # the defects of the unchanged tree found by this check, as PROPOSED known findings (extensions/X08.known.json); not applied
        # unless asked for: by default they are reported as violations
        with open(os.path.join(HERE, 'extensions', 'X08.known.json')) as f:
            ctx.known = ctx.known + [k for k in json.load(f)['known'] if k['property'] == ctx.pid]
    log = Log()
    if ONLY:
        ctx.extra['partial_run'] = ONLY
    expect = {}
    if active('text'):
        run_text(ctx, log)
    if active('log'):
        run_log(ctx, log, expect)
    if active('key'):
        run_key(ctx, log, expect)
    if active('path'):
        run_paths(ctx, log, expect)
    judge(ctx, log, expect)
    ctx.rule = ('distinct non-trivial = TLC-enumerated text cases whose rendering is longer than 60 characters')
    ctx.exhaustive = False
    ctx.assumptions += [
        'strings are sequences of code points over small alphabets (spec/MC_Text.tla); beyond them only the random texts of the C2S part',
        'as_float: numbers of at most 9 digits and exponents of at most 2 digits (32-bit integers of TLC); inf / nan / underscores / non-ASCII digits are outside the domain',
        'a float result is compared through the decimal Python prints for it (the shortest that reads back as the same float)',
    ]
