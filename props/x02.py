"""X02 - the dictable calls no listed property covers, as a second session state machine (spec/DictableX.tla).

S2C: TLC explores DictableX.tla (exhaustively to depth 2, by simulation to depth 6 / 10) with the call history as a
variable and prints, for every behaviour, the history, the outcome of the last call (ok / exception class / the value a
read returned) and the abstract state it must lead to.  Each history is replayed on real dictables through the public
API; the outcome and all live tables (column order, len/shape, iteration, d[i][c], d[c][i], aliasing) must equal the
printed expectation.
C2S: seeded random histories with random arguments are recorded call by call (outcome + projection of all registers)
and validated by spec/Trace_DictableX.tla.
Python only renders abstract arguments into Python objects (functions are rendered from [kind, parameter names]),
calls pyg_base and encodes what came back."""
import json, re
import numpy as np
import pandas as pd
from harness.enc import IdMap, tag, untag
from harness.core import Machinery
from pyg_base import dictable, dict_concat

HARNESS_FRAMES = {'step', 'construct', 'make_fn', 'fn', 'dofn', 'item', 'spec', 'arg', 'enc_map', 'shape_of', 'untag', 'tag'}
OK = ['ok', 0]

# ---- rendering of abstract functions --------------------------------------------------------------------------
BODY = {'tuple': lambda a: '(%s)' % ''.join(x + ', ' for x in a), 'list': lambda a: '[%s]' % ', '.join(a), 'ident': lambda a: a[0],
        'isnone': lambda a: '%s is None' % a[0], 'coalesce': lambda a: 'next((_v for _v in (%s) if _v is not None), None)' % ''.join(x + ', ' for x in a),
        'zero': lambda a: '0 if %s is None else %s' % (a[0], a[0]), 'const': lambda a: "'x'"}
_fn_cache = {}


def make_fn(kind, args):
    """[kind, parameter names] -> a Python lambda with exactly these parameters"""
    key = (kind, tuple(args))
    if key not in _fn_cache:
        _fn_cache[key] = eval('lambda %s: %s' % (', '.join(args), BODY[kind](list(args))))
    return _fn_cache[key]


def fn(f):
    return make_fn(f['kind'], f['args'])


def dofn(g):
    return make_fn(g['kind'], ['_v'] + list(g['extras']))      # lambda _v, <extras>: the cell first, then the named columns


NAMEFN = {'double': lambda c: c + c, 'const_k': lambda c: 'k', 'ab_to_c': lambda c: 'c' if c in ('a', 'b') else c}
AGG = {'none': None, 'last': lambda v: v[-1], 'first': lambda v: v[0], 'len': len}
ISSTR = lambda v: isinstance(v, str)


def arg(a, ids):
    return untag(a[1], ids) if a[0] == 's' else [untag(v, ids) for v in a[1]]


def item(it):
    return it[1] if it[0] == 'c' else fn(it[1])


def spec(s, ids):
    return fn(s[1]) if s[0] == 'f' else arg(s, ids)


def construct(seed, ids, k):
    kind, how = seed['kind'], seed.get('how')
    if kind == 'recs':
        recs = [{c: untag(v, ids) for c, v in rec} for rec in seed['recs']]
        return dictable(recs) if k % 2 else dictable(data=recs)
    if kind == 'cols':
        names, values = list(seed['cols']), [arg(a, ids) for a in seed['args']]
        if how == 'zip':
            return dictable(zip(names, values))
        return dictable(dict(zip(names, values))) if k % 2 else dictable(data=dict(zip(names, values)))
    if kind == 'single':
        vals = [untag(v, ids) for v in seed['vals']]
        return dictable(vals, seed['name']) if k % 2 else dictable(data=vals, columns=seed['name'])
    rows = [[untag(v, ids) for v in row] for row in seed['rows']]
    hdrs = list(seed['hdrs'])
    if kind == 'frame':
        return dictable(pd.DataFrame(rows, columns=hdrs).set_index(seed['index']))
    if how == 'header':
        return dictable([hdrs] + rows)
    if how == 'frame':
        return dictable(pd.DataFrame(rows, columns=hdrs))
    if how == 'ziprows':
        return dictable(zip(*[[row[j] for row in rows] for j in range(len(hdrs))]), hdrs)
    return dictable(rows, hdrs) if k % 2 else dictable(data=rows, columns=hdrs)


def enc_map(m, ids):
    return ['map', {str(c): tag(v, ids) for c, v in m.items()} or []]


def shape_of(d):
    """repr / to_string, the shape only"""
    r = repr(d).split('\n')
    m = re.match(r'^dictable\[(\d+) x (\d+)\]$', r[0])
    s = d.to_string()
    lines = s.split('\n') if s else []
    header = [x.strip() for x in lines[0].split('|')] if lines else []
    mid = [int(x.group(1)) for x in (re.match(r'^\.\.\.(\d+) rows\.\.\.$', l) for l in r[1:]) if x]
    return (int(m.group(1)) if m else -1, int(m.group(2)) if m else -1, header, len(lines), mid[0] if mid else 0)


def step(regs, h, ids, k):
    """one public call; returns the encoded outcome"""
    op = h['op']
    for key in ('r', 'r2'):
        if key in h and h[key] not in regs:       # only after an earlier call went wrong: the specification has a table there, the session has not
            return ['exc', 'NoSuchTable']
    try:
        if op == 'NewX':
            regs[h['rd']] = construct(h['seed'], ids, k); return OK
        if op == 'DictConcat':
            recs = [{c: untag(v, ids) for c, v in rec} for rec in h['recs']]
            return ['val', enc_map(dict_concat(recs) if k % 2 else dict_concat(*recs), ids)]
        d = regs[h['r']]
        # ---- reads
        if op == 'Get':
            return ['val', tag(d.get(h['c']) if (k % 2 and h['dflt'] == ['n', 0]) else d.get(h['c'], untag(h['dflt'], ids)), ids)]
        if op == 'GetAttr':
            return ['val', tag(getattr(d, h['c'], untag(h['dflt'][0], ids)) if h['dflt'] else getattr(d, h['c']), ids)]
        if op == 'TupleGet':
            return ['val', tag(d[tuple(item(it) for it in h['items'])], ids)]
        if op == 'Apply':
            defs = {n: untag(v, ids) for n, v in h['defs']}
            return ['val', tag(d[fn(h['fn'])] if (k % 2 and not defs) else d.apply(fn(h['fn']), **defs), ids)]
        if op == 'IfElse':
            return ['val', tag(d.if_else(item(h['cond']), item(h['a']), item(h['b']), **{n: untag(v, ids) for n, v in h['defs']}), ids)]
        if op == 'Repr':
            return ['val', tag(shape_of(d), ids)]
        if op == 'DictConcatRows':
            return ['val', enc_map(dict_concat(list(d)), ids)]
        # ---- in place
        if op == 'UpdateFrom':
            d.update(regs[h['r2']]); return OK
        if op == 'SetCol':
            v = arg(h['arg'], ids)
            if k % 2: d[h['c']] = v
            else: setattr(d, h['c'], v)
            return OK
        if op == 'DelCol':
            if k % 2: del d[h['c']]
            else: delattr(d, h['c'])
            return OK
        # ---- returning a table
        if op == 'Extend':
            res = dictable(d, **{c: arg(a, ids) for c, a in h['extra']})
        elif op == 'Call':
            res = d(**{c: spec(s, ids) for c, s in h['kws']})
        elif op == 'IfNone':
            kws = {c: spec(s, ids) for c, s in h['kws']}
            none = h['none']
            if none[0] == 'none':
                res = d.if_none(**kws) if k % 2 else d.if_none(None, **kws)
            elif none[0] == 'nan':
                res = d.if_none(np.nan, **kws) if k % 2 else d.if_none(none=float('nan'), **kws)
            elif none[0] == 'vals':
                vals = [untag(v, ids) for v in none[1]]
                res = d.if_none(vals[0] if (len(vals) == 1 and k % 2 and not isinstance(vals[0], float)) else vals, **kws)
            else:
                res = d.if_none(ISSTR, **kws)
        elif op == 'DoX':
            fs = [dofn(g) for g in h['fs']]
            f = fs[0] if (len(fs) == 1 and k % 2) else fs
            res = d.do(f, *h['cs']) if h['star'] else d.do(f, list(h['cs']))
        elif op == 'Relabel':
            form = h['form']; kind = form['kind']
            how = d.relabel if k % 2 else d.rename
            if kind == 'map':
                res = how(**dict(form['pairs'])) if form['how'] == 'kw' else how(dict(form['pairs']))
            elif kind == 'fn':
                res = how(NAMEFN[form['fn']])
            elif kind == 'fnmap':
                res = how(NAMEFN[form['fn']], **dict(form['pairs']))
            elif kind in ('prefix', 'suffix'):
                res = how(form['s'])
            else:
                res = how(list(form['names'])) if k % 4 < 2 else how(*form['names'])
        elif op == 'Unpivot':
            xs = h['xs'][0] if (len(h['xs']) == 1 and k % 2) else list(h['xs'])
            res = d.unpivot(xs, {h['y']: list(h['ysel'])} if h['ysel'] else h['y'], h['z'])
        elif op == 'Xyz':
            xs = h['xs'][0] if (len(h['xs']) == 1 and k % 2) else list(h['xs'])
            res = (d.xyz if k % 4 < 2 else d.pivot)(xs, h['y'], item(h['z']), AGG[h['agg']])
        elif op == 'Copy':
            res = d.copy()
        else:
            raise RuntimeError('unknown op ' + op)
        regs[h['rd']] = res
        return OK
    except Exception as e:          # whatever the library raises is an outcome; the specification says which ones are right
        tb = e.__traceback__
        while tb.tb_next is not None:
            tb = tb.tb_next
        if tb.tb_frame.f_code.co_name in HARNESS_FRAMES or isinstance(e, (SyntaxError, NameError)):
            raise                   # ... but not what the driver itself got wrong while rendering the call
        return ['exc', type(e).__name__]


def observe(d, ids):
    cols = list(dict.keys(d))
    raw = {c: dict.__getitem__(d, c) for c in cols}
    if not all(isinstance(v, list) for v in raw.values()):        # a column that is not a list at all: as bad as ragged
        return {'cols': cols, 'ragged': True, 'rows': [], 'error': 'column_not_a_list'}
    lists = {c: list(v) for c, v in raw.items()}
    ns = sorted({len(v) for v in lists.values()})
    o = {'cols': cols, 'ragged': len(ns) > 1}
    n = ns[0] if ns else 0
    o['rows'] = [{c: tag(lists[c][i], ids) for c in cols} for i in range(n)] if not o['ragged'] else []
    try:
        o['len'] = len(d)
        o['shape'] = list(d.shape)
        o['iter'] = [{c: tag(v, ids) for c, v in row.items()} for row in d]
        o['cells'] = [{c: tag(d[i][c], ids) for c in cols} for i in range(len(d))]
        o['bycol'] = [{c: tag(d[c][i], ids) for c in cols} for i in range(len(d))]
    except Exception as e:
        o['error'] = type(e).__name__
    return o


def replay_hist(snap):
    ids = IdMap()
    regs = {}
    out = OK
    for k, h in enumerate(snap['hist']):
        out = step(regs, h, ids, k + len(snap['hist']))
    got = {'out': out, 'regs': {}}
    live = sorted(regs)
    for r in ('r1', 'r2', 'r3'):
        if r in regs:
            got['regs'][r] = {'live': True, 'same': [s for s in live if regs[s] is regs[r]], 'table': observe(regs[r], ids)}
        else:
            got['regs'][r] = {'live': False}
    return got


def expected(snap):
    exp = {'out': snap['out'], 'regs': {}}
    live = sorted(r for r, v in snap['regs'].items() if v['live'])
    for r, v in snap['regs'].items():
        if not v['live']:
            exp['regs'][r] = {'live': False}; continue
        t = v['table']
        exp['regs'][r] = {'live': True, 'same': [s for s in live if snap['regs'][s]['obj'] == v['obj']],
                          'table': {'cols': list(t['cols']), 'ragged': False, 'rows': t['rows'], 'len': t['len'], 'shape': list(t['shape']),
                                    'iter': t['rows'], 'cells': t['rows'], 'bycol': t['rows']}}
    return exp


def seed_form(seed):
    """stable, matchable description of a construction form"""
    n = len(seed.get('rows', seed.get('vals', seed.get('recs', []))))
    if seed['kind'] == 'cols':
        n = max([len(a[1]) if a[0] == 'l' else 1 for a in seed['args']] or [0])
    name = seed.get('name', '')
    return {'form': seed['kind'] + (':' + seed['how'] if 'how' in seed else ''), 'nrows': 'none' if n == 0 else 'some',
            'name_len': 'one' if len(name) == 1 else 'many' if name else 'n/a'}


def case_of(hist, where):
    last = hist[-1]
    c = {'op': last['op'], 'ops': [h['op'] for h in hist], 'hist': hist, 'source': where}
    if last['op'] == 'Relabel': c['form'] = last['form']['kind']
    if last['op'] == 'NewX': c.update(seed_form(last['seed']))
    return c


BAD_SEEDS = {}     # construction forms that already fail on their own (found in the exhaustive depth-1 behaviours): json(seed) -> clause


def culprit(hist):
    """a construction that fails on its own fails in every history: attribute the history to it (and to nothing else)"""
    for k, h in enumerate(hist):
        if h['op'] == 'NewX' and json.dumps(h['seed'], sort_keys=True) in BAD_SEEDS:
            return k
    return None


def clause_of(got, exp):
    clause = 'outcome' if got['out'] != exp['out'] else 'state'
    for r in ('r1', 'r2', 'r3'):
        g, e = got['regs'][r], exp['regs'][r]
        if g != e and g.get('live') and e.get('live'):
            if g['same'] != e['same']: clause = 'aliasing'
            elif g['table'].get('ragged'): clause = 'not_rectangular'
            elif sorted(g['table']['cols']) == sorted(e['table']['cols']) and g['table']['cols'] != e['table']['cols']: clause = 'column_order'
            elif g['table'].get('rows') == e['table']['rows'] and g['table']['cols'] == e['table']['cols']: clause = 'observations_disagree'
    return clause


def check(ctx, snap, where):
    got, exp = replay_hist(snap), expected(snap)
    ctx.evals += 1; ctx.traces += 1
    ops = [h['op'] for h in snap['hist']]
    if len(set(ops)) >= 2:
        ctx.note(json.dumps(snap['hist'], sort_keys=True))
    if got != exp:
        k = culprit(snap['hist'])
        if k is not None and len(snap['hist']) > 1:
            seed = snap['hist'][k]['seed']
            case = case_of(snap['hist'][:k + 1], where); case['consequence_in'] = ops
            ctx.violation(BAD_SEEDS[json.dumps(seed, sort_keys=True)], case, {'note': 'this history contains a construction that fails on its own'})
        else:
            clause = clause_of(got, exp)
            if len(snap['hist']) == 1 and snap['hist'][0]['op'] == 'NewX':
                BAD_SEEDS[json.dumps(snap['hist'][0]['seed'], sort_keys=True)] = clause
            ctx.violation(clause, case_of(snap['hist'], where), {'expected': exp, 'observed': got})
    return got == exp


# ---- C2S: random recorded histories -------------------------------------------------------------------------------
POOL = [["n", 0], ["n", 0], ["i", 1], ["i", 2], ["i", 0], ["i", 3], ["s", "x"], ["s", ""], ["s", "p"], ["s", "q"], ["s", "yy"], ["f", [5, 2]],
        ["nan", 1], ["nan", 2], ["inf", 1], ["d", [730120, 0, 0]], ["b", 1], ["b", 0]]
COLS = ['a', 'b', 'c', 'e', 'key', 'x', 'y', 'z', 'p', 'q', 'w']
COLU = set(COLS)
KINDS = [('tuple', 0, 3), ('list', 1, 2), ('ident', 1, 1), ('isnone', 1, 1), ('coalesce', 1, 3), ('const', 0, 0)]


def uniq(xs):
    return list(dict.fromkeys(xs))


def rand_event(rng, regs):
    live = sorted(regs)
    val = lambda: rng.choice(POOL)
    def column(n, kind=None):
        kind = kind or rng.choice(['any', 'any', 'int', 'str'])
        if kind == 'int': return [["i", rng.randint(0, 3)] for _ in range(n)]
        if kind == 'str': return [["s", rng.choice(['p', 'q', 'x', 'y'])] for _ in range(n)]
        return [val() for _ in range(n)]
    def colarg(n):
        q = rng.random()
        if q < 0.3: return ['s', val()]
        if q < 0.4: return ['l', [val()]]
        if q < 0.9: return ['l', column(n)]
        return ['l', column(rng.choice([0, 2, n + 1]))]
    def seed():
        kind = rng.choice(['recs', 'recs', 'cols', 'cols', 'rows', 'rows', 'frame', 'long', 'long', 'single'])
        n = rng.choice([0, 1, 2, 3, 4, 7])
        cs = rng.sample(COLS, rng.choice([1, 2, 3]))
        if kind == 'single':
            return {'kind': 'single', 'name': rng.choice(['a', 'ab', 'name', 'key']), 'vals': column(rng.choice([0, 1, 2, 3]))}
        if kind == 'long':
            n = rng.choice([1, 2, 3, 4, 5])
            return {'kind': 'cols', 'how': 'dict', 'cols': ['x', 'y', 'z'], 'args': [['l', column(n, 'int')], ['l', column(n, 'str')], ['l', column(n)]]}
        if kind == 'recs':
            if rng.random() < 0.1: return {'kind': 'recs', 'recs': []}
            m = rng.choice([1, 1, 2, 3])
            return {'kind': 'recs', 'recs': [[[c, val()] for c in rng.sample(cs, len(cs))] for _ in range(m)]}
        if kind == 'cols':
            if rng.random() < 0.1: cs = []
            return {'kind': 'cols', 'how': rng.choice(['dict', 'zip']), 'cols': cs, 'args': [colarg(n) for _ in cs]}
        if kind == 'rows':
            how = rng.choice(['header', 'plain', 'ziprows', 'frame'])
            if how == 'frame':      # a DataFrame column is all ints or all strings (None would come back as NaN)
                columns = [column(n, rng.choice(['int', 'str'])) for _ in cs]
                return {'kind': 'rows', 'how': how, 'hdrs': cs, 'rows': [[col[i] for col in columns] for i in range(n)]}
            return {'kind': 'rows', 'how': how, 'hdrs': cs, 'rows': [[val() for _ in cs] for _ in range(n)]}
        n = max(n, 1)
        columns = [column(n, rng.choice(['int', 'str'])) for _ in cs]
        return {'kind': 'frame', 'hdrs': cs, 'rows': [[col[i] for col in columns] for i in range(n)], 'index': rng.choice(cs)}
    if not live or rng.random() < 0.1:
        return {'op': 'NewX', 'rd': rng.choice(['r1', 'r2', 'r3']), 'seed': seed()}
    r = rng.choice(live); d = regs[r]
    cols = list(dict.keys(d))
    try:
        n = len(d)
    except Exception:
        n = 0
    rd = rng.choice(['r1', 'r2', 'r3'])
    def name(p_missing=0.15):
        return rng.choice(cols) if cols and rng.random() > p_missing else rng.choice(COLS + ['zz'])
    def rfn(extra=(), p_missing=0.1):
        kind, lo, hi = rng.choice(KINDS)
        m = rng.randint(lo, hi)
        pool = cols + list(extra)
        args = []
        for _ in range(m):
            a = rng.choice(pool) if pool and rng.random() > p_missing else rng.choice(COLS + ['zz'])
            if a not in args: args.append(a)
        if len(args) < lo: args = ['zz' if 'zz' not in args else 'a']
        return {'kind': kind, 'args': args}
    def ritem(extra=()):
        return ['c', name()] if rng.random() < 0.5 else ['f', rfn(extra)]
    op = rng.choice(['Extend', 'Get', 'GetAttr', 'TupleGet', 'Apply', 'IfElse', 'Repr', 'DictConcat', 'DictConcatRows', 'Call', 'Call', 'DoX', 'DoX',
                     'Relabel', 'Relabel', 'Unpivot', 'Xyz', 'Xyz', 'UpdateFrom', 'IfNone', 'IfNone', 'SetCol', 'DelCol', 'Copy'])
    if op == 'Extend':
        return {'op': op, 'r': r, 'rd': rd, 'extra': [[c, colarg(n)] for c in rng.sample(COLS, rng.choice([1, 2]))]}
    if op == 'Get':
        return {'op': op, 'r': r, 'c': name(0.4), 'dflt': val()}
    if op == 'GetAttr':
        return {'op': op, 'r': r, 'c': name(0.4), 'dflt': [] if rng.random() < 0.5 else [val()]}
    if op == 'TupleGet':
        return {'op': op, 'r': r, 'items': [ritem() for _ in range(rng.choice([1, 2, 3]))]}
    if op == 'Apply':
        defs = [[c, val()] for c in rng.sample(['w', 'zz', 'a', 'key'], rng.choice([0, 0, 1, 2]))]
        return {'op': op, 'r': r, 'fn': rfn([c for c, _ in defs]), 'defs': defs}
    if op == 'IfElse':
        defs = [[c, val()] for c in rng.sample(['w', 'zz', 'b'], rng.choice([0, 0, 1]))]
        cond = ['c', name(0.1)] if rng.random() < 0.6 else ['f', {'kind': rng.choice(['isnone', 'ident']), 'args': [name(0.1)]}]
        return {'op': op, 'r': r, 'cond': cond, 'a': ritem([c for c, _ in defs]), 'b': ritem([c for c, _ in defs]), 'defs': defs}
    if op == 'DictConcat':
        m = rng.choice([0, 1, 2, 3])
        return {'op': op, 'recs': [[[c, val()] for c in rng.sample(COLS, rng.choice([1, 2, 3]))] for _ in range(m)]}
    if op in ('Repr', 'DictConcatRows'):
        return {'op': op, 'r': r}
    if op == 'Call':
        names = rng.sample(COLS, rng.choice([1, 1, 2, 2, 3]))
        kws = []
        for c in names:
            q = rng.random()
            kws.append([c, colarg(n)] if q < 0.3 else [c, ['f', rfn(names + ['key'])]])
        return {'op': op, 'r': r, 'rd': rd, 'kws': kws}
    if op == 'DoX':
        if not cols: return {'op': 'Copy', 'r': r, 'rd': rd}
        fs = []
        for _ in range(rng.choice([1, 1, 2])):
            kind = rng.choice(['tuple', 'list', 'zero', 'ident', 'coalesce'])
            extras = []
            for _ in range(rng.choice([0, 0, 1, 2])):
                a = rng.choice(cols) if rng.random() > 0.1 else 'zz'
                if a not in extras: extras.append(a)
            fs.append({'kind': kind, 'extras': extras if kind in ('tuple', 'list', 'coalesce') else []})
        cs = rng.sample(cols, rng.randint(0, min(3, len(cols))))
        return {'op': op, 'r': r, 'rd': rd, 'fs': fs, 'cs': cs, 'star': bool(cs) and rng.random() < 0.5 or (not cs and rng.random() < 0.7)}
    if op == 'Relabel':
        kind = rng.choice(['map', 'map', 'map', 'fn', 'fnmap', 'prefix', 'suffix', 'list'])
        target = lambda: rng.choice(cols + ['d', 'k', 'z']) if cols else 'd'
        pairs = [[c, target()] for c in rng.sample(uniq(cols + ['zz']), rng.randint(1, min(2, len(uniq(cols + ['zz'])))))]
        if kind == 'map': form = {'kind': kind, 'how': rng.choice(['kw', 'dict']), 'pairs': pairs}
        elif kind == 'fn': form = {'kind': kind, 'fn': rng.choice(sorted(NAMEFN))}
        elif kind == 'fnmap': form = {'kind': kind, 'fn': rng.choice(sorted(NAMEFN)), 'pairs': pairs}
        elif kind == 'prefix': form = {'kind': kind, 's': rng.choice(['x_', 'pre_'])}
        elif kind == 'suffix': form = {'kind': kind, 's': rng.choice(['_x', '_1'])}
        else: form = {'kind': kind, 'names': rng.sample(['p', 'q', 'w', 'a', 'b', 'z'], rng.choice([len(cols)] * 3 + [1, 2]) if 0 < len(cols) <= 6 else 2)}
        return {'op': op, 'r': r, 'rd': rd, 'form': form}
    if op == 'Unpivot':
        xs = rng.sample(cols, rng.randint(1, min(2, len(cols)))) if cols and rng.random() < 0.9 else ['zz']
        rest = [c for c in cols if c not in xs]
        ysel = [] if rng.random() < 0.7 or not rest else rng.sample(rest, rng.randint(1, len(rest))) + (['zz'] if rng.random() < 0.1 else [])
        return {'op': op, 'r': r, 'rd': rd, 'xs': xs, 'y': rng.choice(['y', 'k', 'name'] + cols[:1]), 'z': rng.choice(['z', 'v', 'value']), 'ysel': ysel}
    if op == 'Xyz':
        raw = {c: dict.__getitem__(d, c) for c in cols}
        raw = {c: v if isinstance(v, list) else [None] for c, v in raw.items()}
        ints = [c for c in cols if all(type(v) is int for v in raw[c])]
        strs = [c for c in cols if all(type(v) is str and v in COLU for v in raw[c])]
        for _ in range(6):
            if not ints or not strs: break
            xs = rng.sample(ints, rng.randint(1, min(2, len(ints))))
            y = rng.choice(strs)
            if y in xs or any(v in xs for v in raw[y]): continue
            return {'op': op, 'r': r, 'rd': rd, 'xs': xs, 'y': y, 'z': ritem(), 'agg': rng.choice(sorted(AGG))}
        return {'op': 'Repr', 'r': r}
    if op == 'UpdateFrom':
        return {'op': op, 'r': r, 'r2': rng.choice(live)}
    if op == 'IfNone':
        none = rng.choice([['none'], ['none'], ['nan'], ['vals', [val() for _ in range(rng.choice([1, 2]))]], ['isstr']])
        if none[0] == 'vals':
            none[1] = [v for v in none[1] if v[0] not in ('nan', 'n', 'inf')] or [["i", 1]]
        kws = []
        for c in rng.sample(uniq(cols + ['zz', 'w']), rng.randint(0, 2)):
            kws.append([c, ['s', val()]] if rng.random() < 0.5 else [c, ['f', rfn(['key'], 0.25)]])
        return {'op': op, 'r': r, 'rd': rd, 'none': none, 'kws': kws}
    if op == 'SetCol':
        return {'op': op, 'r': r, 'c': rng.choice(COLS), 'arg': colarg(n)}
    if op == 'DelCol':
        return {'op': op, 'r': r, 'c': rng.choice(cols + ['zz'] if cols else COLS)}
    return {'op': 'Copy', 'r': r, 'rd': rd}


def post(regs, ids):
    live = sorted(regs)
    p = {}
    for r in ('r1', 'r2', 'r3'):
        if r in regs:
            t = observe(regs[r], ids)
            for k in ('len', 'shape', 'iter', 'cells', 'bycol'):
                t.setdefault(k, 'error:' + t.get('error', '?'))
            p[r] = {'live': True, 'same': [s for s in live if regs[s] is regs[r]], 'table': t}
        else:
            p[r] = {'live': False}
    return p


def record(rng, length):
    ids = IdMap(); regs = {}; events = []
    for k in range(length):
        e = rand_event(rng, regs)
        e['form_k'] = rng.randint(0, 3)
        e['out'] = step(regs, e, ids, e['form_k'])
        e['post'] = post(regs, ids)
        events.append(e)
    return events


def report_rejected(ctx, obs, bad, source='c2s'):
    for line, clause in bad:
        ev = obs[line - 1]['events']
        k = int(clause.split(':')[0][4:])
        what = clause.split(':')[1]
        if what.startswith('SPEC'):
            raise Machinery('the trace specification judged itself inconsistent on history %d: %s' % (line, clause))
        hist = [{kk: v for kk, v in e.items() if kk not in ('post',)} for e in ev[:k]]
        ctx.violation(what, case_of(hist, source), {'observed_post': ev[k - 1]['post'], 'observed_out': ev[k - 1]['out']})


def c2s(ctx, nhist):
    obs = []
    for i in range(nhist):
        obs.append({'events': record(ctx.rng, ctx.rng.choice([4, 8, 12, 20]))})
        ctx.note(('c2s', i))
    ctx.evals += sum(len(o['events']) for o in obs)
    ops = {}
    for o in obs:
        for e in o['events']:
            key = (e['op'], e['out'][0])
            ops[key] = ops.get(key, 0) + 1
    ctx.extra['c2s_calls_by_op_and_outcome'] = {'%s:%s' % k: v for k, v in sorted(ops.items())}
    bad = ctx.validate('Trace_DictableX', obs)
    report_rejected(ctx, obs, bad)
    ctx.sample({'recorded_history': [{kk: v for kk, v in e.items() if kk != 'post'} for e in obs[0]['events'][:6]]})
    rejected = {line for line, _ in bad}
    return [o for i, o in enumerate(obs) if i + 1 not in rejected]


def binding(ctx, obs):
    """the binding is real: one corrupted field of one recorded (and accepted) observation must be rejected by the trace specification"""
    for o in obs:
        for k, e in enumerate(o['events']):
            t = [r for r in ('r1', 'r2', 'r3') if e['post'][r]['live'] and e['post'][r]['table']['rows'] and not e['post'][r]['table']['ragged']]
            if e['out'] == OK and t and k >= 2:
                bad = json.loads(json.dumps({'events': o['events'][:k + 1]}))
                tb = bad['events'][k]['post'][t[0]]['table']
                c = tb['cols'][0]
                tb['rows'][0][c] = ['s', 'corrupted']
                rej = ctx.validate('Trace_DictableX', [bad])
                ok = bool(rej) and rej[0][1] == 'step%d:rows' % (k + 1)
                ctx.extra['binding_demo'] = {'corrupted': 'events[%d].post.%s.table.rows[0].%s' % (k, t[0], c), 'verdict': rej[0][1] if rej else 'accepted'}
                if not ok:
                    raise Machinery('a corrupted observation was not rejected by Trace_DictableX: %s' % (rej,))
                return
    raise Machinery('no observation suitable for the binding demonstration')


def accept_proposed(ctx):
    """VERIF_X02_ACCEPT_PROPOSED=1: treat the PROPOSED known findings of extensions/X02.known.json as known (used for the
    sensitivity runs, so that a mutant shows as exit 1 against a baseline of exit 0); by default they are reported"""
    import os
    if os.environ.get('VERIF_X02_ACCEPT_PROPOSED') == '1':
        with open(os.path.join(os.path.dirname(os.path.dirname(os.path.abspath(__file__))), 'extensions', 'X02.known.json')) as f:
            ctx.known = ctx.known + [k for k in json.load(f)['known'] if k['property'] == 'X02']
        ctx.extra['proposed_known_findings_accepted'] = True


def run(ctx):
    accept_proposed(ctx)
    ctx.rule = ('every behaviour of the session state machine DictableX.tla (all call sequences of length <= 2 from the menus; simulated '
                'sequences of length 6 and 10) replayed on real dictables; outcome of the last call (ok / exception class / returned value) and all '
                'live tables (ordered column list, len, shape, iteration, d[i][c], d[c][i], aliasing) compared with what TLC printed. '
                'Non-trivial = at least two different operations.')
    ctx.mc('DictableX', 'DictableX_mc3.cfg' if ctx.quick else 'DictableX_mc3laws.cfg')
    snaps = ctx.generate('DictableX', 'DictableX_gen2.cfg')
    BAD_SEEDS.clear()
    for s in sorted(snaps, key=lambda s: len(s['hist'])):         # the single calls first: a construction that fails on its own is found there
        check(ctx, s, 'exhaustive-depth-2')
    ctx.sample({'history': snaps[len(snaps) // 2]['hist'], 'expected_out': snaps[len(snaps) // 2]['out'], 'expected_state': snaps[len(snaps) // 2]['regs']})
    for cfg, num, depth, cap in ([('DictableX_sim6.cfg', 900, 7, 3000)] if ctx.quick else
                                 [('DictableX_sim6.cfg', 12000, 7, 40000), ('DictableX_sim10.cfg', 6000, 11, 20000)]):
        sims = ctx.generate('DictableX', cfg, simulate=num, depth=depth, seed=ctx.seed + 1, workers=1)
        sims = sims[:cap]
        for s in sims:
            check(ctx, s, cfg)
        ctx.sample({'history': sims[-1]['hist'], 'expected_out': sims[-1]['out']})
    obs = c2s(ctx, 250 if ctx.quick else 5000)
    binding(ctx, obs)
    ctx.exhaustive = False
    ctx.assumptions += ['column order IS part of this model (unlike C01); records with different keys (unspecified key order) are left to C01',
                        'named deviations: IfNoneInPlace (if_none fills existing columns in the operand and returns the operand), '
                        'SelfReferenceIsCircular (two functions of one call that each read their own column are refused)',
                        'xyz only on int x cells and string y cells (sort order of mixed keys is property C03/C04 territory); do() only on existing columns',
                        'column names are not dictable attributes, constructor parameters (data, columns) or names starting with _',
                        'DataFrame columns hold only ints or only strings (pandas turns None into NaN)']


def replay(ctx, body):
    """re-execute the recorded history; S2C cases are compared with the stored expectation, recorded ones re-validated by TLC"""
    case = body['case']
    if case.get('source') == 'c2s':
        ids = IdMap(); regs = {}; events = []
        for k, e in enumerate(case['hist']):
            e = {kk: v for kk, v in e.items() if kk != 'out'}
            e['out'] = step(regs, e, ids, e.get('form_k', k)); e['post'] = post(regs, ids); events.append(e)
        bad = ctx.validate('Trace_DictableX', [{'events': events}])
        print('replay:', 'REJECTED %s' % bad if bad else 'accepted')
        return 1 if bad else 0
    got = replay_hist({'hist': case['hist']})
    exp = body['detail']['expected']
    print('replay:', 'state differs from the specification' if got != exp else 'state equals the specification')
    return 1 if got != exp else 0
