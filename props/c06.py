"""C06 - inc and exc partition a table; both keep the columns and the row order."""
import re, copy
from harness.enc import IdMap, tag, untag, table_from, proj_table

PREDS = {
    'a_is_none': lambda a: a is None,
    'a_eq_b': lambda a, b: a == b,
    'b_is_str': lambda b: isinstance(b, str),
    'a_num_gt_1': lambda a: isinstance(a, (int, float)) and a > 1,
    'always': lambda: True,
    'never': lambda a: False,
    'a_truthy': lambda a: a,
    'b_strlen': lambda b: len(b) if isinstance(b, str) else 0,
    'a_is_b': lambda a, b: a is b and (a is None or (isinstance(a, float) and a != a)),
}
def _above(k):
    return lambda a: isinstance(a, (int, float)) and a > k
# closures made by one factory share their code object: a memo keyed on the code would confuse them
PREDS.update({'a_above_1': _above(1), 'a_above_2': _above(2), 'a_above_0': _above(0)})
REGEX = {'has_a': re.compile('a'), 'starts_b': re.compile('^b'), 'ends_b': re.compile('b$'),
         'any': re.compile(''), 'nothing': re.compile('q')}
STRU = ["", "a", "b", "ab", "ba", "abc", "B", "xyz"]


LASTARGS = [()]
FILTER_BEFORE = [[]]


def enc_filter(args, ids):
    """the dict of conditions handed to the call, as the caller sees it (before / after)"""
    if not args or not isinstance(args[0], dict):
        return []
    def e(v):
        if isinstance(v, list): return ['list', [tag(x, ids) for x in v]]
        if hasattr(v, 'pattern'): return ['re', v.pattern]
        return ['val', tag(v, ids)]
    return [[c, e(v)] for c, v in sorted(args[0].items())]


def cell_cond(cc, ids):
    k, a = cc
    if k == 'val':
        return untag(a, ids)
    if k == 'list':
        return [untag(x, ids) for x in a]
    if k == 're':
        return REGEX[a]
    raise ValueError(cc)


def call(d, op, cond, ids, spelling, col=None):
    """one public call; returns the encoded outcome"""
    if cond['kind'] == 'pred':
        args, kw = (PREDS[cond['name']],), {}
    else:
        flt = {c: cell_cond(cc, ids) for c, cc in cond['items']}
        if spelling == 'mixed' and len(flt) >= 2:       # the first condition in a dict, the others as keywords
            c0 = cond['items'][0][0]
            args, kw = ({c0: flt[c0]},), {c: v for c, v in flt.items() if c != c0}
        else:
            args, kw = ((), flt) if spelling == 'kw' else ((flt,), {})
    LASTARGS[0] = args
    FILTER_BEFORE[0] = enc_filter(args, ids)
    try:
        if op == 'inc':
            res = d.inc(*args, **kw)
        elif op == 'exc':
            res = d.exc(*args, **kw)
        elif op == 'find':
            res = getattr(d, 'find_' + col)(*args, **kw)
            return {'kind': 'val', 'v': tag(res, ids)}
        elif op == 'one':
            res = d.one_or_none(*args, **kw)
            if res is None:
                return {'kind': 'none'}
            return {'kind': 'row', 'row': {k: tag(v, ids) for k, v in res.items()}}
        t = proj_table(res, ids)
        t['kind'] = 'table'
        return t
    except Exception as e:
        return {'kind': 'exc', 'cls': type(e).__name__}


def observe_one2(abs_t, cond, excl, find, spelling):
    """d.one_or_none(cond, exc = {...}, find = col)"""
    ids = IdMap()
    d = table_from(abs_t, ids)
    if cond['kind'] == 'pred':
        args, kw = (PREDS[cond['name']],), {}
    else:
        flt = {c: cell_cond(cc, ids) for c, cc in cond['items']}
        args, kw = ((), flt) if spelling == 'kw' else ((flt,), {})
    if excl['kind'] != 'none':
        kw['exc'] = {c: cell_cond(cc, ids) for c, cc in excl['items']}
    if find:
        kw['find'] = find
    try:
        res = d.one_or_none(*args, **kw)
        if res is None:
            out = {'kind': 'none'}
        elif find:
            out = {'kind': 'val', 'v': tag(res, ids)}
        else:
            out = {'kind': 'row', 'row': {k: tag(v, ids) for k, v in res.items()}}
    except Exception as e:
        out = {'kind': 'exc', 'cls': type(e).__name__}
    return {'op': 'one2', 't': abs_t, 'cond': cond, 'excl': excl, 'find': find, 'out': out, 'after': proj_table(d, ids), 'spelling': spelling,
            'filter_after': [], 'filter_before': []}


def observe(abs_t, cond, op, spelling, col=None):
    ids = IdMap()
    d = table_from(abs_t, ids)
    import copy as _copy
    out = None
    # the filter dict is encoded before the call from a deep copy made inside call(); here we re-run the encoding on the live object
    out = call(d, op, cond, ids, spelling, col)
    o = {'op': op, 't': abs_t, 'cond': cond, 'out': out, 'after': proj_table(d, ids), 'spelling': spelling,
         'filter_after': enc_filter(LASTARGS[0], ids), 'filter_before': FILTER_BEFORE[0]}
    if col:
        o['col'] = col
    return o


def s2c(ctx, cases):
    """replay the cases TLC generated: plain equality with the expected outcome"""
    for k, case in enumerate(cases):
        t, cond = case['t'], case['cond']
        spellings = ['pred'] if cond['kind'] == 'pred' else ['kw', 'dict']
        for sp in spellings:
            for op in ('inc', 'exc'):
                o = observe(t, cond, op, sp)
                ctx.evals += 1
                want = case[op]
                got = o['out']
                ok = got.get('kind') == 'table' and sorted(got['cols']) == sorted(want['cols']) and got['rows'] == want['rows']
                if o['after'] != t:
                    ctx.violation('operand_changed', {'op': op, 't': t, 'cond': cond, 'spelling': sp}, {'after': o['after']})
                elif not ok:
                    ctx.violation(op + '_rows', {'op': op, 't': t, 'cond': cond, 'spelling': sp}, {'expected': want, 'observed': got})
            for col in ('a', 'b'):
                o = observe(t, cond, 'find', sp, col)
                ctx.evals += 1
                got = o['out']
                g = ['exc', got['cls']] if got['kind'] == 'exc' else got['v']
                if g not in case['find'][col]:
                    ctx.violation('find_value', {'op': 'find', 'col': col, 't': t, 'cond': cond, 'spelling': sp},
                                  {'expected_one_of': case['find'][col], 'observed': got})
        if len(case['inc']['rows']) not in (0, len(t['rows'])):
            ctx.note(('s2c', k))
        if k % 997 == 0:
            ctx.sample({'s2c_case': case})
        ctx.traces += 1


# ---------------------------------------------------------------------------------------------------------
# sessions (spec/IncSession.tla): two tables, a pool of caller-owned filter objects, a history of calls that
# take one or several filters from the pool in any spelling - and of the caller's own in-place edits of his
# objects between the calls; the pool and the tables are snapshotted after every call.  The inputs arrive in the
# law's column names a, b, c, d together with a naming; the driver renders them under the naming (the real table's
# columns are called data, key, self, ...), everything observed is encoded in the real names.
# ---------------------------------------------------------------------------------------------------------
RE_NAME = {id(r): n for n, r in REGEX.items()}
# the named predicates of spec/Table.tla as source text over the law's columns a, b: a callable on named columns is
# rendered under the session's naming (its parameters ARE the column names) and in the realisation the pool asks for
PRED_SRC = {
    'a_is_none': ('a', '{a} is None'),
    'a_eq_b': ('ab', '{a} == {b}'),
    'b_is_str': ('b', 'isinstance({b}, str)'),
    'a_num_gt_1': ('a', 'isinstance({a}, (int, float)) and {a} > 1'),
    'always': ('', 'True'),
    'never': ('a', 'False'),
    'a_truthy': ('a', '{a}'),
    'b_strlen': ('b', 'len({b}) if isinstance({b}, str) else 0'),
    'a_is_b': ('ab', '{a} is {b} and ({a} is None or (isinstance({a}, float) and {a} != {a}))'),
    'a_above_1': ('a', 'isinstance({a}, (int, float)) and {a} > 1'),
    'a_above_2': ('a', 'isinstance({a}, (int, float)) and {a} > 2'),
    'a_above_0': ('a', 'isinstance({a}, (int, float)) and {a} > 0'),
}
REALS = ['lambda', 'def', 'partial', 'partial_kw', 'callobj', 'bound', 'classm', 'try_false', 'try_none', 'kwargs_support']
IDENTITY = {'a': 'a', 'b': 'b', 'c': 'c', 'd': 'd'}


def build_pred(name, real, names):
    """the predicate `name` as a Python callable of the given realisation whose parameters are the real column names"""
    if real == 'lambda' and all(names[c] == c for c in 'ab'):
        return PREDS[name]                                  # the very objects of the single-call families (closures of one code object)
    import functools
    import pyg_base
    if not all(names[c].isidentifier() for c in 'ab'):      # no callable can be written on such columns (the spec: NameExpressible); a stand-in that no judged call takes
        names = IDENTITY
    cols, expr = PRED_SRC[name]
    params = ', '.join(names[c] for c in cols)
    body = expr.format(a=names['a'], b=names['b'])
    ns = {}
    if real in ('lambda', 'try_false', 'try_none', 'kwargs_support'):
        f = eval('lambda %s: %s' % (params, body))
        return f if real == 'lambda' else getattr(pyg_base, real)(f)
    if real == 'def':
        exec('def pred(%s):\n    return %s' % (params, body), ns)
        return ns['pred']
    if real == 'partial':                                   # functools.partial binding a leading parameter that is no column
        exec('def pred(%s):\n    return %s' % (', '.join(['_k0'] + [names[c] for c in cols]), body), ns)
        return functools.partial(ns['pred'], 0)
    if real == 'partial_kw':
        exec('def pred(%s):\n    return %s' % (', '.join([names[c] for c in cols] + ['_k0 = 1']), body), ns)
        return functools.partial(ns['pred'], _k0=0)
    head = {'callobj': 'def __call__(_me%s)', 'bound': 'def m(_me%s)', 'classm': '@classmethod\n    def m(_cls%s)'}[real]
    exec('class P(object):\n    %s:\n        return %s' % (head % (', ' + params if params else ''), body), ns)
    return ns['P']() if real == 'callobj' else ns['P']().m if real == 'bound' else ns['P'].m


def seq(x):
    """TLC prints an empty sequence as [] and an empty function as {}"""
    return list(x) if x else []


def ren_table(t, names):
    return {'cols': [names[c] for c in t['cols']], 'rows': [{names[c]: v for c, v in r.items()} for r in t['rows']]}


class Objects(object):
    """the caller's objects of one session: the pool, every list of admissible values under its identity, the callables"""
    def __init__(self, ids, names, tcols):
        self.ids, self.names, self.tcols = ids, names, tcols
        self.lists, self.lid, self.preds, self.keep = {}, {}, {}, []

    def cc_obj(self, cc):
        if cc[0] == 'list':                                 # <<"list", contents, id>>: ONE list object per id
            if cc[2] not in self.lists:
                self.lists[cc[2]] = [untag(x, self.ids) for x in cc[1]]
                self.lid[id(self.lists[cc[2]])] = cc[2]
            return self.lists[cc[2]]
        return cell_cond(cc, self.ids)

    def render(self, f):
        if f['kind'] == 'pred':
            o = build_pred(f['name'], f['real'], self.names)
            self.preds[id(o)] = (f['name'], f['real']); self.keep.append(o)
            return o
        return {self.names[c]: self.cc_obj(cc) for c, cc in seq(f['items'])}

    def enc(self, o):
        """a pool object as its owner sees it; a dict has no order that matters: conditions in the table's column order"""
        if type(o) is dict:
            def e(v):
                if isinstance(v, list): return ['list', [tag(x, self.ids) for x in v], self.lid.get(id(v), 0)]
                if id(v) in RE_NAME: return ['re', RE_NAME[id(v)]]
                return ['val', tag(v, self.ids)]
            pos = {c: k for k, c in enumerate(self.tcols)}
            return {'kind': 'dict', 'name': '', 'real': 'dict',
                    'items': [[str(c), e(v)] for c, v in sorted(o.items(), key=lambda kv: (pos.get(kv[0], len(pos)), str(kv[0])))]}
        if id(o) in self.preds:
            return {'kind': 'pred', 'name': self.preds[id(o)][0], 'real': self.preds[id(o)][1], 'items': []}
        return {'kind': 'other', 'name': type(o).__name__, 'real': '', 'items': []}

    def fresh_copy(self, objs):
        """new objects holding, by value, what objs hold now (a caller who writes the literal again); the lists keep their ids
        for the encoding only"""
        new = Objects(self.ids, self.names, self.tcols)
        new.preds, new.keep = self.preds, self.keep
        out = []
        for o in objs:
            if type(o) is dict:
                d = {}
                for c, v in o.items():
                    if isinstance(v, list):
                        k = self.lid.get(id(v), 0)
                        if k not in new.lists:
                            new.lists[k] = list(v); new.lid[id(new.lists[k])] = k
                        v = new.lists[k]
                    d[c] = v
                out.append(d)
            else:
                out.append(o)
        return new, out


def spelled(call, pool):
    """the shape of a call, e.g. inc(d,f,**d), r.exc(d) (r = the previous result), u.inc(d') (fresh objects with the old contents on
    the second table) - a stable key for known-finding matchers"""
    if call['op'] == 'edit':
        return 'edit-' + call['what']
    q = "'" if call.get('src') == 'old' else ''
    a = [('d' if pool[s - 1]['kind'] == 'dict' else 'f') + q for s in seq(call['pos'])]
    if call['kw']: a.append('**d' + q)
    if call['x']: a.append('exc=d' + q)
    return '%s%s(%s)' % ({'last': 'r.', 'u': 'u.'}.get(call.get('on'), ''), call['op'] if call['op'] != 'find' else 'find_' + call['col'], ','.join(a))


def label(c):
    """a column label is a string; whatever else a result carries as a label is shown as what it is"""
    return c if isinstance(c, str) else '<%s %r>' % (type(c).__name__, c)


def proj_labels(d, ids):
    out = proj_table(d, ids)
    if all(isinstance(c, str) for c in out['cols']):
        return out
    return dict(out, cols=[label(c) for c in out['cols']], rows=[{label(c): v for c, v in r.items()} for r in out['rows']])


def enc_result(res, ids, tcols):
    out = proj_labels(res, ids)
    pos = {c: k for k, c in enumerate(tcols)}
    out['cols'] = sorted(out['cols'], key=lambda c: (pos.get(c, len(pos)), str(c)))      # the column order is not the statement's business
    out['kind'] = 'table'
    return out


def apply_edit(e, objs, reg):
    """the caller edits one of his objects in place"""
    if e['what'] == 'list':
        L, new = reg.lists[e['id']], seq(e['new'])
        old = [tag(x, reg.ids) for x in L]
        if old and new == old[:-1]: L.pop()
        elif new and new[:-1] == old: L.append(untag(new[-1], reg.ids))
        elif not new: L.clear()
        else: L[:] = [untag(x, reg.ids) for x in new]
    elif e['what'] == 'set':
        objs[e['slot'] - 1][reg.names[e['col']]] = reg.cc_obj(e['new'])
    else:
        del objs[e['slot'] - 1][reg.names[e['col']]]


def norm_entry(c):
    if c['op'] == 'edit':
        return {'op': 'edit', 'what': c['what'], 'id': c['id'], 'slot': c['slot'], 'col': c['col'], 'new': seq(c['new'])}
    return {'op': c['op'], 'col': c['col'], 'pos': seq(c['pos']), 'kw': c['kw'], 'x': c['x'], 'on': c.get('on', 't'), 'src': c.get('src', 'live')}


def run_session(t_abs, u_abs, pool_abs, entries, nm):
    """replay a history on ONE pair of real tables with ONE set of filter objects; every call is logged with its outcome and
    with the pool, the tables (and, for a call made on the previous result, that result; for a call with fresh objects, those)
    as the caller sees them afterwards"""
    names = nm['f']
    ids = IdMap()
    rt, ru = ren_table(t_abs, names), ren_table(u_abs, names)
    d, du = table_from(rt, ids), table_from(ru, ids)
    reg = Objects(ids, names, rt['cols'])
    objs = [reg.render(f) for f in pool_abs]
    o = {'op': 'session', 't': t_abs, 'u': u_abs, 'nm': nm, 'pool': pool_abs, 'calls': []}
    last = None                                             # the table object the previous call returned
    old = reg.fresh_copy(objs)                              # the caller's objects by value, before his latest edit
    for c in entries:
        c = norm_entry(c)
        if c['op'] == 'edit':
            old = reg.fresh_copy(objs)
            apply_edit(c, objs, reg)
            o['calls'].append({'call': c, 'pool_after': [reg.enc(x) for x in objs]})
            continue
        if c['on'] == 'last' and last is None:              # nothing to chain on (the previous call did not return a table)
            c['on'] = 't'
        areg, aobjs = (reg, objs) if c['src'] == 'live' else old[0].fresh_copy(old[1])
        args = [aobjs[s - 1] for s in c['pos']]
        kw = aobjs[c['kw'] - 1] if c['kw'] else {}
        opd = {'t': d, 'u': du, 'last': last}[c['on']]
        res = None
        try:
            if c['op'] == 'find':
                out = {'kind': 'val', 'v': tag(getattr(opd, 'find_' + names[c['col']])(*args, **kw), ids)}
            elif c['op'] == 'one':
                row = opd.one_or_none(*args, exc=aobjs[c['x'] - 1], **kw) if c['x'] else opd.one_or_none(*args, **kw)
                out = {'kind': 'none'} if row is None else {'kind': 'row', 'row': {label(k): tag(v, ids) for k, v in row.items()}}
            else:
                res = opd.inc(*args, **kw) if c['op'] == 'inc' else opd.exc(*args, **kw)
                out = enc_result(res, ids, rt['cols'])
        except Exception as e:
            out = {'kind': 'exc', 'cls': type(e).__name__}
        o['calls'].append({'call': c, 'out': out, 'pool_after': [reg.enc(x) for x in objs],
                           'args_after': [areg.enc(x) for x in aobjs] if c['src'] == 'old' else [],
                           't_after': proj_labels(d, ids), 'u_after': proj_labels(du, ids),
                           'opd_after': enc_result(opd, ids, rt['cols']) if c['on'] == 'last' else {'kind': c['on']}})
        last = res
    return o


# A history is a process lifetime: whatever the library remembers from one history (a memo keyed on the contents of an
# argument, say) must neither hurt nor HELP the next one - replayed one after the other in one process, the first history that
# shows the library a value decides what a memo holds for all the later ones.  The histories in which the caller edits his
# objects (and the recorded random ones) are therefore replayed each in a process of its own, forked from a worker that
# has imported pyg_base and has never called it.
def iso_main(infile, outfile):
    import json, os, traceback
    import pyg_base                                   # imported, never called, in the process the histories are forked from
    with open(infile) as f:
        jobs = [json.loads(l) for l in f]
    with open(outfile, 'w') as out:
        for job in jobs:
            r, w = os.pipe()
            pid = os.fork()
            if pid == 0:
                try:
                    os.close(r)
                    try:
                        data = json.dumps(run_session(*job))
                    except BaseException:
                        data = json.dumps({'error': traceback.format_exc()})
                    with os.fdopen(w, 'w') as g:
                        g.write(data)
                finally:
                    os._exit(0)
            os.close(w)
            with os.fdopen(r) as g:
                data = g.read()
            os.waitpid(pid, 0)
            out.write((data or json.dumps({'error': 'the process of the history died'})) + '\n')


def isolated_sessions(ctx, jobs, nproc=4):
    """run_session(*job) for every job, each in its own process; the observations in the order of the jobs"""
    import json, os, subprocess, sys
    from harness.core import Machinery
    nproc = max(1, min(nproc, len(jobs)))
    procs = []
    for k in range(nproc):
        fin, fout = os.path.join(ctx.tmp, 'iso-%d.in' % k), os.path.join(ctx.tmp, 'iso-%d.out' % k)
        with open(fin, 'w') as f:
            for job in jobs[k::nproc]:
                f.write(json.dumps(job) + '\n')
        procs.append((subprocess.Popen([sys.executable, '-W', 'ignore', '-c', 'import sys, props.c06 as m; m.iso_main(sys.argv[1], sys.argv[2])', fin, fout],
                                       cwd=os.path.dirname(os.path.dirname(os.path.abspath(__file__)))), fout))
    res = [None] * len(jobs)
    for k, (p, fout) in enumerate(procs):
        if p.wait() != 0:
            raise Machinery('C06 sessions: the worker that replays isolated histories ended with %d' % p.returncode)
        with open(fout) as f:
            lines = [json.loads(l) for l in f]
        if len(lines) != len(jobs[k::nproc]):
            raise Machinery('C06 sessions: the worker replayed %d of %d histories' % (len(lines), len(jobs[k::nproc])))
        res[k::nproc] = lines
    for o in res:
        if 'error' in o:
            raise RuntimeError('a history replayed in a process of its own raised:\n' + o['error'])
    return res


def session_case(o, k):
    """the history up to and including entry k (1-based) - what a violation is reported and matched on"""
    calls = [e['call'] for e in o['calls'][:k]]
    return {'op': 'session', 'form': spelled(calls[-1], o['pool']), 'forms': [spelled(c, o['pool']) for c in calls],
            'naming': [o['nm']['f'][c] for c in o['t']['cols']], 'reals': sorted({f['real'] for f in o['pool']} - {'dict'}),
            't': o['t'], 'u': o['u'], 'nm': o['nm'], 'pool': o['pool'], 'calls': calls}


OUTCOME_CLAUSE = {'inc': 'inc_rows', 'exc': 'exc_rows', 'find': 'find_value', 'one': 'one_or_none'}


CALL_KEYS = {'pos', 'kw', 'op', 'col', 'x', 'on', 'src'}
EDIT_KEYS = {'op', 'what', 'id', 'slot', 'col', 'new'}
POOL_KEYS = {'kind', 'name', 'items', 'real'}


def well_formed(s):
    """TLC's workers sort records in place; a record printed while another worker sorts it has been seen to lose a field.
    Such a line is a fault of the transport, not a case: the generator is run again."""
    try:
        return (set(s) == {'t', 'u', 'nm', 'pool', 'rt', 'ru', 'snap', 'hist'} and all(set(x) == {'cols', 'rows'} for x in (s['t'], s['u'], s['rt'], s['ru']))
                and set(s['nm']) == {'f', 'ident'} and set(s['nm']['f']) == set('abcd')
                and all(set(f) == POOL_KEYS for f in seq(s['pool']) + seq(s['snap']))
                and all(set(h) == {'call', 'opd', 'want', 'snap', 'argsnap'} and all(set(f) == POOL_KEYS for f in seq(h['snap']) + seq(h['argsnap']))
                        and (set(h['call']) == EDIT_KEYS if h['call'].get('op') == 'edit' else
                             set(h['call']) == CALL_KEYS and seq(h['want']) and all('kind' in w for w in seq(h['want'])) and 'kind' in h['opd'])
                        for h in seq(s['hist'])))
    except Exception:
        return False


def gen_sessions(ctx, cfg, **kw):
    from harness.core import Machinery
    for attempt in range(3):
        snaps = ctx.generate('MC_IncSession', cfg, **kw)
        if all(well_formed(s) for s in snaps):
            return snaps
    raise Machinery('C06 sessions: %s printed malformed histories three times in a row' % cfg)


def interesting(entries):
    """a history that is more than a sequence of plain single-filter calls"""
    return any(c['op'] == 'edit' or len(seq(c['pos'])) + (1 if c['kw'] else 0) >= 2 for c in entries)


def s2c_sessions(ctx, snaps, label, isolate=False):
    """replay the histories TLC enumerated: after every call the pool and the tables must equal the state TLC printed, the
    outcome must be one of those the law allows (plain == / membership in the printed list)"""
    from harness.core import Machinery
    jobs = [(s['t'], s['u'], seq(s['pool']), [h['call'] for h in seq(s['hist'])], s['nm']) for s in snaps]
    obs = isolated_sessions(ctx, jobs) if isolate else None
    for k, s in enumerate(snaps):
        hist = seq(s['hist'])
        o = obs[k] if isolate else run_session(*jobs[k])
        ctx.evals += len(hist)
        ctx.traces += 1
        for i, (h, e) in enumerate(zip(hist, o['calls'])):
            if e['call']['op'] == 'edit':
                if e['pool_after'] != seq(h['snap']):
                    raise Machinery('C06 sessions: the rendered edit does not encode back to what TLC printed: %r / %r' % (e['pool_after'], h['snap']))
                continue
            if e['t_after'] != s['rt'] or e['u_after'] != s['ru'] or e['opd_after'] != h['opd']:
                clause, detail = 'operand_changed', {'after': e['t_after'], 'second_after': e['u_after'], 'operand_after': e['opd_after']}
            elif e['pool_after'] != seq(h['snap']):
                clause, detail = 'filter_argument_changed', {'pool_after': e['pool_after'], 'pool_expected': seq(h['snap'])}
            elif e['args_after'] != seq(h['argsnap']):
                clause, detail = 'filter_argument_changed', {'fresh_arguments_after': e['args_after'], 'expected': seq(h['argsnap'])}
            elif e['out'] not in seq(h['want']):
                clause, detail = OUTCOME_CLAUSE[h['call']['op']], {'expected_one_of': seq(h['want']), 'observed': e['out']}
            else:
                continue
            ctx.violation(clause, session_case(o, i + 1), detail)
            break
        if interesting([h['call'] for h in hist]) or s['nm']['f']['a'] != 'a' or any(f['real'] not in ('dict', 'lambda') for f in seq(s['pool'])):
            ctx.note((label, k))
        if k % 4999 == 1:
            ctx.sample({'s2c_session': {'t': s['rt'], 'pool': s['pool'], 'hist': hist}})


NAMINGS = [IDENTITY,
           {'a': 'data', 'b': 'key', 'c': 'columns', 'd': 'value'}, {'a': 'columns', 'b': 'data', 'c': 'key', 'd': 'item'},
           {'a': 'function', 'b': 'value', 'c': 'data', 'd': 'functions'}, {'a': 'self', 'b': 'filters', 'c': 'exc', 'd': 'find'},
           {'a': 'b', 'b': 'a', 'c': 'd', 'd': 'c'}, {'a': 'exc', 'b': 'find', 'c': 'self', 'd': 'res'},
           {'a': 'functions', 'b': 'row', 'c': 'item', 'd': 'keys'}, {'a': 'x y', 'b': '1', 'c': 'a', 'd': '-'},
           {'a': 'key', 'b': 'columns', 'c': 'value', 'd': 'data'}]


def rand_session(rng):
    """a random history on a random table: 2-5 pool objects, 2-6 calls each taking 0-3 of them, the caller's edits in between,
    fresh objects with the old contents, a second table, a random naming and random realisations of the callables"""
    t, sub = rand_table(rng, 8)
    u = {'cols': t['cols'], 'rows': [{c: rng.choice(sub) for c in t['cols']} for _ in range(rng.choice([0, 1, 3, 5]))]}
    cols = t['cols']
    f = rng.choice(NAMINGS) if rng.random() < 0.5 else IDENTITY
    nm = {'f': f, 'ident': all(f[c].isidentifier() for c in 'abcd')}        # (the spec's attribute of a naming: all names are identifiers)
    wild = rng.random() < 0.15            # now and then two filters disagree on a column: outside the domain, the spec says so
    nlist = [0]
    def vals(k):
        return [rng.choice(sub + [["i", 99]]) for _ in range(k)]
    def cc():
        q = rng.random()
        if q < 0.45:
            return ['val', rng.choice(sub + [["i", 99]])]
        if q < 0.8:
            nlist[0] += 1                 # a list OBJECT of its own
            return ['list', vals(rng.choice([0, 1, 2, 3])), nlist[0]]
        return ['re', rng.choice(sorted(REGEX))]
    by_col = {c: cc() for c in cols}      # a list condition reused by several dicts is one list object held by all of them
    pool = []
    for _ in range(rng.choice([2, 3, 3, 4, 5])):
        r = rng.random()
        if r < 0.2:
            pool.append({'kind': 'pred', 'name': rng.choice(sorted(PREDS)), 'real': rng.choice(REALS), 'items': []})
        elif r < 0.27:
            pool.append({'kind': 'dict', 'name': '', 'real': 'dict', 'items': []})
        else:
            cs = rng.sample(cols, rng.choice([1, 1, 2, min(3, len(cols))]))
            pool.append({'kind': 'dict', 'name': '', 'real': 'dict', 'items': [[c, cc() if wild else by_col[c]] for c in cs]})
    dicts = [i + 1 for i, f in enumerate(pool) if f['kind'] == 'dict']
    view = copy.deepcopy(pool)            # (only to draw edits that make sense: which columns a dict has, how long a list is)
    calls, edited = [], False
    for _ in range(rng.choice([2, 3, 4, 6])):
        prevc = [c for c in calls if c['op'] != 'edit']
        if prevc and calls[-1]['op'] != 'edit' and dicts and rng.random() < 0.3:
            used = [s for s in list(prevc[-1]['pos']) + [prevc[-1]['kw']] if s and view[s - 1]['kind'] == 'dict'] or dicts
            s = rng.choice(used)
            items = view[s - 1]['items']
            lists = [cnd for _, cnd in items if cnd[0] == 'list']
            q = rng.random()
            if lists and q < 0.5:
                cnd = rng.choice(lists)
                new = rng.choice([cnd[1][:-1], cnd[1] + vals(1), [], vals(2)])
                e = {'op': 'edit', 'what': 'list', 'id': cnd[2], 'slot': 0, 'col': '', 'new': new}
                for g in view:
                    for it in g['items']:
                        if it[1][0] == 'list' and it[1][2] == cnd[2]:
                            it[1] = ['list', new, cnd[2]]
            elif items and q < 0.7:
                c0 = rng.choice(items)[0]
                e = {'op': 'edit', 'what': 'del', 'id': 0, 'slot': s, 'col': c0, 'new': []}
                view[s - 1]['items'] = [it for it in items if it[0] != c0]
            else:
                c0 = rng.choice(cols)
                new = ['val', rng.choice(sub)]
                e = {'op': 'edit', 'what': 'set', 'id': 0, 'slot': s, 'col': c0, 'new': new}
                if any(it[0] == c0 for it in items):
                    view[s - 1]['items'] = [[c0, new] if it[0] == c0 else it for it in items]
                else:
                    items.append([c0, new])
            calls.append(e); edited = True
        op = rng.choice(['inc', 'inc', 'exc', 'exc', 'find', 'one'])
        pos = [rng.randrange(len(pool)) + 1 for _ in range(rng.choice([0, 1, 1, 2, 2, 3]))]
        seen = False
        for i, sl in enumerate(pos):      # a single callable per call
            if pool[sl - 1]['kind'] == 'pred':
                if seen and dicts: pos[i] = rng.choice(dicts)
                seen = True
        kw = rng.choice(dicts) if dicts and rng.random() < 0.3 else 0
        x = rng.choice(dicts) if dicts and op == 'one' and rng.random() < 0.4 else 0
        on = 'last' if prevc and calls[-1]['op'] in ('inc', 'exc') and rng.random() < 0.3 else 'u' if rng.random() < 0.2 else 't'
        if on == 'last' and rng.random() < 0.5:            # the very same arguments again, on the result
            pos, kw = list(calls[-1]['pos']), calls[-1]['kw']
        src = 'old' if edited and on != 'last' and rng.random() < 0.4 else 'live'
        calls.append({'op': op, 'col': rng.choice(cols) if op == 'find' else '', 'pos': pos, 'kw': kw, 'x': x, 'on': on, 'src': src})
    return t, u, pool, calls, nm


def rand_table(rng, nmax):
    n = rng.choice([0, 1, 2, 3, 5, 8, 13, 21, nmax])
    n = min(n, nmax)
    cols = ['a', 'b'] + rng.choice([[], ['c'], ['c', 'd']])
    pool = [["n", 0], ["i", 1], ["i", 2], ["i", 3], ["f", [1, 1]], ["f", [5, 2]], ["nan", 1], ["nan", 2], ["nan", 3],
            ["inf", 1], ["b", 1], ["b", 0], ["i", 0]] + [["s", s] for s in STRU]
    k = rng.choice([3, 5, len(pool)])
    sub = rng.sample(pool, k)
    return {'cols': cols, 'rows': [{c: rng.choice(sub) for c in cols} for _ in range(n)]}, sub


def rand_cond(rng, t, sub):
    r = rng.random()
    if r < 0.2:
        return {'kind': 'pred', 'name': rng.choice(sorted(PREDS))}
    def cc():
        q = rng.random()
        if q < 0.45:
            return ['val', rng.choice(sub + [["i", 99]])]
        if q < 0.8:
            return ['list', [rng.choice(sub + [["i", 99]]) for _ in range(rng.choice([0, 1, 2, 3]))]]
        return ['re', rng.choice(sorted(REGEX))]
    cols = rng.sample(t['cols'], rng.choice([0, 1, 1, 2, min(3, len(t['cols']))]))
    return {'kind': 'kw', 'items': [[c, cc()] for c in sorted(cols)]}


def c2s(ctx, ntables, nsessions):
    obs = []
    for i in range(ntables):
        t, sub = rand_table(ctx.rng, 30)
        for j in range(4):
            cond = rand_cond(ctx.rng, t, sub)
            sp = 'pred' if cond['kind'] == 'pred' else ctx.rng.choice(['kw', 'dict', 'mixed'])
            for op in ('inc', 'exc', 'one'):
                obs.append(observe(t, cond, op, sp))
            obs.append(observe(t, cond, 'find', sp, ctx.rng.choice(t['cols'])))
            excl = rand_cond(ctx.rng, t, sub)
            if excl['kind'] != 'kw' or not excl['items'] or any(c in ('exc', 'find') for c, _ in excl['items']):
                excl = {'kind': 'none'}
            if not any(c in ('exc', 'find') for c in t['cols']):
                obs.append(observe_one2(t, cond, excl, ctx.rng.choice(['', ''] + t['cols']), sp))
    # recorded random histories: one line per session, judged call by call against the ORIGINAL pool
    obs += isolated_sessions(ctx, [rand_session(ctx.rng) for i in range(nsessions)])
    ctx.evals += sum(len(o['calls']) if o['op'] == 'session' else 1 for o in obs)
    if nsessions <= 500:
        bad = ctx.validate('Trace_Inc', obs)
    else:       # a recorded history is ten times a single call: keep TLC's heap small, validate the histories in slices of their own
        n1 = len(obs) - nsessions
        bad = ctx.validate('Trace_Inc', obs[:n1])
        for k in range(n1, len(obs), 500):
            bad += [(i + k, c) for i, c in ctx.validate('Trace_Inc', obs[k:k + 500])]
    for i, clause in bad:
        o = obs[i - 1]
        if o['op'] == 'session':
            k, clause = clause.split(':')
            e = o['calls'][int(k) - 1]
            if clause == 'edit_not_as_logged':          # the caller's own edit is the driver's doing, not the library's
                from harness.core import Machinery
                raise Machinery('C06 sessions: a recorded edit is not the edit that was logged: %r' % (e,))
            ctx.violation(clause, session_case(o, int(k)), {'observed': e.get('out'), 'pool_after': e['pool_after'], 'after': e.get('t_after')})
            continue
        ctx.violation(clause, {k: o[k] for k in ('op', 't', 'cond', 'spelling', 'excl', 'find') if k in o} | ({'col': o['col']} if 'col' in o else {}),
                      {'observed': o['out'], 'after': o['after']})
    for o in obs:
        if o['op'] == 'session':
            if interesting([e['call'] for e in o['calls']]):
                ctx.note(('c2s-session', repr((o['t'], o['pool'], o['nm']['f'], [e['call'] for e in o['calls']]))))
        elif o['out'].get('kind') == 'table' and 0 < len(o['out']['rows']) < len(o['t']['rows']):
            ctx.note(('c2s', repr((o['t'], o['cond'], o['op']))))
    ctx.sample({'c2s_observation': obs[ntables * 2]})
    ctx.sample({'c2s_session': obs[-1]})


def need_forms(snaps, cfg, needs):
    from harness.core import Machinery
    taken = {spelled(h['call'], x['pool']).replace('find_a', 'find').replace('find_b', 'find') for x in snaps for h in seq(x['hist'])}
    for need in needs:
        if need not in taken:
            raise Machinery('vacuous: no generated history of %s contains a call of the form %s' % (cfg, need))


def sessions(ctx):
    """histories that share the caller's objects (IncSession.tla / MC_IncSession.tla)"""
    from harness.core import Machinery
    if ctx.quick:
        # one TLC run checks the clauses on every history of 2 calls AND prints them for the replay
        snaps = gen_sessions(ctx, 'MC_IncSession_quick.cfg')
        need_forms(snaps, 'MC_IncSession_quick.cfg', ('inc(d,d)', 'exc(d,d)', 'find(d,d)', 'one(d,d)', 'inc(d,f)', 'exc(f,d)', 'inc(d,**d)', 'one(d,exc=d)', 'inc()', 'exc(f)', 'r.inc(d,d)', 'r.exc(d,**d)'))
        s2c_sessions(ctx, snaps, 'sess2')
        # round 4: call ; the caller edits an object of that call ; a call that can see it (live / fresh objects with the old
        # contents, on the table / its result / a second table)
        snaps = gen_sessions(ctx, 'MC_IncSession_edit.cfg')
        need_forms(snaps, 'MC_IncSession_edit.cfg', ('edit-list', 'edit-set', 'edit-del', "inc(d')", "exc(**d')", "u.inc(d')", "u.find(d')", "u.exc(**d')", 'r.inc(d)', "one(d')", 'inc(**d)'))
        # (each in a process of its own, see isolated_sessions; the quick tier replays a seeded sample of them, the thorough tier all)
        s2c_sessions(ctx, ctx.rng.sample(snaps, min(len(snaps), 1000)), 'edit', isolate=True)
        # the names of the columns and the realisations of the callables as data of the case
        snaps = gen_sessions(ctx, 'MC_IncSession_namesreals.cfg')
        got = {tuple(x['rt']['cols']) for x in snaps}
        for need in (('data', 'key'), ('columns', 'data'), ('self', 'filters'), ('b', 'a'), ('x y', '1')):
            if need not in got:
                raise Machinery('vacuous: no generated history of MC_IncSession_namesreals.cfg is on a table with the columns %r' % (need,))
        got = {f['real'] for x in snaps for h in seq(x['hist']) for sl in seq(h['call']['pos']) for f in [x['pool'][sl - 1]] if f['kind'] == 'pred'}
        if got != set(REALS):
            raise Machinery('vacuous: the callables handed over in MC_IncSession_namesreals.cfg are realised as %r, not as %r' % (sorted(got), REALS))
        s2c_sessions(ctx, snaps, 'names+reals')
    else:
        ctx.mc('MC_IncSession', 'MC_IncSession_thorough.cfg')
        # the model can express what it forbids: with `filters` BEING the caller's lone dict the pool does not survive inc(q1, q2)
        ctx.mc('MC_IncSession', 'MC_IncSession_adopt.cfg', must_fail='PoolUntouched', coverage=False)
        for cfg in ('MC_IncSession_gen2t.cfg', 'MC_IncSession_gen2f.cfg', 'MC_IncSession_gen3a.cfg', 'MC_IncSession_editT.cfg', 'MC_IncSession_namesT.cfg',
                    'MC_IncSession_reals.cfg'):
            s2c_sessions(ctx, gen_sessions(ctx, cfg), cfg[13:-4], isolate='edit' in cfg)
        s2c_sessions(ctx, gen_sessions(ctx, 'MC_IncSession_sim.cfg', simulate=600, depth=8, seed=ctx.seed + 1, workers=1), 'sim', isolate=True)
        # ... and histories in which the caller edits an object right after the first call (simulation picks an edit only rarely)
        s2c_sessions(ctx, gen_sessions(ctx, 'MC_IncSession_simE.cfg', simulate=400, depth=8, seed=ctx.seed + 2, workers=1), 'simE', isolate=True)


def run(ctx):
    ctx.rule = ('S2C: every (table, condition) of the TLC-enumerated universe replayed through inc/exc/find_<c> in every '
                'spelling; every TLC-enumerated HISTORY of 2 calls (first call: any 0-2 (thorough 3) filters of a pool of 3 caller-owned '
                'dicts / callables in every spelling - positional, ** keywords, exc= - second call: any 0-1 filter, or the first call '
                'again / its complement on the table it returned; thorough also any x any and simulated histories of 5) on one '
                'real table with one set of filter objects, pool, table and chained operand snapshotted after every call; '
                'round 4: every history call ; THE CALLER EDITS an object he handed over, in place (a list of admissible values: pop / clear / append; '
                'a dict: set / new key / del) ; a call that can see the edit - with the live objects (law on the contents NOW) or with FRESH '
                'objects equal by value to the OLD contents, on the table, on its previous result, on a SECOND table; every single call and '
                'its echo under NAMINGS of the columns (data, columns, key, self, function, exc, find, the two names swapped, non-identifiers) '
                'and with every REALISATION of the callable (lambda, def, functools.partial, object with __call__, bound / class method, '
                'try_false / try_none / kwargs_support = dict subclass instances); C2S: random tables (<= 30 rows, 2-4 columns) x random conditions, and random '
                'recorded histories (2-6 calls, 2-5 pool objects, random edits in between, fresh old-valued arguments, second table, random naming and realisations), validated by Trace_Inc. '
                'Non-trivial = the condition selects some but not all rows (distinct by table, condition, op); for histories: '
                'some call hands over >= 2 filters or the caller edits an object, or the naming / realisation is not the plain one (distinct by table, pool, naming, calls).')
    ctx.mc('MC_Inc', 'MC_Inc_quick.cfg' if ctx.quick else 'MC_Inc_thorough.cfg')
    s2c(ctx, ctx.generate('MC_Inc', 'MC_Inc_gen1.cfg'))
    if not ctx.quick:
        s2c(ctx, ctx.generate('MC_Inc', 'MC_Inc_gen2.cfg'))
    else:
        cases = ctx.generate('MC_Inc', 'MC_Inc_gen2.cfg')
        s2c(ctx, ctx.rng.sample(cases, 6000))
    sessions(ctx)
    c2s(ctx, 300 if ctx.quick else 5000, 300 if ctx.quick else 3000)
    ctx.exhaustive = False
    ctx.assumptions += ['regular expressions are specified extensionally on the string universe StrU of spec/Table.tla; cells are drawn from it',
                        'small-scope: MC/S2C tables have <= 2 rows over 6-10 values; C2S tables <= 30 rows',
                        'histories: tables are grids of 2-4 a-values x 2 b-values (every row tells two filters apart), pools are a menu of 5 (thorough 12) '
                        'triples of filter objects; a column named by two filters of one call carries the same condition in both (SameColumnOnce), '
                        'at most one callable per call (SingleCallable); a list of admissible values is an object with an identity (<<"list", contents, id>>): the same id in two dicts of a pool is one list held by both',
                        'histories with the caller\'s edits, and the recorded random ones, are replayed each in a process of its own (forked from a worker that imported pyg_base and never called it): what the library remembers from one history neither hurts nor helps the next',
                        'the caller edits only objects he handed to the previous call, one edit between two calls; the second table has the same columns; '
                        'NameExpressible: a condition on a column called self (one_or_none: also exc, find) is expressible through a dict filter only '
                        '(Python refuses the keyword), and on a table with a column called self no callable can be used (pyg calls it with the row as '
                        'keywords through wrapper.__call__(self, ...): TypeError - named deviation SelfColumn); callables need identifiers as column names',
                        'named deviations for a callable AND column conditions in one call: ExcMixed (two readings of exc accepted), '
                        'MixedEmptied (KeyError accepted when the callable alone accepts no row - reported as a defect of inc)']


def replay(ctx, body):
    c = body['case']
    if c['op'] == 'session':
        o = run_session(c['t'], c.get('u', c['t']), c['pool'], c['calls'], c.get('nm', {'f': IDENTITY, 'ident': True}))
    else:
        o = observe_one2(c['t'], c['cond'], c['excl'], c['find'], c['spelling']) if c['op'] == 'one2' else observe(c['t'], c['cond'], c['op'], c['spelling'], c.get('col'))
    bad = ctx.validate('Trace_Inc', [o])
    print('replay:', 'REJECTED %s' % bad if bad else 'accepted', o['calls'][-1]['out'] if c['op'] == 'session' else o['out'])
    return 1 if bad else 0
