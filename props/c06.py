"""C06 - inc and exc partition a table; both keep the columns and the row order."""
import re, copy
from harness.enc import IdMap, tag, untag, table_from, proj_table

PREDS = {
    'a_is_none': lambda a: a is None,
    'a_eq_b': lambda a, b: a == b,
    'b_is_str': lambda b: isinstance(b, str),
    'a_num_gt_1': lambda a: isinstance(a, (int, float)) and a > 1,
    'always': lambda: True,
    'never': lambda a: False,
    'a_truthy': lambda a: a,
    'b_strlen': lambda b: len(b) if isinstance(b, str) else 0,
    'a_is_b': lambda a, b: a is b and (a is None or (isinstance(a, float) and a != a)),
}
def _above(k):
    return lambda a: isinstance(a, (int, float)) and a > k
# closures made by one factory share their code object: a memo keyed on the code would confuse them
PREDS.update({'a_above_1': _above(1), 'a_above_2': _above(2), 'a_above_0': _above(0)})
REGEX = {'has_a': re.compile('a'), 'starts_b': re.compile('^b'), 'ends_b': re.compile('b$'),
         'any': re.compile(''), 'nothing': re.compile('q')}
STRU = ["", "a", "b", "ab", "ba", "abc", "B", "xyz"]


LASTARGS = [()]
FILTER_BEFORE = [[]]


def enc_filter(args, ids):
    """the dict of conditions handed to the call, as the caller sees it (before / after)"""
    if not args or not isinstance(args[0], dict):
        return []
    def e(v):
        if isinstance(v, list): return ['list', [tag(x, ids) for x in v]]
        if hasattr(v, 'pattern'): return ['re', v.pattern]
        return ['val', tag(v, ids)]
    return [[c, e(v)] for c, v in sorted(args[0].items())]


def cell_cond(cc, ids):
    k, a = cc
    if k == 'val':
        return untag(a, ids)
    if k == 'list':
        return [untag(x, ids) for x in a]
    if k == 're':
        return REGEX[a]
    raise ValueError(cc)


def call(d, op, cond, ids, spelling, col=None):
    """one public call; returns the encoded outcome"""
    if cond['kind'] == 'pred':
        args, kw = (PREDS[cond['name']],), {}
    else:
        flt = {c: cell_cond(cc, ids) for c, cc in cond['items']}
        if spelling == 'mixed' and len(flt) >= 2:       # the first condition in a dict, the others as keywords
            c0 = cond['items'][0][0]
            args, kw = ({c0: flt[c0]},), {c: v for c, v in flt.items() if c != c0}
        else:
            args, kw = ((), flt) if spelling == 'kw' else ((flt,), {})
    LASTARGS[0] = args
    FILTER_BEFORE[0] = enc_filter(args, ids)
    try:
        if op == 'inc':
            res = d.inc(*args, **kw)
        elif op == 'exc':
            res = d.exc(*args, **kw)
        elif op == 'find':
            res = getattr(d, 'find_' + col)(*args, **kw)
            return {'kind': 'val', 'v': tag(res, ids)}
        elif op == 'one':
            res = d.one_or_none(*args, **kw)
            if res is None:
                return {'kind': 'none'}
            return {'kind': 'row', 'row': {k: tag(v, ids) for k, v in res.items()}}
        t = proj_table(res, ids)
        t['kind'] = 'table'
        return t
    except Exception as e:
        return {'kind': 'exc', 'cls': type(e).__name__}


def observe_one2(abs_t, cond, excl, find, spelling):
    """d.one_or_none(cond, exc = {...}, find = col)"""
    ids = IdMap()
    d = table_from(abs_t, ids)
    if cond['kind'] == 'pred':
        args, kw = (PREDS[cond['name']],), {}
    else:
        flt = {c: cell_cond(cc, ids) for c, cc in cond['items']}
        args, kw = ((), flt) if spelling == 'kw' else ((flt,), {})
    if excl['kind'] != 'none':
        kw['exc'] = {c: cell_cond(cc, ids) for c, cc in excl['items']}
    if find:
        kw['find'] = find
    try:
        res = d.one_or_none(*args, **kw)
        if res is None:
            out = {'kind': 'none'}
        elif find:
            out = {'kind': 'val', 'v': tag(res, ids)}
        else:
            out = {'kind': 'row', 'row': {k: tag(v, ids) for k, v in res.items()}}
    except Exception as e:
        out = {'kind': 'exc', 'cls': type(e).__name__}
    return {'op': 'one2', 't': abs_t, 'cond': cond, 'excl': excl, 'find': find, 'out': out, 'after': proj_table(d, ids), 'spelling': spelling,
            'filter_after': [], 'filter_before': []}


def observe(abs_t, cond, op, spelling, col=None):
    ids = IdMap()
    d = table_from(abs_t, ids)
    import copy as _copy
    out = None
    # the filter dict is encoded before the call from a deep copy made inside call(); here we re-run the encoding on the live object
    out = call(d, op, cond, ids, spelling, col)
    o = {'op': op, 't': abs_t, 'cond': cond, 'out': out, 'after': proj_table(d, ids), 'spelling': spelling,
         'filter_after': enc_filter(LASTARGS[0], ids), 'filter_before': FILTER_BEFORE[0]}
    if col:
        o['col'] = col
    return o


def s2c(ctx, cases):
    """replay the cases TLC generated: plain equality with the expected outcome"""
    for k, case in enumerate(cases):
        t, cond = case['t'], case['cond']
        spellings = ['pred'] if cond['kind'] == 'pred' else ['kw', 'dict']
        for sp in spellings:
            for op in ('inc', 'exc'):
                o = observe(t, cond, op, sp)
                ctx.evals += 1
                want = case[op]
                got = o['out']
                ok = got.get('kind') == 'table' and sorted(got['cols']) == sorted(want['cols']) and got['rows'] == want['rows']
                if o['after'] != t:
                    ctx.violation('operand_changed', {'op': op, 't': t, 'cond': cond, 'spelling': sp}, {'after': o['after']})
                elif not ok:
                    ctx.violation(op + '_rows', {'op': op, 't': t, 'cond': cond, 'spelling': sp}, {'expected': want, 'observed': got})
            for col in ('a', 'b'):
                o = observe(t, cond, 'find', sp, col)
                ctx.evals += 1
                got = o['out']
                g = ['exc', got['cls']] if got['kind'] == 'exc' else got['v']
                if g not in case['find'][col]:
                    ctx.violation('find_value', {'op': 'find', 'col': col, 't': t, 'cond': cond, 'spelling': sp},
                                  {'expected_one_of': case['find'][col], 'observed': got})
        if len(case['inc']['rows']) not in (0, len(t['rows'])):
            ctx.note(('s2c', k))
        if k % 997 == 0:
            ctx.sample({'s2c_case': case})
        ctx.traces += 1


# ---------------------------------------------------------------------------------------------------------
# sessions (spec/IncSession.tla): one table, a pool of caller-owned filter objects, a history of calls that
# take one or several filters from the pool in any spelling; the pool and the table are snapshotted after
# every call
# ---------------------------------------------------------------------------------------------------------
PRED_NAME = {id(f): n for n, f in PREDS.items()}
RE_NAME = {id(r): n for n, r in REGEX.items()}


def seq(x):
    """TLC prints an empty sequence as [] and an empty function as {}"""
    return list(x) if x else []


def render_pool(pool, ids):
    """the caller's objects: a callable, or a dict of conditions; a list of admissible values that occurs in two dicts of the
    pool with the same contents is ONE list object held by both (a caller who reuses his list)"""
    lists = {}
    def cc_obj(cc):
        if cc[0] == 'list':
            key = repr(cc[1])
            if key not in lists:
                lists[key] = cell_cond(cc, ids)
            return lists[key]
        return cell_cond(cc, ids)
    return [PREDS[f['name']] if f['kind'] == 'pred' else {c: cc_obj(cc) for c, cc in seq(f['items'])} for f in pool]


def enc_obj(o, ids):
    """a pool object as its owner sees it; a dict has no order that matters: conditions by column name"""
    if type(o) is dict:
        def e(v):
            if isinstance(v, list): return ['list', [tag(x, ids) for x in v]]
            if id(v) in RE_NAME: return ['re', RE_NAME[id(v)]]
            return ['val', tag(v, ids)]
        return {'kind': 'dict', 'name': '', 'items': [[str(c), e(v)] for c, v in sorted(o.items(), key=lambda kv: str(kv[0]))]}
    if id(o) in PRED_NAME:
        return {'kind': 'pred', 'name': PRED_NAME[id(o)], 'items': []}
    return {'kind': 'other', 'name': type(o).__name__, 'items': []}


def spelled(call, pool):
    """the shape of a call, e.g. inc(d,f,**d), r.exc(d) (r = the previous result) - a stable key for known-finding matchers"""
    a = ['d' if pool[s - 1]['kind'] == 'dict' else 'f' for s in seq(call['pos'])]
    if call['kw']: a.append('**d')
    if call['x']: a.append('exc=d')
    return '%s%s(%s)' % ('r.' if call.get('on') == 'last' else '', call['op'] if call['op'] != 'find' else 'find_' + call['col'], ','.join(a))


def enc_result(res, ids):
    out = proj_table(res, ids)
    out['cols'] = sorted(out['cols'])
    out['kind'] = 'table'
    return out


def run_session(t_abs, pool_abs, calls):
    """replay a history on ONE real table with ONE set of filter objects; every call is logged with its outcome and
    with the pool and the table (and, for a call made on the previous result, that result) as the caller sees them afterwards"""
    ids = IdMap()
    d = table_from(t_abs, ids)
    objs = render_pool(pool_abs, ids)
    o = {'op': 'session', 't': t_abs, 'pool': [enc_obj(x, ids) for x in objs], 'calls': []}
    last = None                                             # the table object the previous call returned
    for c in calls:
        c = {'op': c['op'], 'col': c['col'], 'pos': seq(c['pos']), 'kw': c['kw'], 'x': c['x'], 'on': c.get('on', 't')}
        if c['on'] == 'last' and last is None:              # nothing to chain on (the previous call did not return a table)
            c['on'] = 't'
        args = [objs[s - 1] for s in c['pos']]
        kw = objs[c['kw'] - 1] if c['kw'] else {}
        opd = d if c['on'] == 't' else last
        res = None
        try:
            if c['op'] == 'find':
                out = {'kind': 'val', 'v': tag(getattr(opd, 'find_' + c['col'])(*args, **kw), ids)}
            elif c['op'] == 'one':
                row = opd.one_or_none(*args, exc=objs[c['x'] - 1], **kw) if c['x'] else opd.one_or_none(*args, **kw)
                out = {'kind': 'none'} if row is None else {'kind': 'row', 'row': {k: tag(v, ids) for k, v in row.items()}}
            else:
                res = opd.inc(*args, **kw) if c['op'] == 'inc' else opd.exc(*args, **kw)
                out = enc_result(res, ids)
        except Exception as e:
            out = {'kind': 'exc', 'cls': type(e).__name__}
        o['calls'].append({'call': c, 'out': out, 'pool_after': [enc_obj(x, ids) for x in objs], 't_after': proj_table(d, ids),
                           'opd_after': enc_result(opd, ids) if c['on'] == 'last' else {'kind': 't'}})
        last = res
    return o


def session_case(o, k):
    """the history up to and including call k (1-based) - what a violation is reported and matched on"""
    calls = [e['call'] for e in o['calls'][:k]]
    return {'op': 'session', 'form': spelled(calls[-1], o['pool']), 'forms': [spelled(c, o['pool']) for c in calls],
            't': o['t'], 'pool': o['pool'], 'calls': calls}


OUTCOME_CLAUSE = {'inc': 'inc_rows', 'exc': 'exc_rows', 'find': 'find_value', 'one': 'one_or_none'}


CALL_KEYS = {'pos', 'kw', 'op', 'col', 'x', 'on'}


def well_formed(s):
    """TLC's workers sort records in place; a record printed while another worker sorts it has been seen to lose a field.
    Such a line is a fault of the transport, not a case: the generator is run again."""
    try:
        return (set(s) == {'t', 'pool', 'snap', 'hist'} and set(s['t']) == {'cols', 'rows'}
                and all(set(f) == {'kind', 'name', 'items'} for f in seq(s['pool']) + seq(s['snap']))
                and all(set(h) == {'call', 'opd', 'want'} and set(h['call']) == CALL_KEYS and seq(h['want'])
                        and all('kind' in w for w in seq(h['want'])) and 'kind' in h['opd'] for h in seq(s['hist'])))
    except Exception:
        return False


def gen_sessions(ctx, cfg, **kw):
    from harness.core import Machinery
    for attempt in range(3):
        snaps = ctx.generate('MC_IncSession', cfg, **kw)
        if all(well_formed(s) for s in snaps):
            return snaps
    raise Machinery('C06 sessions: %s printed malformed histories three times in a row' % cfg)


def s2c_sessions(ctx, snaps, label):
    """replay the histories TLC enumerated: after every call the pool and the table must equal the state TLC printed, the
    outcome must be one of those the law allows (plain == / membership in the printed list)"""
    from harness.core import Machinery
    for k, s in enumerate(snaps):
        hist = seq(s['hist'])
        o = run_session(s['t'], s['pool'], [h['call'] for h in hist])
        if o['pool'] != s['snap']:
            raise Machinery('C06 sessions: the rendered pool does not encode back to what TLC printed: %r / %r' % (o['pool'], s['snap']))
        ctx.evals += len(hist)
        ctx.traces += 1
        for i, (h, e) in enumerate(zip(hist, o['calls'])):
            if e['t_after'] != s['t'] or e['opd_after'] != h['opd']:
                clause, detail = 'operand_changed', {'after': e['t_after'], 'operand_after': e['opd_after']}
            elif e['pool_after'] != s['snap']:
                clause, detail = 'filter_argument_changed', {'pool_after': e['pool_after']}
            elif e['out'] not in seq(h['want']):
                clause, detail = OUTCOME_CLAUSE[h['call']['op']], {'expected_one_of': seq(h['want']), 'observed': e['out']}
            else:
                continue
            ctx.violation(clause, session_case(o, i + 1), detail)
            break
        if any(len(seq(h['call']['pos'])) + (1 if h['call']['kw'] else 0) >= 2 for h in hist):
            ctx.note((label, k))
        if k % 4999 == 1:
            ctx.sample({'s2c_session': {'t': s['t'], 'pool': s['pool'], 'hist': hist}})


def rand_session(rng):
    """a random history on a random table: 2-5 pool objects, 2-6 calls each taking 0-3 of them"""
    t, sub = rand_table(rng, 8)
    cols = t['cols']
    wild = rng.random() < 0.15            # now and then two filters disagree on a column: outside the domain, the spec says so
    def cc():
        q = rng.random()
        if q < 0.45:
            return ['val', rng.choice(sub + [["i", 99]])]
        if q < 0.8:
            return ['list', [rng.choice(sub + [["i", 99]]) for _ in range(rng.choice([0, 1, 2, 3]))]]
        return ['re', rng.choice(sorted(REGEX))]
    by_col = {c: cc() for c in cols}
    pool = []
    for _ in range(rng.choice([2, 3, 3, 4, 5])):
        r = rng.random()
        if r < 0.2:
            pool.append({'kind': 'pred', 'name': rng.choice(sorted(PREDS)), 'items': []})
        elif r < 0.27:
            pool.append({'kind': 'dict', 'name': '', 'items': []})
        else:
            cs = rng.sample(cols, rng.choice([1, 1, 2, min(3, len(cols))]))
            pool.append({'kind': 'dict', 'name': '', 'items': [[c, cc() if wild else by_col[c]] for c in cs]})
    dicts = [i + 1 for i, f in enumerate(pool) if f['kind'] == 'dict']
    calls = []
    for _ in range(rng.choice([2, 3, 4, 6])):
        op = rng.choice(['inc', 'inc', 'exc', 'exc', 'find', 'one'])
        pos = [rng.randrange(len(pool)) + 1 for _ in range(rng.choice([0, 1, 1, 2, 2, 3]))]
        seen = False
        for i, sl in enumerate(pos):      # a single callable per call
            if pool[sl - 1]['kind'] == 'pred':
                if seen and dicts: pos[i] = rng.choice(dicts)
                seen = True
        kw = rng.choice(dicts) if dicts and rng.random() < 0.3 else 0
        x = rng.choice(dicts) if dicts and op == 'one' and rng.random() < 0.4 else 0
        on = 'last' if calls and calls[-1]['op'] in ('inc', 'exc') and rng.random() < 0.3 else 't'
        if on == 'last' and rng.random() < 0.5:            # the very same arguments again, on the result
            pos, kw = list(calls[-1]['pos']), calls[-1]['kw']
        calls.append({'op': op, 'col': rng.choice(cols) if op == 'find' else '', 'pos': pos, 'kw': kw, 'x': x, 'on': on})
    return t, pool, calls


def rand_table(rng, nmax):
    n = rng.choice([0, 1, 2, 3, 5, 8, 13, 21, nmax])
    n = min(n, nmax)
    cols = ['a', 'b'] + rng.choice([[], ['c'], ['c', 'd']])
    pool = [["n", 0], ["i", 1], ["i", 2], ["i", 3], ["f", [1, 1]], ["f", [5, 2]], ["nan", 1], ["nan", 2], ["nan", 3],
            ["inf", 1], ["b", 1], ["b", 0], ["i", 0]] + [["s", s] for s in STRU]
    k = rng.choice([3, 5, len(pool)])
    sub = rng.sample(pool, k)
    return {'cols': cols, 'rows': [{c: rng.choice(sub) for c in cols} for _ in range(n)]}, sub


def rand_cond(rng, t, sub):
    r = rng.random()
    if r < 0.2:
        return {'kind': 'pred', 'name': rng.choice(sorted(PREDS))}
    def cc():
        q = rng.random()
        if q < 0.45:
            return ['val', rng.choice(sub + [["i", 99]])]
        if q < 0.8:
            return ['list', [rng.choice(sub + [["i", 99]]) for _ in range(rng.choice([0, 1, 2, 3]))]]
        return ['re', rng.choice(sorted(REGEX))]
    cols = rng.sample(t['cols'], rng.choice([0, 1, 1, 2, min(3, len(t['cols']))]))
    return {'kind': 'kw', 'items': [[c, cc()] for c in sorted(cols)]}


def c2s(ctx, ntables, nsessions):
    obs = []
    for i in range(ntables):
        t, sub = rand_table(ctx.rng, 30)
        for j in range(4):
            cond = rand_cond(ctx.rng, t, sub)
            sp = 'pred' if cond['kind'] == 'pred' else ctx.rng.choice(['kw', 'dict', 'mixed'])
            for op in ('inc', 'exc', 'one'):
                obs.append(observe(t, cond, op, sp))
            obs.append(observe(t, cond, 'find', sp, ctx.rng.choice(t['cols'])))
            excl = rand_cond(ctx.rng, t, sub)
            if excl['kind'] != 'kw' or not excl['items'] or any(c in ('exc', 'find') for c, _ in excl['items']):
                excl = {'kind': 'none'}
            if not any(c in ('exc', 'find') for c in t['cols']):
                obs.append(observe_one2(t, cond, excl, ctx.rng.choice(['', ''] + t['cols']), sp))
    # recorded random histories: one line per session, judged call by call against the ORIGINAL pool
    for i in range(nsessions):
        obs.append(run_session(*rand_session(ctx.rng)))
    ctx.evals += sum(len(o['calls']) if o['op'] == 'session' else 1 for o in obs)
    if nsessions <= 500:
        bad = ctx.validate('Trace_Inc', obs)
    else:       # a recorded history is ten times a single call: keep TLC's heap small, validate the histories in slices of their own
        n1 = len(obs) - nsessions
        bad = ctx.validate('Trace_Inc', obs[:n1])
        for k in range(n1, len(obs), 500):
            bad += [(i + k, c) for i, c in ctx.validate('Trace_Inc', obs[k:k + 500])]
    for i, clause in bad:
        o = obs[i - 1]
        if o['op'] == 'session':
            k, clause = clause.split(':')
            e = o['calls'][int(k) - 1]
            ctx.violation(clause, session_case(o, int(k)), {'observed': e['out'], 'pool_after': e['pool_after'], 'after': e['t_after']})
            continue
        ctx.violation(clause, {k: o[k] for k in ('op', 't', 'cond', 'spelling', 'excl', 'find') if k in o} | ({'col': o['col']} if 'col' in o else {}),
                      {'observed': o['out'], 'after': o['after']})
    for o in obs:
        if o['op'] == 'session':
            if any(len(e['call']['pos']) + (1 if e['call']['kw'] else 0) >= 2 for e in o['calls']):
                ctx.note(('c2s-session', repr((o['t'], o['pool'], [e['call'] for e in o['calls']]))))
        elif o['out'].get('kind') == 'table' and 0 < len(o['out']['rows']) < len(o['t']['rows']):
            ctx.note(('c2s', repr((o['t'], o['cond'], o['op']))))
    ctx.sample({'c2s_observation': obs[ntables * 2]})
    ctx.sample({'c2s_session': obs[-1]})


def sessions(ctx):
    """histories that share the caller's objects (IncSession.tla / MC_IncSession.tla)"""
    from harness.core import Machinery
    if ctx.quick:
        # one TLC run checks the clauses on every history of 2 calls AND prints them for the replay
        snaps = gen_sessions(ctx, 'MC_IncSession_quick.cfg')
        taken = {spelled(h['call'], x['pool']).replace('find_a', 'find').replace('find_b', 'find') for x in snaps for h in seq(x['hist'])}
        for need in ('inc(d,d)', 'exc(d,d)', 'find(d,d)', 'one(d,d)', 'inc(d,f)', 'exc(f,d)', 'inc(d,**d)', 'one(d,exc=d)', 'inc()', 'exc(f)', 'r.inc(d,d)', 'r.exc(d,**d)'):
            if need not in taken:
                raise Machinery('vacuous: no generated history of MC_IncSession_quick.cfg contains a call of the form %s' % need)
        s2c_sessions(ctx, snaps, 'sess2')
    else:
        ctx.mc('MC_IncSession', 'MC_IncSession_thorough.cfg')
        # the model can express what it forbids: with `filters` BEING the caller's lone dict the pool does not survive inc(q1, q2)
        ctx.mc('MC_IncSession', 'MC_IncSession_adopt.cfg', must_fail='PoolUntouched', coverage=False)
        for cfg in ('MC_IncSession_gen2t.cfg', 'MC_IncSession_gen2f.cfg', 'MC_IncSession_gen3a.cfg'):
            s2c_sessions(ctx, gen_sessions(ctx, cfg), cfg[13:-4])
        s2c_sessions(ctx, gen_sessions(ctx, 'MC_IncSession_sim.cfg', simulate=600, depth=6, seed=ctx.seed + 1, workers=1), 'sim')


def run(ctx):
    ctx.rule = ('S2C: every (table, condition) of the TLC-enumerated universe replayed through inc/exc/find_<c> in every '
                'spelling; every TLC-enumerated HISTORY of 2 calls (first call: any 0-2 (thorough 3) filters of a pool of 3 caller-owned '
                'dicts / callables in every spelling - positional, ** keywords, exc= - second call: any 0-1 filter, or the first call '
                'again / its complement on the table it returned; thorough also any x any and simulated histories of 5) on one '
                'real table with one set of filter objects, pool, table and chained operand snapshotted after every call; C2S: random tables (<= 30 rows, 2-4 columns) x random conditions, and random '
                'recorded histories (2-6 calls, 2-5 pool objects), validated by Trace_Inc. '
                'Non-trivial = the condition selects some but not all rows (distinct by table, condition, op); for histories: '
                'some call hands over >= 2 filters (distinct by table, pool, calls).')
    ctx.mc('MC_Inc', 'MC_Inc_quick.cfg' if ctx.quick else 'MC_Inc_thorough.cfg')
    s2c(ctx, ctx.generate('MC_Inc', 'MC_Inc_gen1.cfg'))
    if not ctx.quick:
        s2c(ctx, ctx.generate('MC_Inc', 'MC_Inc_gen2.cfg'))
    else:
        cases = ctx.generate('MC_Inc', 'MC_Inc_gen2.cfg')
        s2c(ctx, ctx.rng.sample(cases, 6000))
    sessions(ctx)
    c2s(ctx, 300 if ctx.quick else 5000, 300 if ctx.quick else 3000)
    ctx.exhaustive = False
    ctx.assumptions += ['regular expressions are specified extensionally on the string universe StrU of spec/Table.tla; cells are drawn from it',
                        'small-scope: MC/S2C tables have <= 2 rows over 6-10 values; C2S tables <= 30 rows',
                        'histories: tables are grids of 2-4 a-values x 2 b-values (every row tells two filters apart), pools are a menu of 5 (thorough 12) '
                        'triples of filter objects; a column named by two filters of one call carries the same condition in both (SameColumnOnce), '
                        'at most one callable per call (SingleCallable); a list of admissible values occurring in two dicts of a pool is one shared list object',
                        'named deviations for a callable AND column conditions in one call: ExcMixed (two readings of exc accepted), '
                        'MixedEmptied (KeyError accepted when the callable alone accepts no row - reported as a defect of inc)']


def replay(ctx, body):
    c = body['case']
    if c['op'] == 'session':
        o = run_session(c['t'], c['pool'], c['calls'])
    else:
        o = observe_one2(c['t'], c['cond'], c['excl'], c['find'], c['spelling']) if c['op'] == 'one2' else observe(c['t'], c['cond'], c['op'], c['spelling'], c.get('col'))
    bad = ctx.validate('Trace_Inc', [o])
    print('replay:', 'REJECTED %s' % bad if bad else 'accepted', o['calls'][-1]['out'] if c['op'] == 'session' else o['out'])
    return 1 if bad else 0
