"""C17 - bitemporal store: reading as of T sees exactly what had been published by T.

TLA+ decides (spec/Bitemporal.tla).  This file only
  * renders abstract histories (small integers) into real pandas series, stamps and read times,
  * calls the public API  Bi / bi_merge / bi_read,
  * encodes what came back as [[date, cell], ...] (cell 0 = NaN), independent of pandas dtypes,
  * compares with == (or membership in the list of admitted outcomes TLC printed) - S2C,
  * or logs the calls and lets spec/Trace_Bitemporal.tla judge them - C2S.
"""
import datetime, json, math, os, random
import multiprocessing

import warnings

import numpy as np
import pandas as pd

from harness.core import Machinery

with warnings.catch_warnings():
    warnings.simplefilter('ignore')            # import once, before any worker process is forked
    import pyg_base                            # noqa: F401

# ---- rendering: the specification's integers -> real datetimes and floats -----------------------
# The specification sees dates, stamps, read times and cells as small integers.  Any strictly
# increasing map of the times and any injective map of the cells is a faithful rendering, and the
# property must hold under every one of them.  A *rendering* picks
#   era     : where the stamps / read times lie - in the past, or AHEAD of the wall clock
#             (scheduled / embargoed publications: the statement does not care about "now");
#   palette : which floats the cells 1, 2, 3, ... stand for - whole numbers, or values that differ
#             only by tiny amounts (a revision from 1000000 to 1000001 is a revision).
# All palette values are exactly representable, so the way back (float -> cell) is exact equality.
#   clock   : how an instant is WRITTEN for the code.  The specification hands over written times
#             <<w, z>> (wall clock w in the zone with offset z, instant = w - z, spec/Bitemporal.tla
#             "realisations of instants"); a clock fixes the unit and whether the times carry a zone:
#               naive13  13 h per unit, no zone (the time of day varies from stamp to stamp);
#               daily    24 h per unit at midnight, no zone: a stamp / read time may be a datetime.date;
#               noon12   12 h per unit, no zone, alternately noon and midnight: the midnights may be
#                        datetime.dates, and a publication at noon lies strictly between two dates;
#               utc5 / west5 / east5   5 h per unit, timezone-AWARE: zone z of the specification is
#                        UTC + 5 (z + home) hours, home = 0 / -1 / +1, so the zones of one history are
#                        e.g. New York (-5), UTC, Karachi (+5), and two desks write one instant differently.
#             Naive and aware times are never mixed in one history (Python refuses to order them).
_D0 = datetime.datetime(2020, 1, 1)
NDATES = 128
ERAS = {'past': datetime.datetime(2021, 6, 1, 6), 'future': datetime.datetime(2101, 6, 1, 6)}
CLOCKS = {'naive13': (13, None), 'daily': (24, None), 'noon12': (12, None), 'utc5': (5, 0), 'west5': (5, -1), 'east5': (5, 1)}
CLOCKS_ONE_ZONE = ('naive13', 'daily', 'utc5', 'noon12', 'west5')     # for histories that use zone 0 only
CLOCKS_ZONES = ('utc5', 'west5', 'east5')                              # for histories written in several zones
PALETTES = {
    'whole': lambda k: float(k),                        # 1, 2, 3, ...
    'close': lambda k: 1.0 + (k - 1) * 2.0 ** -20,      # 1, 1.00000095.., ... (relative steps ~1e-6)
    'large': lambda k: 1000000.0 + (k - 1),             # 1000000, 1000001, ...
    'tiny':  lambda k: 2.0 ** -(29 + k),                # 2^-30, 2^-31, ... (absolute steps < 1e-9)
}
RENDERINGS = [(e, p) for p in ('whole', 'close', 'large', 'tiny') for e in ('past', 'future')]


class _Render(object):
    def __init__(self):
        self.use('past', 'whole')

    def use(self, era, palette, clock='naive13'):
        self.era, self.palette, self.clock = era, palette, clock
        self.unit, self.home = CLOCKS[clock]
        self.aware = self.home is not None
        self.s0 = ERAS[era].replace(hour={'daily': 0, 'noon12': 12}.get(clock, 6))
        self.val = {k: PALETTES[palette](k) for k in range(1, 33)}
        self.cell = {v: k for k, v in self.val.items()}
        assert len(self.cell) == len(self.val)
        self.whole = all(v == int(v) for v in self.val.values())


RENDER = _Render()        # per process; set at the start of every replayed subtree / recorded history


def date_of(d):
    """observation date number d (irregular gaps, like business data)"""
    return _D0 + datetime.timedelta(days=3 * d + (d % 2))


def time_of(t):
    """the instant number t as a naive datetime (UTC when the clock is aware); `unit` hours apart, so
    the time of day varies unless the clock is `daily`"""
    return RENDER.s0 + datetime.timedelta(hours=RENDER.unit * t)


# ---- realisations of a written time <<w, z>> ------------------------------------------------------
_NAMED = {-10: 'Pacific/Honolulu', -5: 'America/Bogota', 0: 'UTC', 5: 'Asia/Karachi', 10: 'Australia/Brisbane'}   # no DST


def _tz_fixed(h):
    return datetime.timezone(datetime.timedelta(hours=h))


def _tz_etc(h):
    import zoneinfo
    return zoneinfo.ZoneInfo('Etc/GMT%+d' % -h if h else 'UTC')          # POSIX sign: Etc/GMT+5 is UTC-5


def _tz_named(h):
    import zoneinfo
    return zoneinfo.ZoneInfo(_NAMED[h])


def _tz_pytz(h):
    import pytz
    return pytz.FixedOffset(60 * h)


def _tz_dateutil(h):
    import dateutil.tz
    return dateutil.tz.tzoffset(None, 3600 * h)


ZKINDS = {'fixed': _tz_fixed}
for _k, _f in (('etc', _tz_etc), ('named', _tz_named), ('pytz', _tz_pytz), ('dateutil', _tz_dateutil)):
    try:
        for _h in _NAMED:
            assert datetime.datetime(2021, 6, 1, tzinfo=_f(_h)).utcoffset() == datetime.timedelta(hours=_h)
            assert datetime.datetime(2101, 6, 1, tzinfo=_f(_h)).utcoffset() == datetime.timedelta(hours=_h)
        ZKINDS[_k] = _f
    except Exception:                            # that zone library / database is not installed here
        pass
ZKIND_LIST = sorted(ZKINDS)
STAMP_TYPES = {'naive13': ('dt', 'ts', 'np', 'iso', 'np_ns'), 'daily': ('dt', 'date', 'ts', 'np', 'date', 'iso'),
               'noon12': ('date', 'dt', 'date', 'ts', 'np'),
               'aware': ('dt', 'ts', 'ts_tz')}
READ_TYPES = {'naive13': ('dt', 'ts', 'np', 'np_ns'), 'daily': ('dt', 'date', 'ts', 'np', 'np_ns'),
              'noon12': ('date', 'dt', 'date', 'ts', 'np'), 'aware': ('dt', 'ts', 'ts_tz')}


def types_of(table):
    return table['aware' if RENDER.aware else RENDER.clock]


def spell_of(w, typ):
    """the type a written time is really handed over in: a datetime.date can only say a midnight"""
    if typ == 'date' and time_of(w).time() != datetime.time(0):
        return 'dt'
    return typ


def when(w, z=0, typ='dt', zkind='fixed'):
    """the written time <<w, z>> of the specification as the Python object handed to the code"""
    if not RENDER.aware:
        if z != 0:
            raise Machinery('a zone on a naive clock')
        t = time_of(w)
        if typ == 'date':
            if t.time() != datetime.time(0):
                raise Machinery('a datetime.date for a time that is not a midnight')
            return t.date()
        return {'dt': lambda: t, 'ts': lambda: pd.Timestamp(t), 'np': lambda: np.datetime64(t),
                'np_ns': lambda: np.datetime64(t, 'ns'), 'iso': lambda: t.isoformat(sep=' ')}[typ]()
    h = RENDER.unit * (z + RENDER.home)                       # offset from UTC, hours
    wall = RENDER.s0 + datetime.timedelta(hours=RENDER.unit * (w + RENDER.home))
    tz = ZKINDS[zkind](h)
    if typ == 'ts_tz':
        return pd.Timestamp(wall, tz=tz)
    t = tz.localize(wall) if hasattr(tz, 'localize') else wall.replace(tzinfo=tz)
    return pd.Timestamp(t) if typ == 'ts' else t


def instant_of(u):
    """a stored stamp -> the specification's instant number (exact, or a Machinery error)"""
    u = pd.Timestamp(u)
    if u.tzinfo is not None:
        u = u.tz_convert('UTC').tz_localize(None)
    q, r = divmod(u - pd.Timestamp(RENDER.s0), pd.Timedelta(hours=RENDER.unit))
    if r != pd.Timedelta(0):
        raise ValueError('a stamp in the store that nobody published: %s' % u)     # the library's doing: reported by the core
    return int(q)


DATE_IX = {pd.Timestamp(date_of(d)): d for d in range(NDATES)}


def cell_of(x):
    return float('nan') if x == 0 else RENDER.val[x]


def enc_cell(x):
    """real cell -> the specification's integer: NaN = 0, a value of the palette = its number;
    anything else (never produced from our inputs by a correct store) = -1"""
    x = float(x)
    if math.isnan(x):
        return 0
    return RENDER.cell.get(x, -1)


def version(pairs, dtype='float'):
    vals = [cell_of(c) for _, c in pairs]
    idx = pd.DatetimeIndex([date_of(d) for d, _ in pairs])
    if dtype == 'int' and RENDER.whole and all(c != 0 for _, c in pairs):
        return pd.Series([int(cell_of(c)) for _, c in pairs], idx)
    return pd.Series(vals, idx, dtype=float)


def asof_of(T, spelling, zkind='fixed'):
    """T = <<w, z>>"""
    if spelling == 'none':
        return None
    return when(T[0], T[1], spelling, zkind)


def _ev_stamp(e, k=0):
    """the stamp of a history event as the Python object: type and zone library rotate with the position"""
    ty = types_of(STAMP_TYPES)
    return when(e['w'], e['z'], spell_of(e['w'], e.get('stype') or ty[(k + e['s']) % len(ty)]),
                e.get('zkind') or ZKIND_LIST[(k + e['w']) % len(ZKIND_LIST)])


# ---- the public calls -----------------------------------------------------------------------------
def merge(store, stamp, pairs, spelling='bi', dtype='float'):
    """stamp: the Python object (see `when`)"""
    from pyg_base import Bi, bi_merge
    v = version(pairs, dtype)
    if spelling == 'asof':                       # bi_merge stamps the plain series itself
        return bi_merge(store, v, asof=stamp)
    if spelling == 'start' and store is None:    # the first version *is* the store
        return Bi(v, stamp)
    return bi_merge(store, Bi(v, stamp))


def merge_batch(store, items):
    """one call merging several versions, in list order"""
    from pyg_base import Bi, bi_merge
    return bi_merge(store, [Bi(version(p), stamp) for stamp, p in items])


def read(store, T, what, spelling='dt', zkind='fixed'):
    """bi_read at the written time T = <<w, z>>, encoded: {'ok': 1, 'res': [[date, cell], ...] sorted by date}
    or {'ok': 0, 'cls': ...}"""
    from pyg_base import bi_read
    try:
        r = bi_read(store, asof_of(T, spelling, zkind), what)
    except Exception as e:
        return {'ok': 0, 'res': [], 'cls': type(e).__name__}
    try:
        if isinstance(r, pd.DataFrame) and r.shape[1] == 1:
            r = r.iloc[:, 0]
        if not isinstance(r, pd.Series):
            return {'ok': 0, 'res': [], 'cls': 'returned ' + type(r).__name__}
        res = sorted([DATE_IX[pd.Timestamp(i)], enc_cell(x)] for i, x in zip(r.index, r.values))
        return {'ok': 1, 'res': res}
    except Exception as e:
        return {'ok': 0, 'res': [], 'cls': 'unreadable result: ' + type(e).__name__}


def stored_rows(store, s):
    """the rows the real store holds at the instant s (in whatever zone their stamp is written), as
    [[date, cell], ...] (to choose a re-merge from)"""
    from pyg_base._bitemporal import _updated, _series
    return sorted([DATE_IX[pd.Timestamp(i)], enc_cell(x)]
                  for i, x, u in zip(store.index, store[_series].values, list(store[_updated])) if instant_of(u) == s)


def stored_stamps(store):
    from pyg_base._bitemporal import _updated
    return sorted({instant_of(u) for u in list(store[_updated])})


def replay(store, t):
    """bi_merge(store, older): older = the rows of the real store stamped at instants <= t (a copy of the
    store as it stood at t), handed back in one call"""
    from pyg_base import bi_merge
    from pyg_base._bitemporal import _updated
    older = store[[instant_of(u) <= t for u in list(store[_updated])]]
    return bi_merge(store, older)


def has_ties(hist):
    """some date is published twice under one stamp (input feature, used to match known findings)"""
    seen = set()
    for e in hist:
        if e['op'] == 'merge':
            for d, _ in e['v']:
                if (d, e['s']) in seen:
                    return True
                seen.add((d, e['s']))
    return False


# ---- S2C: TLC's histories, replayed --------------------------------------------------------------
_TASKS = []           # filled before the pool forks


def _apply(store, e, k=0):
    if e['op'] == 'replay':
        if store is not None and e['s'] in stored_stamps(store):
            return replay(store, e['s']), True
        return store, False                      # the real store holds nothing stamped then
    if e['op'] == 'again':
        if stored_rows(store, e['s']) and all(p in stored_rows(store, e['s']) for p in e['v']):
            return merge(store, _ev_stamp(e, k), e['v']), True
        return store, False                      # not in the *real* store: outside the statement's domain
    return merge(store, _ev_stamp(e, k), e['v']), True


def _check_reads(store, reads, spell, may_refuse=(), k=0):
    """compare every read the specification printed for this state; returns the mismatches.
    spell: the Python types T is handed over in, rotating over the reads (with the zone library)"""
    bad = []
    for j, r in enumerate(reads):
        for what in (-1, 0):
            sp = spell_of(r['w'], spell[(j + k + (what == 0)) % len(spell)])
            got = read(store, (r['w'], r['z']), what, sp, ZKIND_LIST[(j + k) % len(ZKIND_LIST)])
            ok = ((got['res'] == r['latest'] if what == -1 else got['res'] in r['first']) if got['ok'] == 1
                  else sp in may_refuse)         # an exception only where the specification admits one (DateRefused)
            if not ok:
                bad.append((r, sp, what, r['latest'] if what == -1 else r['first'], got))
    return bad


def _linear(hist, spells):
    store = None
    for k, e in enumerate(hist):
        if e['op'] == 'merge':
            store = merge(store, _ev_stamp(e, k), e['v'], spells[k % len(spells)])
        else:
            store, _ = _apply(store, e, k)
    return store


def _replay_subtree(ix):
    """depth-first replay of one subtree of TLC's history tree; every node = one more public call on
    the store its parent reached, followed by all reads"""
    root_hist, nodes, zones, may_refuse = _TASKS[ix]
    era, palette = RENDERINGS[ix % len(RENDERINGS)]
    clocks = CLOCKS_ZONES if zones else CLOCKS_ONE_ZONE
    clock = clocks[ix % len(clocks)]
    RENDER.use(era, palette, clock)
    out = {'evals': 0, 'nodes': 0, 'viol': [], 'notes': [], 'skipped': 0, 'shared_only': 0, 'sample': None}
    spells_m = ('bi', 'asof', 'start')
    spells_r = types_of(READ_TYPES)

    def visit(key, store):
        hist, reads, kids = nodes[key]
        e = hist[-1]
        k = len(hist) - 1
        if e['op'] == 'merge':
            st = merge(store, _ev_stamp(e, k), e['v'], spells_m[(k + len(e['v'])) % 3])
            ok = True
        else:
            st, ok = _apply(store, e, k)
        if not ok:
            out['skipped'] += 1
            return
        out['nodes'] += 1
        bad = _check_reads(st, reads, spells_r, may_refuse, k + e['s'])
        out['evals'] += 1 + 2 * len(reads)
        if bad:
            # the tree shares the parents' store objects; a user holds one store: re-run the history alone
            st2 = _linear(hist, ('bi',))
            bad2 = _check_reads(st2, reads, spells_r, may_refuse, k + e['s'])
            if not bad2:
                out['shared_only'] += 1
            for r, sp, what, want, got in bad2[:2]:
                out['viol'].append(('read_latest' if what == -1 else 'read_first',
                                    {'engine': 's2c', 'op': 'read', 'what': what, 'T': r['T'], 'w': r['w'], 'z': r['z'],
                                     'spelling': sp, 'after': e['op'], 'era': era, 'palette': palette, 'clock': clock,
                                     'zones': zones, 'ties': has_ties(hist), 'rows_gt16': False, 'hist': hist},
                                    {'expected': want, 'observed': got}))
        distinct = {json.dumps(r['latest']) for r in reads}
        if len(distinct) > 2:                     # more than "nothing yet" and one constant picture
            out['notes'].append(key)
        if out['sample'] is None and len(hist) >= 2 and len(distinct) > 2:
            out['sample'] = {'s2c_history': hist, 'expected_reads': reads[-2:],
                             'clock': clock,
                             'observed': [read(st, (reads[-2]['w'], reads[-2]['z']), -1, 'dt'),
                                          read(st, (reads[-1]['w'], reads[-1]['z']), 0, 'dt')]}
        for c in kids:
            visit(c, st)

    store = _linear(root_hist[:-1], ('bi',)) if len(root_hist) > 1 else None
    visit(json.dumps(root_hist), store)
    return out


def s2c(ctx, emitted, label):
    """emitted: [{'hist': [...], 'reads': [...]}] - one per state TLC expanded"""
    global _TASKS
    nodes = {}
    zones = len({r['z'] for x in emitted[:50] for r in x['reads']}) > 1     # is the universe written in several zones?
    may_refuse = tuple(emitted[0]['may_refuse'])
    for x in emitted:
        nodes[json.dumps(x['hist'])] = [x['hist'], x['reads'], []]
    roots = []
    for key, (hist, _, _) in list(nodes.items()):
        if not hist:
            continue
        pkey = json.dumps(hist[:-1])
        if len(hist) > 1 and pkey in nodes:
            nodes[pkey][2].append(key)
        elif len(hist) >= 1:
            roots.append(key)                    # depth-1 node (or an orphan of a simulated trace)
    for n in nodes.values():
        n[2].sort()
    # one task per root subtree
    def collect(key, acc):
        acc[key] = nodes[key]
        for c in nodes[key][2]:
            collect(c, acc)
        return acc
    _TASKS = [(nodes[r][0], collect(r, {}), zones, may_refuse) for r in sorted(roots)]
    order = sorted(range(len(_TASKS)), key=lambda i: -len(_TASKS[i][1]))
    results = _pmap(_replay_subtree, order)
    skipped = shared = 0
    for res in results:
        ctx.evals += res['evals']
        ctx.traces += res['nodes']
        skipped += res['skipped']; shared += res['shared_only']
        for clause, case, detail in res['viol']:
            ctx.violation(clause, case, detail)
        for k in res['notes']:
            ctx.note(('s2c', k))
        if res['sample'] is not None:
            ctx.sample(res['sample'], limit=2)
    ctx.extra.setdefault('s2c', {})[label] = {'states_replayed': sum(r['nodes'] for r in results),
                                              'again_not_in_real_store_skipped': skipped,
                                              'mismatch_only_when_stores_shared': shared}
    _TASKS = []


def _pmap(f, items):
    n = int(os.environ.get('VERIF_PY_WORKERS', min(12, os.cpu_count() or 1)))
    if n <= 1 or len(items) <= 1:
        return [f(i) for i in items]
    with multiprocessing.get_context('fork').Pool(n) as pool:
        return pool.map(f, items, chunksize=1)


# ---- C2S: random, larger histories, recorded and judged by Trace_Bitemporal ----------------------
_C2S = []


def _history(args):
    """build and run one random publication history against the real store; returns the event log"""
    seed, hid, big = args
    rng = random.Random(seed)
    era, palette = RENDERINGS[(hid // 2) % len(RENDERINGS)]      # hid % 2 is the tie / notie mode
    # how the instants are written: 3 of 7 histories without a zone (one of them on whole days, one on
    # noons and midnights, where a datetime.date will do for a midnight), 4 of 7 timezone-aware - every stamp and read time in a zone of its own
    # choosing ('zones': UTC-10 .. UTC+10, so wall clocks and instants order differently), in UTC
    # only, or all in one zone away from UTC
    wr = ('naive13', 'zones', 'daily', 'utc', 'zones', 'noon12', 'onezone')[hid % 7]
    RENDER.use(era, palette, wr if wr in CLOCKS else 'utc5')
    zone_pool = {'zones': [-2, -1, 0, 1, 2], 'utc': [0], 'onezone': [rng.choice([-2, -1, 1, 2])]}.get(wr, [0])
    stypes, rtypes = types_of(STAMP_TYPES), types_of(READ_TYPES)

    def written(t):
        """the instant t in a zone, a Python type and a zone library of this history's choosing"""
        z = rng.choice(zone_pool)
        return {'w': t + z, 'z': z}, rng.choice(ZKIND_LIST)
    nd = rng.randint(20, 60)
    dates = sorted(rng.sample(range(NDATES), nd))
    mode = ('tie', 'notie')[hid % 2]                  # may publications sharing a stamp overlap in dates?
    nmerge = rng.randint(4, 12 if big else 7)
    vals = [1, 2, 3] if rng.random() < 0.7 else [1, 2, 3, 4, 5, 6, 7]
    known = int(nd * rng.choice([0.4, 0.6, 0.9]))     # dates observed so far; later versions add the rest
    last = {}            # date -> cells published so far (for repeating / reverting)
    at_stamp = {}        # stamp -> dates already published under it
    store = None
    events = []
    s = 2
    feats = {'mode': mode, 'era': era, 'palette': palette, 'written': wr, 'dates': nd, 'rows_gt16': False, 'batch': False, 'again': 0, 'replay': 0}
    pending = []

    def pick_cell(d):
        h = last.get(d, [])
        kind = rng.choices(['repeat', 'revert', 'nan', 'new'], [25, 20, 15, 40])[0]
        if kind == 'repeat' and h:
            return h[-1]                               # the value published last, again
        if kind == 'revert' and len(h) > 1:
            return rng.choice(h[:-1])                  # back to an earlier one
        if kind == 'nan':
            return 0
        return rng.choice(vals)

    def reads_now():
        stamps = sorted({e['s'] for e in events if e['op'] == 'merge'})
        cand = {stamps[0] - 1, stamps[-1] + 1, stamps[-1] + 5, stamps[-1], stamps[-1] - 1}
        cand |= set(stamps) | {t + 1 for t in stamps[:-1]}
        must = [stamps[-1], stamps[-1] - 1]
        rest = sorted(cand - set(must))
        ts = must + rng.sample(rest, min(len(rest), 3 if not big else 4))
        for T in ts:
            for what in ((-1, 0) if rng.random() < 0.5 else (-1,)):
                wz, zk = written(T)
                sp = spell_of(wz['w'], rng.choice(('dt',) + rtypes))
                if T > stamps[-1] and rng.random() < 0.3:
                    sp, wz = 'none', {'w': T, 'z': 0}
                o = read(store, (wz['w'], wz['z']), what, sp, zk)
                events.append({'op': 'read', 'T': T, **wz, 'what': what, 'ok': o['ok'], 'res': o['res'],
                               'spelling': sp, 'zkind': zk, **({'cls': o['cls']} if 'cls' in o else {})})

    for m in range(nmerge):
        if m and rng.random() < 0.6:
            s += rng.choice([2, 2, 4])                 # even stamps: odd read times fall strictly between
        known = min(nd, known + rng.choice([0, 0, 1, 3, 8]))
        pool = dates[:known]
        if mode == 'notie':
            pool = [d for d in pool if d not in at_stamp.get(s, set())]
            if not pool:
                s += 2
                pool = dates[:known]
        shape = rng.random()
        if shape < 0.45:
            ds = pool                                  # a full restatement: > 16 rows under one stamp
        elif shape < 0.8:
            ds = [d for d in pool if rng.random() < rng.choice([0.3, 0.6, 0.85])] or pool[:1]
        else:
            ds = pool[-rng.randint(1, max(1, len(pool) // 3)):]   # only the recent dates
        pairs = [[d, pick_cell(d)] for d in ds]
        for d, c in pairs:
            last.setdefault(d, []).append(c)
        at_stamp.setdefault(s, set()).update(ds)
        wz, zk = written(s)
        events.append({'op': 'merge', 's': s, **wz, 'v': pairs, 'stype': spell_of(wz['w'], rng.choice(stypes)), 'zkind': zk})
        pending.append((_ev_stamp(events[-1]), pairs))
        if len(pending) < 3 and m + 1 < nmerge and rng.random() < 0.15:
            continue                                   # held back: merged together with the next one, in one call
        n_old = 0 if store is None else len(store)
        if n_old + sum(len(p) for _, p in pending) > 16:
            feats['rows_gt16'] = True
        if len(pending) > 1:
            store = merge_batch(store, pending); feats['batch'] = True
            for e in events[-len(pending):]:
                e['spelling'] = 'batch'
        else:
            sp = rng.choice(['bi', 'bi', 'asof', 'start'])
            dt_ = rng.choice(['float', 'float', 'int'])
            store = merge(store, pending[0][0], pairs, sp, dt_)
            events[-1]['spelling'] = sp
        pending = []
        reads_now()
        if rng.random() < 0.3:                         # merge again something that is in the store
            s2 = rng.choice(stored_stamps(store))
            rows = stored_rows(store, s2)
            sub = [r for r in rows if rng.random() < rng.choice([0.2, 0.7, 1.0])] or rows[:1]
            wz, zk = written(s2)                      # the re-merge may write the instant in another zone
            events.append({'op': 'again', 's': s2, **wz, 'v': sub, 'rows': rows, 'stype': spell_of(wz['w'], rng.choice(stypes)), 'zkind': zk})
            store = merge(store, _ev_stamp(events[-1]), sub)
            feats['again'] += 1
            reads_now()
        if rng.random() < 0.2:                         # merge an earlier snapshot of the store into it, in one call
            have = stored_stamps(store)
            t = rng.choice(have)
            store = replay(store, t)
            events.append({'op': 'replay', 's': t, 'w': t, 'z': 0, 'stamps': have})
            feats['replay'] += 1
            reads_now()
    feats['ties'] = has_ties(events)
    return {'id': hid, 'events': events, 'feats': feats}


def c2s(ctx, n, big):
    seeds = [(ctx.rng.randrange(2 ** 31), i + 1, big) for i in range(n)]
    hs = _pmap(_history, seeds)
    obs = [{'id': h['id'], 'events': h['events']} for h in hs]
    if os.environ.get('VERIF_C17_CORRUPT'):          # binding self-check: falsify one recorded read
        e = [e for e in obs[0]['events'] if e['op'] == 'read' and e['res']][-1]
        e['res'][0][1] = e['res'][0][1] % 3 + 1
    ctx.evals += sum(len(h['events']) for h in hs)
    bad = []
    CH = 400                                         # histories per TLC start (keeps the log in TLC's heap small)
    for a in range(0, len(obs), CH):
        part = obs[a:a + CH]
        want = sum(len(o['events']) + 1 for o in part)
        bad += [(code + 1000 * a, clause) for code, clause in ctx.validate('Trace_Bitemporal', part, expect_states=want)]
    rejected = set()
    found = []
    for code, clause in bad:
        hi, k = code // 1000, code % 1000
        h = hs[hi - 1]; e = h['events'][k - 1]
        if clause in ('spec_mechanism_vs_law', 'again_not_in_store'):
            raise Machinery('Trace_Bitemporal: %s at history %d event %d' % (clause, hi, k))
        if (hi, clause) in rejected:
            continue                                 # one report per history and clause
        rejected.add((hi, clause))
        prior = [x for x in h['events'][:k - 1] if x['op'] != 'read']
        found.append((clause, {'engine': 'c2s', 'op': 'read', 'what': e['what'], 'T': e['T'], 'w': e['w'], 'z': e['z'],
                               'spelling': e['spelling'], 'written': h['feats']['written'],
                               'after': prior[-1]['op'], 'ties': h['feats']['ties'], 'rows_gt16': h['feats']['rows_gt16'],
                               'mode': h['feats']['mode'], 'era': h['feats']['era'], 'palette': h['feats']['palette'], 'history': hi, 'event': k, 'hist': prior},
                      {'observed': e}))
    # for the replay files: let the specification say what it expected for the first few
    if found:
        path = os.path.join(ctx.tmp, 'explain.ndjson')
        with open(path, 'w') as f:
            for clause, case, detail in found[:12]:
                f.write(json.dumps({'hist': case['hist'], 'w': case['w'], 'z': case['z']}, separators=(',', ':')) + '\n')
        for x in ctx.generate('Trace_Bitemporal_Explain', env={'OBS_FILE': path}):
            clause, case, detail = found[x['line'] - 1]
            detail['expected'] = ({'latest': x['latest']} if case['what'] == -1 else
                                  {'first_published': x['first_published'], 'first_settled': x['first_settled']})
            got = dict(map(tuple, detail['observed']['res']))
            detail['differs_at'] = [[d, c, got.get(d)] for d, c in (x['latest'] if case['what'] == -1 else x['first_settled'])
                                    if got.get(d) != c][:10]          # [date, expected, observed] - presentation only
    for clause, case, detail in found:
        ctx.violation(clause, case, detail)
    # ctx.validate counted one trace per line not rejected; count histories instead
    ctx.traces += len({b for b, _ in bad}) - len({b // 1000 for b, _ in bad})
    for h in hs:
        pics = {json.dumps(e['res']) for e in h['events'] if e['op'] == 'read' and e['what'] == -1}
        if len(pics) > 2:
            ctx.note(('c2s', h['id']))
    ctx.extra['c2s'] = {'histories': n, 'events': sum(len(h['events']) for h in hs),
                        'reads': sum(1 for h in hs for e in h['events'] if e['op'] == 'read'),
                        'with_ties': sum(1 for h in hs if h['feats']['ties']),
                        'written': {w: sum(1 for h in hs if h['feats']['written'] == w) for w in sorted({h['feats']['written'] for h in hs})},
                        'reads_that_raised': sum(1 for h in hs for e in h['events'] if e['op'] == 'read' and e['ok'] == 0),
                        'with_more_than_16_rows': sum(1 for h in hs if h['feats']['rows_gt16']),
                        'with_batch_merge': sum(1 for h in hs if h['feats']['batch']),
                        're_merges': sum(h['feats']['again'] for h in hs),
                        'snapshot_replays': sum(h['feats']['replay'] for h in hs)}
    for h in [hs[len(hs) // 2]] + [x for x in hs if x['feats']['written'] == 'zones'][:1]:
        ctx.sample({'c2s_history': {'id': h['id'], 'feats': h['feats'],
                                    'events': [{k: (v if k not in ('v', 'res', 'rows') else v[:4] + (['...'] if len(v) > 4 else []))
                                                for k, v in e.items()} for e in h['events'][:5]]}})


class _one_worker(object):
    """TLC -simulate is reproducible for a seed only with one worker"""
    def __enter__(self):
        self.old = os.environ.pop('VERIF_TLC_WORKERS', None)

    def __exit__(self, *a):
        if self.old is not None:
            os.environ['VERIF_TLC_WORKERS'] = self.old


def run(ctx):
    ctx.rule = ('S2C: every state of TLC\'s history tree (exhaustive small universes + simulated deeper ones) = one more '
                'bi_merge on the real store, then bi_read at every read time x what in {-1, 0}, compared with the outcome the '
                'law prints; the stamps and read times are WRITTEN TIMES <<wall, zone>> (instant = wall - zone, decided in TLA+): '
                'gen5/6/7 enumerate every stamp and every T in zones east and west of each other, mixed in one history; gen8 adds '
                'a replay of an earlier snapshot of the store (bi_merge(store, older copy)) anywhere in a history, gen2 the single '
                're-merge of an older version followed by a reverting publication. The driver realises a written time as '
                'datetime / Timestamp / numpy datetime64 (us, ns) / ISO string / datetime.date (midnights), naive or aware through '
                'five zone libraries. C2S: random histories (20-60 dates, 4-12 publications, shared stamps, > 16 rows, re-merges, '
                'snapshot replays; 4 of 7 timezone-aware with a zone per stamp / read) recorded and '
                'judged by Trace_Bitemporal from the written times. Non-trivial = the history shows more than two different as-of pictures over '
                'the read times (so revisions are visible and look-ahead would be detectable); distinct by history.')
    q = ctx.quick
    # --- MC -----------------------------------------------------------------------------------
    if q:
        ctx.mc('MC_Bitemporal', 'MC_Bitemporal_quick.cfg')
        ctx.mc('MC_Bitemporal', 'MC_Bitemporal_quick1.cfg')
        ctx.mc('MC_Bitemporal', 'MC_Bitemporal_zones.cfg')       # stamps / read times written in three zones, mixed
    else:
        ctx.mc('MC_Bitemporal', 'MC_Bitemporal_thorough.cfg')
        ctx.mc('MC_Bitemporal', 'MC_Bitemporal_thorough1.cfg')
        ctx.mc('MC_Bitemporal', 'MC_Bitemporal_thorough3.cfg')
        ctx.mc('MC_Bitemporal', 'MC_Bitemporal_tzones.cfg')
        ctx.mc('MC_Bitemporal', 'MC_Bitemporal_zones2.cfg')      # 2 dates x 2 zones x 2 publications
    # the clause "of several sharing a stamp the one merged last" needs a stable sort: the same
    # mechanism with an unstable one must break Refines (shows the invariant is not vacuous)
    ctx.mc('MC_Bitemporal', 'MC_Bitemporal_unstable.cfg', must_fail='MCRefines', coverage=False)
    # "stamp <= T" is about instants: the same mechanism dropping the zone of a written time without
    # converting (two desks in two zones) must break Refines too
    ctx.mc('MC_Bitemporal', 'MC_Bitemporal_nozone.cfg', must_fail='MCRefines', coverage=False)
    # --- S2C ----------------------------------------------------------------------------------
    s2c(ctx, ctx.generate('MC_Bitemporal', 'MC_Bitemporal_gen1.cfg'), 'gen1')
    s2c(ctx, ctx.generate('MC_Bitemporal', 'MC_Bitemporal_gen2.cfg'), 'gen2')
    # every history of <= 2 publications + 1 re-merge with every stamp and read time in a zone east or west
    s2c(ctx, ctx.generate('MC_Bitemporal', 'MC_Bitemporal_gen5.cfg'), 'gen5-zones')
    # every history of <= 3 publications with one replay of an earlier snapshot of the store anywhere in it
    s2c(ctx, ctx.generate('MC_Bitemporal', 'MC_Bitemporal_gen8.cfg'), 'gen8-replay')
    if not q:
        s2c(ctx, ctx.generate('MC_Bitemporal', 'MC_Bitemporal_gen4.cfg'), 'gen4')
        s2c(ctx, ctx.generate('MC_Bitemporal', 'MC_Bitemporal_gen6.cfg'), 'gen6-zones')
    with _one_worker():
        sim = ctx.generate('MC_Bitemporal', 'MC_Bitemporal_gen3.cfg', simulate=150 if q else 2000, depth=8,
                           seed=ctx.seed + 17, workers=1)
    s2c(ctx, sim, 'gen3-simulated')
    if not q:
        with _one_worker():
            sim = ctx.generate('MC_Bitemporal', 'MC_Bitemporal_gen7.cfg', simulate=800, depth=8, seed=ctx.seed + 71, workers=1)
        s2c(ctx, sim, 'gen7-zones-simulated')
    # --- C2S ----------------------------------------------------------------------------------
    c2s(ctx, 160 if q else 1500, not q)
    ctx.exhaustive = False
    ctx.assumptions += [
        'small scope: MC over <= 2 dates x 4 stamps x {1, 2, NaN} x <= 3 (thorough 4) publications, 1 date deeper, 3 dates shallower, 1 date x 3 stamps x 2 zones x 3 (thorough 4) publications, thorough also 2 dates x 3 stamps x 2 zones x 2; '
        'S2C exhaustive for the gen1/gen2 universes, sampled (TLC -simulate) for 3 dates x 4 stamps x <= 4 publications',
        'dates and instants are integers in the specification; the driver maps them to datetimes by strictly increasing (for written '
        'times: affine) maps - units of 13 h, 24 h (midnights), 12 h (noon / midnight) without a zone, 5 h with zones UTC-10 .. UTC+10',
        'realisations of instants: a stamp / read time is handed over as <<wall, zone>>; the law sees wall - zone only. Zones per history: '
        'none (naive), UTC only, one zone away from UTC, or a different zone per stamp and per read; zone libraries: datetime.timezone, '
        'zoneinfo Etc/GMT and city zones without DST, pytz.FixedOffset, dateutil.tzoffset (%s here). Naive and aware times are never mixed '
        'in one history (Python refuses to order them: outside the domain); DST transitions are not modelled' % ', '.join(ZKIND_LIST),
        'named deviation DateRefused: a read time given as datetime.date (not an instant) may be refused with an exception; when bi_read '
        'answers, it must be the law at that midnight. Today every such read raises TypeError (pandas will not compare datetime64 with a date)',
        'a replayed snapshot is cut out of the real store by the driver (rows stamped <= t); "already in the store" is checked against the real store',
        'cells are numbers in the specification (0 = NaN); the driver renders them by injective palettes of exactly representable floats '
        '(whole numbers; 1 + k 2^-20; 1000000 + k; 2^-(30 + k)) and the stamps either in the past or ahead of the wall clock (year 2101)',
        'what = 0 with several publications under the first stamp of a date: both readings of "first" are admitted (named deviation FirstPerStamp)',
        'single value column (a series); frames with several columns, bi_asof, existing_data and relative stamps (Bi(df, 0), "now") are outside the statement',
    ]
