"""C20 - perdictable evaluates a function once per row of the keyed join of its inputs.

TLA+ decides (spec/Perdictable.tla).  This driver only renders an abstract configuration (inputs as scalars or
keyed maps, defaults, previously computed values, expiries) into real dictables, calls the public API
    perdictable(F, on=..., renames=..., defaults=...)(**inputs, data=..., expiry=...)    and
    join(inputs, on, renames, defaults)
with a COUNTING function F (it records every argument tuple it receives; pyg-base is not instrumented),
projects what came back and compares it with == against what TLC printed (S2C) or hands it to the trace
specification (C2S).

Spelling of keys (see Perdictable.tla): every row of a table of the abstract configuration carries `sp`, the number of
the object by which that table spells its key.  The driver renders (key column, key number, sp) by ONE Python object
per call - equal numbers = the very same object in every table, different numbers = different objects, of types drawn
from what pyg-base's own order ranks equal (int / float / numpy scalars; any two NaN; date / datetime / datetime64 of one
day) - and reads the keys of a result back as key numbers whatever their spelling.
"""
import datetime, json, logging, os, random
from harness.enc import tag, untag
from harness.core import Machinery

NAMES = ['a', 'b', 'c', 'd']
BASE = datetime.datetime(2020, 1, 1)
# key columns: name -> how an abstract key number is rendered (every rendering is strictly monotone)
COLKIND = {'k': 'int', 'j': 'str', 'when': 'date',
           # key columns whose keys have several spellings: numbers (int / float / numpy scalars); the same with the GREATEST
           # key number of the call rendered as NaN (the library ranks NaN above every number); with the LEAST one rendered as
           # None (ranked below every number); both; days (datetime / date / numpy.datetime64)
           'num': 'num', 'q': 'numnan', 'z': 'numnan', 'opt': 'optnum', 'wild': 'wild', 'day': 'day'}
ON_MENU = {1: [['k'], ['j'], ['when']],
           2: [['k', 'j'], ['j', 'k'], ['when', 'k'], ['k', 'when'], ['when', 'j'], ['j', 'when']]}   # abstract position p <-> on[p]
SP_MENU = {1: [['q'], ['num'], ['wild'], ['opt'], ['q'], ['day']],
           2: [['q', 'num'], ['num', 'q'], ['wild', 'j'], ['opt', 'day'], ['z', 'q'], ['day', 'wild'], ['k', 'q'], ['q', 'when']]}
MENUS = [ON_MENU, SP_MENU]
FORMS = ['own', 'data', 'single', 'extra', 'renamed']
PAST_ORD, FUTURE_ORD = 730120, 1094998      # 2000-01-01, 2999-01-01 as in MC_Perdictable.tla
# the optional parameters of perdictable, as OptSeq of PerdictableSess.tla lists them (the last one = the defaults), and how
# each abstract value is rendered
OPTS = [{'oii': 'false', 'inc': False, 'ifnone': 'false'}, {'oii': 'name', 'inc': False, 'ifnone': 'true'},
        {'oii': 'names', 'inc': True, 'ifnone': 'false'}, {'oii': 'col', 'inc': False, 'ifnone': 'col'},
        {'oii': 'true', 'inc': True, 'ifnone': 'true'}, {'oii': 'false', 'inc': True, 'ifnone': 'col'},
        {'oii': 'true', 'inc': False, 'ifnone': 'false'}]
DEFAULT_OPTS = OPTS[-1]
OII = {'true': lambda: True, 'false': lambda: False, 'name': lambda: 'something_else', 'names': lambda: ['something_else', 'other'],
       'col': lambda: ['data']}
IFNONE = {'false': lambda: False, 'true': lambda: True, 'col': lambda: ['data']}


def opt_kwargs(opts):
    """abstract optional parameters -> keyword arguments of perdictable (nothing at all for the defaults)"""
    if opts == DEFAULT_OPTS:
        return {}
    return {'output_is_input': OII[opts['oii']](), 'include_inputs': bool(opts['inc']), 'if_none': IFNONE[opts['ifnone']]()}


def on_of(c, form):
    menu = MENUS[form.get('menu', 0)][c['nk']]
    return list(menu[form['on'] % len(menu)])


def nature(col, p, n, form):
    """what the key number n of key column p is rendered as: 'nan' / 'none' (the greatest / least key number of the call in a
    column that has them), else the kind of the column"""
    kind = COLKIND[col]
    if kind in ('numnan', 'wild') and n == form['hi'][p]:
        return 'nan'
    if kind in ('optnum', 'wild') and n == form['lo'][p]:
        return 'none'
    return 'num' if kind in ('numnan', 'optnum', 'wild') else kind


# constructors of the spellings of one key; every call builds a NEW object (None and small ints are singletons of the
# interpreter: for them different spellings are one object, which is more sameness than the model promises, never less)
SPELLINGS = {
    'int': [lambda n: int(n)],
    'str': [lambda n: 'x%03d' % n],
    'date': [lambda n: BASE + datetime.timedelta(days=int(n))],
    'none': [lambda n: None],
    'num': [lambda n: int(n), lambda n: float(n), lambda n: __import__('numpy').int64(n), lambda n: __import__('numpy').float64(n),
            lambda n: __import__('numpy').int32(n), lambda n: __import__('numpy').float32(n), lambda n: __import__('numpy').uint8(n)],
    'nan': [lambda n: float('nan'), lambda n: __import__('numpy').float64('nan'), lambda n: -float('nan'),
            lambda n: float('inf') - float('inf'), lambda n: __import__('numpy').float32('nan')],
    'day': [lambda n: BASE + datetime.timedelta(days=int(n)), lambda n: (BASE + datetime.timedelta(days=int(n))).date(),
            lambda n: __import__('numpy').datetime64((BASE + datetime.timedelta(days=int(n))).date()),
            lambda n: __import__('numpy').datetime64(BASE + datetime.timedelta(days=int(n)))],
}


class Speller(object):
    """(key column, key number, spelling number) -> the Python object, one object per triple for the lifetime of the speller;
    which type a spelling number gets is drawn per (column, key number) from form['spsalt'] (+ shift), injectively while
    there are types left"""
    def __init__(self, form, shift=0):
        self.form, self.shift, self.memo = form, shift, {}

    def obj(self, col, p, n, sp):
        key = (col, n, sp)
        if key not in self.memo:
            makers = SPELLINGS[nature(col, p, n, self.form)]
            order = list(range(len(makers)))
            random.Random('%s/%s/%s/%s' % (self.form.get('spsalt', 0), self.shift, col, n)).shuffle(order)
            self.memo[key] = makers[order[sp % len(order)]](n)
        return self.memo[key]


def unrender_key(col, v, p, form):
    """inverse of the rendering, whatever the spelling; -1 for anything that is not a rendered key"""
    import numpy as np
    kind = COLKIND[col]
    if kind == 'int':
        return v if type(v) is int and 0 <= v < 1000 else -1
    if kind == 'str':
        return int(v[1:]) if isinstance(v, str) and len(v) == 4 and v[0] == 'x' and v[1:].isdigit() else -1
    if kind == 'date':
        return (v - BASE).days if isinstance(v, datetime.datetime) and v >= BASE and (v - BASE).seconds == 0 else -1
    if kind == 'day':
        if isinstance(v, np.datetime64):
            v = v.astype('datetime64[us]').astype(datetime.datetime)
        if isinstance(v, datetime.date) and not isinstance(v, datetime.datetime):
            v = datetime.datetime(v.year, v.month, v.day)
        return (v - BASE).days if isinstance(v, datetime.datetime) and v >= BASE and (v - BASE).seconds == 0 and v.microsecond == 0 else -1
    if v is None:
        return form['lo'][p] if kind in ('optnum', 'wild') and nature(col, p, form['lo'][p], form) == 'none' else -1
    if isinstance(v, (bool, np.bool_)) or not isinstance(v, (int, float, np.integer, np.floating)):
        return -1
    if v != v:
        return form['hi'][p] if kind in ('numnan', 'wild') else -1
    return int(v) if 0 <= v < 1000 and v == int(v) and nature(col, p, int(v), form) == 'num' else -1


def with_extent(form, *configs):
    """the least / greatest key number per key column over all tables of the configurations (they are rendered as None / NaN
    in the columns that have them): part of the rendering, kept in the form so that a replay renders alike"""
    nk = configs[0]['nk']
    ns = [[] for _ in range(nk)]
    for c in configs:
        for x in list(c['ins']) + [c['data'], c['expiry']]:
            for r in x['rows']:
                for p in range(nk):
                    ns[p].append(r['key'][p])
    return dict(form, lo=[min(v) if v else 0 for v in ns], hi=[max(v) if v else 0 for v in ns])


def make_f(n, sig=0):
    """the counting function of n parameters a, b, ...: records its arguments, returns ('f', a, b, ...).
    The last `sig` parameters carry python default values in the signature (never used: every input is passed)."""
    calls = []
    ps = ', '.join(NAMES[:n])
    decl = ', '.join(nm if i < n - sig else '%s = "signature default of %s"' % (nm, nm) for i, nm in enumerate(NAMES[:n]))
    ns = {'calls': calls}
    exec('def f(%s):\n    calls.append((%s,))\n    return ("f", %s)\n' % (decl, ps, ps), ns)
    return ns['f'], calls


def make_table(on, rows, extra, rng, keycols='shuffle', speller=None):
    """a dictable with key columns `on` and the columns of `extra` = {column: [values per row]}; rows shuffled; columns
    shuffled, or the key columns first in the order of `on` ('same') or against it ('reverse')"""
    from pyg_base import dictable
    idx = list(range(len(rows)))
    rng.shuffle(idx)
    cols = list(on) + list(extra)
    if keycols == 'shuffle':
        rng.shuffle(cols)
    elif keycols == 'reverse':
        cols = list(on)[::-1] + list(extra)
    if not rows:
        return dictable([], cols)
    data = {}
    for col in cols:
        if col in on:
            p = on.index(col)
            data[col] = [speller.obj(col, p, rows[i]['key'][p], rows[i].get('sp', 0)) for i in idx]
        else:
            data[col] = [extra[col][i] for i in idx]
    return dictable(data)


def render(c, form, rng, data_obj=None, speller=None):
    """abstract configuration -> keyword arguments of the real calls (data_obj: a real earlier result to pass as `data`)"""
    nk = c['nk']
    on = on_of(c, form)
    speller = speller or Speller(form)
    inputs, renames, defaults = {}, {}, {}
    for i, x in enumerate(c['ins']):
        nm = NAMES[i]
        if c['defs'][i]:
            defaults[nm] = untag(c['defs'][i][0])
        if x['kind'] == 'scalar':
            inputs[nm] = untag(x['v'])
            continue
        vals = [untag(r['v']) for r in x['rows']]
        fm = FORMS[form['ins'][i] % len(FORMS)]
        if fm == 'own':
            extra = {nm: vals}
        elif fm == 'data':
            extra = {'data': vals}
        elif fm == 'single':
            extra = {'v_' + nm: vals}
        elif fm == 'extra':
            extra = {nm: vals, 'noise': [0] * len(vals)}
        else:
            extra = {'col_' + nm: vals, 'noise': list(range(len(vals)))}
            renames[nm] = 'col_' + nm
        inputs[nm] = make_table(on, x['rows'], extra, rng, form.get('keycols', 'shuffle'), speller)
    all_scalar = all(x['kind'] == 'scalar' for x in c['ins'])
    cache = {}
    for what, style in (('data', form['data']), ('expiry', form['expiry'])):
        x = c[what]
        if what == 'data' and data_obj is not None:
            cache[what] = data_obj
        elif x['kind'] == 'scalar':
            cache[what] = untag(x['v'])                  # one expiry for every row
        elif x['kind'] == 'keyed':
            col = what if (what == 'data' or style % 2 == 0) else 'data'
            extra = {col: [untag(r['v']) for r in x['rows']]}
            if style % 3 == 2:                             # the cache has a further column (as an input table may)
                extra['noise'] = list(range(len(x['rows'])))
            cache[what] = make_table(on, x['rows'], extra, rng, speller=speller)
        elif style % 3 == 1:
            cache[what] = None
        elif style % 3 == 2 and not all_scalar:
            cache[what] = make_table(on, [], {what: []}, rng, speller=speller)      # nothing computed / no expiries: an empty table
    on_arg = on[0] if (nk == 1 and form['on'] % 2 == 0) else on
    return on, on_arg, inputs, renames, defaults, cache


def project(res, on, names, api, form):
    """what came back, by content (that it is the very object passed as `data` is recorded next to it, see observe)"""
    from pyg_base import dictable
    if res is None:
        return {'kind': 'none'}
    if not isinstance(res, dictable):
        return {'kind': 'value', 'v': tag(res)}
    cols = list(dict.keys(res))
    lists = {col: list(dict.__getitem__(res, col)) for col in cols}
    n = len(res)
    if n == 0 or any(len(v) != n for v in lists.values()):
        return {'kind': 'empty'} if n == 0 else {'kind': 'ragged'}
    roles = ['#%d' % (p + 1) for p, col in enumerate(on) if col in cols]
    seen = [col for col in on if col in cols]
    incols = [nm for nm in names if nm in cols]                       # join: the inputs; perdictable: only with include_inputs
    roles += ['@%d' % (names.index(nm) + 1) for nm in incols]
    valcols = ['data'] if (api == 'run' and 'data' in cols) else []
    roles += ['#v'] if valcols else []
    roles += sorted(col for col in cols if col not in seen and col not in valcols and col not in incols)
    rows = []
    for r in range(n):
        row = {'key': [unrender_key(col, lists[col][r], on.index(col), form) for col in seen]}
        if api == 'run':
            row['v'] = tag(lists['data'][r]) if valcols else ['o', 'missing']
        if api != 'run' or incols:
            row['vals'] = [tag(lists[nm][r]) for nm in incols]
        rows.append(row)
    return {'kind': 'table', 'cols': roles, 'rows': rows}


# "an expiry date in the past": up to yesterday 23:59:59; today (00:00:00 .. 23:59:59) is not in the past
EXPIRY_OF = {'past': lambda today, k: ["d", [today - (1, 2, 3, 30, 400, 9000)[k % 6], (0, 86399)[k % 2], 0]],
             'future': lambda today, k: ["d", [today + (0, 2, 3, 30, 400, 9000)[k % 6], (0, 86399)[k % 2], 0]],
             'none': lambda today, k: ["n", 0]}


def observe(job):
    """the (last) observation of a job"""
    return observe_all(job)[-1]


def observe_all(job):
    """observe_all_once, made again when midnight passed meanwhile (expiries are dealt relative to the day of the call)"""
    day = datetime.date.today()
    obs = observe_all_once(job)
    return obs if datetime.date.today() == day else observe_all(job)


def observe_all_once(job):
    """one public call on freshly rendered objects; returns the observation(s) (pure function of the job).
    With job['first'] (an earlier configuration) that call is made first - it is an observation of its own - and the object
    it really returned is handed over as `data` (when it is a table with one row per key: only that can be written down as
    previously computed values), with expiries dealt to its rows from job['plan']: the second observation."""
    import pyg_base
    from pyg_base import perdictable, join, dictable
    logging.getLogger('pyg').setLevel(logging.ERROR)
    c, api, form = job['c'], job['api'], job['form']
    rng = random.Random(job['salt'])
    today = datetime.date.today().toordinal()
    names = NAMES[:len(c['ins'])]
    dargs = lambda defaults: dict(defaults) if (defaults or form['defs'] % 2) else None
    # python default values in F's signature only together with an explicit `defaults` (then they must not matter);
    # with defaults=None the code reads them as the defaults, which the statement does not speak of
    sig = lambda defaults: min(form.get('sig', 0), len(names)) if dargs(defaults) is not None else 0
    data_obj = None
    speller = Speller(form)
    history = []
    if job.get('first') is not None:
        on, on_arg, inputs, renames, defaults, _ = render(job['first'], form, rng, speller=speller)
        f0, _calls0 = make_f(len(names), sig(defaults))
        try:
            res1 = perdictable(f0, on=on_arg, renames=renames or None, defaults=dargs(defaults))(**inputs)
        except Exception as e:        # the first call already fails: it is the observation
            return [{'api': 'run', 'c': job['first'], 'today': today, 'form': form, 'salt': job['salt'], 'chained': False,
                    'alpha': on == sorted(on), 'out': {'kind': 'exc', 'cls': type(e).__name__}, 'same': False,
                    'calls': [[tag(v) for v in args] for args in _calls0]}]
        p1 = project(res1, on, names, 'run', form)
        history.append({'api': 'run', 'c': job['first'], 'today': today, 'form': form, 'salt': job['salt'], 'chained': False,
                        'alpha': on == sorted(on), 'out': p1, 'same': False, 'calls': [[tag(v) for v in args] for args in _calls0]})
        if not (isinstance(res1, dictable) and p1['kind'] == 'table' and len({json.dumps(r['key']) for r in p1['rows']}) == len(p1['rows'])):
            return history                   # nothing that could be handed on as previously computed values
        else:
            # what is handed back: the object itself, or the same rows in another order (a cache need not be sorted)
            order = list(range(len(res1)))
            if form.get('dataorder', 0) % 3 == 1:
                order.reverse()
            elif form.get('dataorder', 0) % 3 == 2:
                rng.shuffle(order)
            data_obj = res1 if form.get('dataorder', 0) % 3 == 0 else res1[order]
            # the rows of the real object: its keys are spelt as they came back (sp 0 = "as returned")
            rows = sorted([dict(r, sp=0) for r in p1['rows']], key=lambda r: r['key'])
            plan = job['plan']
            if plan[0].startswith('scalar_'):           # one expiry for all the rows (every row of the second call is cached)
                expiry = {'kind': 'scalar', 'rows': [], 'v': EXPIRY_OF[plan[0][7:]](today, len(rows))}
            else:
                exp = [{'key': r['key'], 'sp': n % 3 if form.get('menu') else 0, 'v': EXPIRY_OF[st](today, n)} for n, r in enumerate(rows)
                       for st in [plan[n % len(plan)]] if st != 'absent']
                expiry = {'kind': 'keyed', 'rows': exp, 'v': ["n", 0]} if exp else {'kind': 'absent', 'rows': [], 'v': ["n", 0]}
            c = dict(c, data={'kind': 'keyed', 'rows': rows, 'v': ["n", 0]}, expiry=expiry)
            # the second call is made on the same key objects as the first, on new objects of the same types ("the cache
            # comes back from storage"), or on new objects of other types
            how = form.get('respell', 0) % 3
            speller = speller if how == 0 else Speller(form, shift=how - 1)
    on, on_arg, inputs, renames, defaults, cache = render(c, form, rng, data_obj, speller)
    f, calls = make_f(len(names), sig(defaults))
    opts = OPTS[form.get('opts', len(OPTS) - 1) % len(OPTS)]
    o = {'api': api, 'c': c, 'today': today, 'form': form, 'salt': job['salt'], 'chained': data_obj is not None,
         'alpha': on == sorted(on), 'opts': opts}          # `on` names the key columns in alphabetical order
    if data_obj is not None:
        o['first'], o['plan'] = job['first'], job['plan']
    try:
        if api == 'run':
            p = perdictable(f, on=on_arg, renames=renames or None, defaults=dargs(defaults), **opt_kwargs(opts))
            res = p(**inputs, **cache)
        else:
            res = join(inputs, on_arg, renames or None, dargs(defaults))
        o['out'] = project(res, on, names, api, form)
        o['same'] = res is not None and res is cache.get('data')         # the very object that was passed as `data`
    except Exception as e:
        o['out'] = {'kind': 'exc', 'cls': type(e).__name__}
        o['same'] = False
    if api == 'run':
        o['calls'] = [[tag(v) for v in args] for args in calls]
    return history + [o]


def pmap(jobs):
    """observations for all jobs, in order (a chained job gives two); the work is spread over processes (observe_all is pure)"""
    nproc = int(os.environ.get('VERIF_PY_WORKERS', min(16, os.cpu_count() or 1)))
    if nproc <= 1 or len(jobs) < 400:
        return [o for j in jobs for o in observe_all(j)]
    import multiprocessing
    with multiprocessing.get_context('fork').Pool(nproc) as pool:
        return [o for os_ in pool.map(observe_all, jobs, chunksize=max(1, min(500, len(jobs) // (4 * nproc)))) for o in os_]


def canon(case):
    return json.dumps([case['size'], case['c']], sort_keys=True)


def bag(xs):
    return sorted(json.dumps(x, sort_keys=True) for x in xs)


def mk_form(rng, c, spelled=None, first=None, inc_ok=True):
    """a rendering of configuration c (chained: of `first` and c): spelled = the key columns come from SP_MENU (several
    spellings per key, NaN / None keys), by default for one form in five; opts = the optional parameters of the perdictable
    (an index into OPTS; half of the renderings use the defaults; inc_ok: include_inputs may be drawn)"""
    n = len(c['ins'])
    form = {'on': rng.randrange(12), 'ins': [rng.randrange(len(FORMS)) for _ in range(n)],
            'data': rng.randrange(6), 'expiry': rng.randrange(6), 'defs': rng.randrange(2),
            'sig': rng.randrange(n + 1), 'keycols': rng.choice(['shuffle', 'same', 'reverse'])}
    form['menu'] = int(rng.random() < 0.2) if spelled is None else int(spelled)
    form['on'] = rng.randrange(24) if form['menu'] else form['on']
    form['spsalt'], form['respell'], form['dataorder'] = rng.randrange(1 << 20), rng.randrange(3), rng.randrange(3)
    menu = [i for i, op in enumerate(OPTS) if inc_ok or not op['inc']]
    form['opts'] = rng.choice(menu) if rng.random() < 0.5 else len(OPTS) - 1
    return with_extent(form, *([c] if first is None else [first, c]))


def alpha_form(rng, c, keycols, spelled=False, inc_ok=True):
    """a rendering in which `on` is alphabetical with the given stored column order"""
    form = mk_form(rng, c, spelled, inc_ok=inc_ok)
    while on_of(c, form) != sorted(on_of(c, form)):
        form['on'] += 1
    form['keycols'] = keycols
    return form


def spelled_cfg(c):
    return any(r.get('sp', 0) for x in list(c['ins']) + [c['data'], c['expiry']] for r in x['rows'])


def describe(c):
    """stable, matchable description of a configuration (for replays / known findings)"""
    tabs = [i for i, x in enumerate(c['ins']) if x['kind'] == 'keyed']
    strict = [i for i in tabs if not c['defs'][i]]
    kind = 'all_scalar' if not tabs else ('all_default' if not strict else ('inner' if len(strict) == len(tabs) else 'mixed'))
    olds = [r['v'] for r in c['data']['rows']]
    shape = 'none' if not olds else \
            'pairs' if all(v[0] == 't' and len(v[1]) == 2 for v in olds) else \
            'lists' if all(v[0] == 'l' for v in olds) else 'dicts' if all(v[0] == 'm' for v in olds) else 'other'
    return {'kind': kind, 'nk': c['nk'], 'n': len(c['ins']), 'tables': len(tabs),
            'cached': c['data']['kind'] == 'keyed', 'expiries': c['expiry']['kind'],
            'keys': 'respelt' if spelled_cfg(c) else 'one_object_per_key',     # some table spells a key by another object than the others
            'cached_shape': shape}     # what every previously computed value looks like: pairs / lists / dicts / other


def case_of(o):
    d = describe(o['c'])
    d.update({'api': o['api'], 'alpha': o['alpha'], 'key_columns': on_of(o['c'], o['form']), 'form': o['form'], 'salt': o.get('salt'), 'chained': bool(o.get('chained')), 'c': o['c']})
    if o.get('chained'):
        d.update({'first': o['first'], 'plan': o['plan']})
    return d


def judge(ctx, failing):
    """name the clause each unexplained observation breaks: the trace specification decides"""
    if not failing:
        return
    failing = failing[:300]
    bad = dict(ctx.validate('Trace_Perdictable', [o for o, _ in failing]))
    for i, (o, want) in enumerate(failing):
        clause = bad.get(i + 1)
        if clause is None:
            raise Machinery('S2C rejected an observation that Trace_Perdictable accepts: %s' % json.dumps(o)[:600])
        if clause.startswith('harness_'):
            raise Machinery('driver error %s on %s' % (clause, json.dumps(o)[:600]))
        ctx.violation(clause, case_of(o), {'observed': o['out'], 'calls': o.get('calls'), 'expected': want})


def s2c(ctx, cases, label):
    """replay the cases TLC generated: plain == with one of the outcomes the specification accepts"""
    today = datetime.date.today().toordinal()
    if not PAST_ORD + 2 < today < FUTURE_ORD - 2:
        raise Machinery('the clock (%s) is not between the past and future expiries of the model' % today)
    rng = random.Random(ctx.seed * 7919 + len(cases))
    cases = sorted(cases, key=canon)          # TLC prints in the order its workers happen to finish
    jobs, wants = [], []
    for k, case in enumerate(cases):
        c = case['c']
        n, nk = len(c['ins']), c['nk']
        for api in ('run', 'join'):
            if api == 'join' and (c['data']['kind'] != 'absent' or c['expiry']['kind'] != 'absent'):
                continue
            inc_ok = bool(case.get('run_inc'))                # TLC printed what include_inputs = True is to return
            if spelled_cfg(c):                                # tables that spell their keys differently: always key columns with spellings
                forms = [mk_form(rng, c, True, inc_ok=inc_ok), mk_form(rng, c, True, inc_ok=inc_ok)]
            else:
                forms = [mk_form(rng, c, inc_ok=inc_ok)]
            if nk == 2 and c['data']['kind'] == 'absent':     # where the order of `on` is pinned: stored column order with / against `on`
                forms += [alpha_form(rng, c, 'reverse', spelled_cfg(c), inc_ok), alpha_form(rng, c, 'same', spelled_cfg(c), inc_ok)]
            for form in forms:
                jobs.append({'c': c, 'api': api, 'form': form, 'salt': rng.randrange(1 << 30)})
                wants.append(case)
    obs = pmap(jobs)
    failing = []
    for o, case in zip(obs, wants):
        ctx.evals += 1
        if o['api'] == 'run':
            accepted = case['run_inc'] if o['opts']['inc'] else case['run']['alpha' if o['alpha'] else 'other']
            # the result by content, or (it is the very object passed as `data`) as that
            ok = (o['out'] in accepted or (o['same'] and {'kind': 'data'} in accepted)) and bag(o['calls']) == bag(case['calls'])
            want = {'one_of': accepted, 'calls': case['calls']}
        else:
            accepted = case['join']['alpha' if o['alpha'] else 'other']
            ok = o['out'] in accepted
            want = {'one_of': accepted}
        if ok:
            ctx.traces += 1
        else:
            failing.append((o, want))
        if case['nrows'] > 0 and o['out'].get('kind') == 'table':
            ctx.note((label, json.dumps(o['c'], sort_keys=True), o['api']))
    ctx.sample({'s2c_' + label: obs[len(obs) // 2]})
    judge(ctx, failing)
    ctx.extra.setdefault('s2c_cases', {})[label] = len(cases)
    ctx.extra.setdefault('s2c_replays_on_respelt_keys', {})[label] = sum(1 for o in obs if spelled_cfg(o['c']))
    ctx.extra.setdefault('s2c_replays_with_nan_or_none_keys', {})[label] = sum(1 for o in obs if o['form'].get('menu'))
    ctx.extra.setdefault('s2c_rows_kept_from_cache', {})[label] = sum(c['nkept'] for c in cases)


# ---- C2S: random larger configurations ---------------------------------------------------------------------
def rand_cfg(rng, today):
    nk = rng.choice([1, 1, 2])
    if nk == 1:
        universe = [[i] for i in sorted(rng.sample(range(0, 60), rng.choice([3, 6, 10, 14])))]
    else:
        xs, ys = sorted(rng.sample(range(0, 30), rng.choice([2, 3, 4]))), sorted(rng.sample(range(0, 30), rng.choice([2, 3])))
        universe = [[x, y] for x in xs for y in ys]
    pool = [["i", 0], ["i", 1], ["i", 2], ["i", 7], ["i", -3], ["n", 0], ["s", "u"], ["s", "v"], ["s", ""], ["f", [5, 2]],
            ["b", 1], ["b", 0], ["d", [737000, 3600, 0]]]
    few = rng.random() < 0.3                      # few distinct values: argument tuples collide, bag counts matter
    vals = rng.sample(pool, 2) if few else pool
    # scalars that are themselves sequences (of the length of some table, or any other): still one value for every row
    seqs = [[kind, [rng.choice(pool[:5]) for _ in range(L)]] for kind in ('l', 't') for L in sorted({0, 1, 2, 3, len(universe), len(universe) - 1})]
    n = rng.choice([1, 2, 3, 3, 4, 4, 4])
    ins, defs = [], []
    for i in range(n):
        if rng.random() < 0.22:
            ins.append({'kind': 'scalar', 'v': rng.choice(seqs) if rng.random() < 0.4 else rng.choice(vals), 'rows': []})
        else:
            style = rng.choice(['all', 'all', 'most', 'most', 'most', 'rand', 'rand', 'few', 'empty'])
            if style == 'all':
                keys = list(universe)
            elif style == 'most':
                keys = [k for k in universe if rng.random() < 0.85]
            elif style == 'rand':
                keys = [k for k in universe if rng.random() < 0.5]
            elif style == 'few':
                keys = rng.sample(universe, min(len(universe), rng.choice([1, 2])))
            else:
                keys = []
            ins.append({'kind': 'keyed', 'v': ["n", 0], 'rows': [{'key': k, 'v': rng.choice(vals)} for k in sorted(keys)]})
        defs.append([rng.choice(vals)] if rng.random() < 0.35 else [])
    tabs = [i for i in range(n) if ins[i]['kind'] == 'keyed']
    strict = [i for i in tabs if not defs[i]]
    data = {'kind': 'absent', 'rows': [], 'v': ["n", 0]}
    expiry = {'kind': 'absent', 'rows': [], 'v': ["n", 0]}
    if tabs and rng.random() < 0.7:
        # previously computed keys: anywhere when some table is inner-joined (lost keys are dropped), else among
        # the keys of one table input (see CacheInsideJoin in the specification)
        cand = universe if strict else [r['key'] for r in ins[rng.choice(tabs)]['rows']]
        cached = sorted(k for k in cand if rng.random() < rng.choice([0.3, 0.7, 1.0]))
        olds = [["s", "old"], ["i", 5], ["t", [["s", "f"], ["i", 1], ["n", 0]]], ["f", [1, 4]], ["s", "u"], ["t", [["s", "f"], ["i", 1]]],
                ["l", [["i", 1], ["i", 2]]], ["m", [["x", ["i", 1]]]]]
        style = rng.random()               # sometimes every previously computed value has the same shape
        if style < 0.12:
            olds = [["t", [["s", "f"], ["i", 1]]], ["t", [["s", "g"], ["n", 0]]]]
        elif style < 0.2:
            olds = [["l", [["i", 1], ["i", 2]]], ["l", []], ["l", [["s", "u"]]]]
        elif style < 0.28:
            olds = [["m", [["x", ["i", 1]]]], ["m", [["x", ["i", 2]], ["y", ["n", 0]]]]]
        if cached:
            data = {'kind': 'keyed', 'rows': [{'key': k, 'v': rng.choice(olds)} for k in cached], 'v': ["n", 0]}
            rows = []
            for k in cached:
                st = rng.choice(['absent', 'past', 'past', 'future', 'none'])
                if st == 'past':
                    rows.append({'key': k, 'v': ["d", [today - rng.choice([1, 2, 3, 30, 400, 9000]), rng.choice([0, 86399]), 0]]})
                elif st == 'future':
                    rows.append({'key': k, 'v': ["d", [today + rng.choice([0, 2, 3, 30, 400, 9000]), rng.choice([0, 86399]), 0]]})
                elif st == 'none':
                    rows.append({'key': k, 'v': ["n", 0]})
            if rows:
                expiry = {'kind': 'keyed', 'rows': rows, 'v': ["n", 0]}
    # how the tables spell their keys: one object per key everywhere / one class of objects per table / any object per cell
    style = rng.choice(['plain', 'plain', 'per_table', 'per_table', 'per_cell'])
    for x in ins + [data, expiry]:
        cls = rng.randrange(3)
        for r in x['rows']:
            r['sp'] = 0 if style == 'plain' else cls if style == 'per_table' else rng.randrange(4)
    return {'nk': nk, 'ins': ins, 'defs': defs, 'data': data, 'expiry': expiry}


def rand_chain(rng, today):
    """two calls: the first without cache, the second on re-drawn values (and, when some table is inner-joined, thinned
    key sets) receiving the first result as `data`"""
    first = rand_cfg(rng, today)
    first = dict(first, data={'kind': 'absent', 'rows': [], 'v': ["n", 0]}, expiry={'kind': 'absent', 'rows': [], 'v': ["n", 0]})
    second = json.loads(json.dumps(first))
    strict = any(x['kind'] == 'keyed' and not d for x, d in zip(second['ins'], second['defs']))
    fresh = [["i", 11], ["i", 12], ["s", "w"], ["n", 0], ["f", [7, 2]]]
    for x in second['ins']:
        if x['kind'] == 'keyed':
            if strict:
                x['rows'] = [r for r in x['rows'] if rng.random() < 0.85]
            for r in x['rows']:
                if rng.random() < 0.5:
                    r['v'] = rng.choice(fresh)
    plan = [rng.choice(['absent', 'past', 'past', 'future', 'none']) for _ in range(rng.choice([1, 3, 7]))]
    if rng.random() < 0.3:
        plan = [rng.choice(['scalar_past', 'scalar_past', 'scalar_future', 'scalar_none'])]
    return first, second, plan


def corrupt(o, rng):
    """a copy of an accepted observation with one field falsified (the trace specification must reject it)"""
    o = json.loads(json.dumps(o))
    rows = o['out']['rows']
    how = rng.choice(['drop_row', 'dup_row', 'value', 'call']) if o['api'] == 'run' else rng.choice(['drop_row', 'dup_row', 'value'])
    if how == 'drop_row':
        rows.pop(rng.randrange(len(rows)))
    elif how == 'dup_row':                  # the same key a second time (as if one of its spellings had been taken for another key)
        rows.append(json.loads(json.dumps(rows[rng.randrange(len(rows))])))
    elif how == 'value':
        r = rows[rng.randrange(len(rows))]
        if o['api'] == 'run':
            r['v'] = ["s", "corrupted"]
        else:
            r['vals'][0] = ["s", "corrupted"]
    else:
        o['calls'].append([["s", "corrupted"]] * len(o['c']['ins']))
    return o


def c2s(ctx, nconf):
    today = datetime.date.today().toordinal()
    jobs = []
    for _ in range(nconf):
        c = rand_cfg(ctx.rng, today)
        n = len(c['ins'])
        sp = True if spelled_cfg(c) else None
        jobs.append({'c': c, 'api': 'run', 'form': mk_form(ctx.rng, c, sp), 'salt': ctx.rng.randrange(1 << 30)})
        cj = dict(c, data={'kind': 'absent', 'rows': [], 'v': ["n", 0]}, expiry={'kind': 'absent', 'rows': [], 'v': ["n", 0]})
        jobs.append({'c': cj, 'api': 'join', 'form': mk_form(ctx.rng, cj, sp), 'salt': ctx.rng.randrange(1 << 30)})
    for _ in range(nconf // 2):
        first, second, plan = rand_chain(ctx.rng, today)
        jobs.append({'c': second, 'first': first, 'plan': plan, 'api': 'run',
                     'form': mk_form(ctx.rng, second, True if spelled_cfg(first) or spelled_cfg(second) else None, first),
                     'salt': ctx.rng.randrange(1 << 30)})
    obs = pmap(jobs)
    ctx.evals += len(obs)
    # binding self-check: a few falsified copies of real observations ride along and must all be rejected
    good = [o for o in obs if o['out'].get('kind') == 'table' and not o['same']]
    fakes = [corrupt(o, ctx.rng) for o in ctx.rng.sample(good, min(6, len(good)))]
    bad = ctx.validate('Trace_Perdictable', obs + fakes)
    rejected = {i for i, _ in bad}
    for j in range(len(fakes)):
        if len(obs) + j + 1 not in rejected:
            raise Machinery('the trace specification accepted a falsified observation: %s' % json.dumps(fakes[j])[:600])
    for i, clause in bad:
        if i > len(obs):
            continue
        o = obs[i - 1]
        if clause.startswith('harness_'):
            # the second call of a history whose first call (the line before) is already rejected: what that call returned
            # is not a table of previously computed values of the model - the history ends at its first violation
            if o.get('chained') and i - 1 in rejected:
                continue
            raise Machinery('driver error %s on %s' % (clause, json.dumps(o)[:600]))
        ctx.violation(clause, case_of(o), {'observed': o['out'], 'calls': o.get('calls')})
    for o in obs:
        if o['out'].get('kind') == 'table' and not o['same']:
            ctx.note(('c2s', json.dumps(o['c'], sort_keys=True), o['api']))
    ctx.sample({'c2s_observation': next((o for o in obs if o['api'] == 'run' and o['out'].get('kind') == 'table' and o['c']['expiry']['kind'] == 'keyed'), obs[0])})
    ctx.extra['c2s_outcome_kinds'] = {k: sum(1 for o in obs if o['out'].get('kind') == k) for k in sorted({o['out'].get('kind') for o in obs})}
    ctx.extra['c2s_chained_calls'] = sum(1 for o in obs if o.get('chained'))
    ctx.extra['c2s_calls_on_respelt_keys'] = sum(1 for o in obs if spelled_cfg(o['c']))
    ctx.extra['c2s_calls_with_nan_or_none_keys'] = sum(1 for o in obs if o['form'].get('menu'))
    ctx.extra['c2s_data_object_returned'] = sum(1 for o in obs if o.get('same'))
    ctx.extra['c2s_rows_kept_from_cache'] = sum(1 for o in obs if o['api'] == 'run' and o['out'].get('kind') == 'table'
                                                and len(o['calls']) < len(o['out']['rows']))


# ---- sessions on caller-owned tables (PerdictableSess.tla) -------------------------------------------------------
ABSENT = {'kind': 'absent', 'rows': [], 'v': ["n", 0]}


def role_of(col):
    """a column / dict key named after a parameter of F is written by its position"""
    return '@%d' % (NAMES.index(col) + 1) if col in NAMES else col


def paycol(form, j):
    return {'own': NAMES[j], 'data': 'data', 'single': 'v_' + NAMES[j], 'extra': NAMES[j], 'renamed': 'col_' + NAMES[j]}[form]


class Session(object):
    """the caller: his tables (the pool), the table the last perdictable call returned, and the on / renames / defaults /
    perdictable objects he keeps and hands to every call that needs equal ones"""
    def __init__(self, sess, form, salt):
        from pyg_base import dictable
        self.nk, self.form = sess['nk'], form
        self.rng = random.Random(salt)
        self.on = on_of({'nk': self.nk}, form)
        self.on_arg = self.on[0] if (self.nk == 1 and form['on'] % 2 == 0) else list(self.on)
        self.speller = Speller(form)
        self.meta = [{'form': t['form'], 'ord': t['ord']} for t in sess['pool']]
        self.pool = []
        for j, t in enumerate(sess['pool']):
            n = len(t['rows'])
            extra = {paycol(t['form'], j): [untag(r['v']) for r in t['rows']]}
            if t['form'] in ('extra', 'renamed'):
                extra['noise'] = [0] * n
            self.pool.append(make_table(self.on, t['rows'], extra, self.rng, t['ord'], self.speller))
        self.last = None
        self.kept = {}          # the caller's own argument objects, by what they hold
        self.today = datetime.date.today().toordinal()

    def keep(self, kind, key, make):
        k = (kind, json.dumps(key, sort_keys=True))
        if k not in self.kept:
            self.kept[k] = make()
        return self.kept[k]

    def key_of(self, t, r):
        cols = dict.keys(t)
        return [unrender_key(col, dict.__getitem__(t, col)[r], p, self.form) if col in cols else -1 for p, col in enumerate(self.on)]

    def read_table(self, j):
        t = self.pool[j]
        pc = paycol(self.meta[j]['form'], j)
        cols = list(dict.keys(t))
        n = len(t)
        order = sorted(range(n), key=lambda r: self.key_of(t, r))
        cells = lambda col: [tag(dict.__getitem__(t, col)[r]) for r in order]
        pay = cells(pc) if pc in cols else [['o', 'missing']] * n
        return {'rows': [{'key': self.key_of(t, r), 'sp': 0, 'v': v} for r, v in zip(order, pay)],
                'others': {role_of(col): cells(col) for col in cols if col not in self.on and col != pc},
                'form': self.meta[j]['form'], 'ord': self.meta[j]['ord']}

    def read_pool(self):
        return [self.read_table(j) for j in range(len(self.pool))]

    def read_last(self):
        t = self.last
        if t is None:
            return {'kind': 'none'}
        cols = list(dict.keys(t))
        order = sorted(range(len(t)), key=lambda r: self.key_of(t, r))
        val = lambda r: tag(dict.__getitem__(t, 'data')[r]) if 'data' in cols else ['o', 'missing']
        return {'kind': 'table', 'rows': [{'key': self.key_of(t, r), 'v': val(r)} for r in order]}

    def read_statics(self, st):
        out = {'on': list(st['on']) if isinstance(st['on'], list) else [st['on']],
               'renames': {role_of(k): v for k, v in (st['renames'] or {}).items()},
               'defaults': {role_of(k): tag(v) for k, v in (st['defaults'] or {}).items()}}
        return out

    def read_expiry(self, obj, x):
        from pyg_base import dictable
        if x['kind'] == 'absent':
            return dict(x)
        if x['kind'] == 'scalar':
            return dict(x, v=tag(obj))
        cols = list(dict.keys(obj))
        col = x['cols'][0]
        order = sorted(range(len(obj)), key=lambda r: self.key_of(obj, r))
        return {'kind': 'keyed', 'v': ["n", 0], 'cols': sorted(c for c in cols if c not in self.on),
                'rows': [{'key': self.key_of(obj, r), 'sp': 0, 'v': tag(dict.__getitem__(obj, col)[r]) if col in cols else ['o', 'missing']} for r in order]}

    def edit(self, st):
        if st['kind'] == 'editresult':
            t = self.last
            new = {json.dumps(r['key']): untag(r['v']) for r in st['rows']}
            t['data'] = [new[json.dumps(self.key_of(t, r))] for r in range(len(t))]
            return
        j = st['obj'] - 1
        t = self.pool[j]
        if st['kind'] == 'subset':
            keep = [json.dumps(k) for k in st['keep']]
            self.pool[j] = t[[r for r in range(len(t)) if json.dumps(self.key_of(t, r)) in keep]]
            return
        pc = paycol(self.meta[j]['form'], j)
        new = {json.dumps(r['key']): untag(r['v']) for r in st['rows']}
        vals = [new[json.dumps(self.key_of(t, r))] for r in range(len(t))]
        if st['kind'] == 'setcol':
            t[pc] = vals                          # the public column setter, in place
        else:
            self.pool[j] = t(**{pc: vals})        # a new table made from the old one

    def call(self, st):
        """one public call on the caller's objects; returns what the observation of a call step adds"""
        from pyg_base import perdictable, join
        names = NAMES[:len(st['params'])]
        inputs, scalars, renames, defaults = {}, {}, {}, {}
        for i, (prm, d) in enumerate(zip(st['params'], st['defs'])):
            nm = names[i]
            if d:
                defaults[nm] = untag(d[0])
            if prm['kind'] == 'scalar':
                inputs[nm] = scalars[i] = untag(prm['v'])
            else:
                j = prm['obj'] - 1
                inputs[nm] = self.pool[j]
                if self.meta[j]['form'] == 'renamed':
                    renames[nm] = paycol('renamed', j)
        ren = self.keep('renames', renames, lambda: dict(renames)) if renames else None
        dfl = self.keep('defaults', {k: tag(v) for k, v in defaults.items()}, lambda: dict(defaults)) if (defaults or self.form['defs'] % 2) else None
        statics = {'on': self.on_arg, 'renames': ren, 'defaults': dfl}
        before = self.read_statics(statics)
        cache = {}
        x = st['expiry']
        exp_obj = None
        if st['cache'] == 'last':
            cache['data'] = self.last
        if x['kind'] == 'scalar':
            exp_obj = cache['expiry'] = untag(x['v'])
        elif x['kind'] == 'keyed':
            exp_obj = cache['expiry'] = make_table(self.on, x['rows'], {x['cols'][0]: [untag(r['v']) for r in x['rows']]}, self.rng, speller=self.speller)
        elif self.form['expiry'] % 3 == 1:
            cache['expiry'] = None
        add = {'statics': before}
        calls = []
        try:
            if st['api'] == 'run':
                def make():
                    f, cs = make_f(len(names))
                    return perdictable(f, on=self.on_arg, renames=ren, defaults=dfl, **opt_kwargs(st['opts'])), cs
                # one perdictable object per (parameters, renames, defaults, options) for the whole session
                pd, calls = self.keep('perdictable', [names, renames, {k: tag(v) for k, v in defaults.items()}, dfl is None, st['opts']], make)
                del calls[:]
                res = pd(**inputs, **cache)
            else:
                res = join(inputs, self.on_arg, ren, dfl)
            add['out'] = project(res, self.on, names, st['api'], self.form)
            add['same'] = res is not None and res is cache.get('data')
        except Exception as e:
            res = None
            add['out'] = {'kind': 'exc', 'cls': type(e).__name__}
            add['same'] = False
        add['calls'] = [[tag(v) for v in args] for args in calls]
        add['statics_after'] = self.read_statics(statics)
        add['params_after'] = [{'kind': 'scalar', 'v': tag(scalars[i])} if prm['kind'] == 'scalar' else dict(prm) for i, prm in enumerate(st['params'])]
        add['expiry_after'] = self.read_expiry(exp_obj, x)
        return add, res


def observe_session(job):
    """observe_session_once, made again when midnight passed meanwhile"""
    day = datetime.date.today()
    obs = observe_session_once(job)
    return obs if datetime.date.today() == day else observe_session(job)


def observe_session_once(job):
    """replay one session step by step; one observation (api "step") per step, the pool / the last result / the caller's other
    argument objects read through the public API before and after each step"""
    from pyg_base import dictable
    logging.getLogger('pyg').setLevel(logging.ERROR)
    sess, form = job['sess'], job['form']
    S = Session(sess, form, job['salt'])
    obs = []
    pool, last = S.read_pool(), S.read_last()
    for n, h in enumerate(sess['hist']):
        st = json.loads(json.dumps(h['step']))
        # a randomly drawn session leaves to the moment of the step what depends on the table the last call returned
        if st['kind'] == 'editresult' and st['rows'] == 'deal':
            if S.last is None:
                continue
            st = {'kind': 'editresult', 'rows': [{'key': r['key'], 'v': st['v']} for r in last['rows']]}
        if st['kind'] == 'call' and st['expiry'] == 'deal':
            plan = st.pop('plan')
            if S.last is None:
                st.update(cache='none', expiry=dict(ABSENT))
            else:
                rows = [{'key': r['key'], 'sp': 0, 'v': EXPIRY_OF[w](S.today, i)} for i, r in enumerate(last['rows']) for w in [plan[i % len(plan)]] if w != 'absent']
                st['expiry'] = {'kind': 'keyed', 'rows': rows, 'v': ["n", 0]} if rows else dict(ABSENT)
        o = {'api': 'step', 'nk': S.nk, 'today': S.today, 'alpha': S.on == sorted(S.on), 'form': form, 'salt': job['salt'], 'sid': job.get('sid', 0),
             'at': n + 1, 'pool': pool, 'last': last}
        if st['kind'] == 'call':
            if st['expiry']['kind'] == 'keyed':
                st['expiry']['cols'] = ['expiry' if form['expiry'] % 2 == 0 else 'data']
            add, res = S.call(st)
            o.update(add)
            o['last_after'] = S.read_last()             # the table handed in as `data` / returned earlier, read again
            if st['api'] == 'run':
                p = add['out']
                ok = (isinstance(res, dictable) and p['kind'] == 'table' and not add['same']
                      and len({json.dumps(r['key']) for r in p['rows']}) == len(p['rows']))
                S.last = res if ok else None
        else:
            try:
                S.edit(st)
            except Exception as e:
                o['edit_error'] = type(e).__name__
            o['last_after'] = S.read_last()
        o['step'] = st
        o['pool_after'] = S.read_pool()
        obs.append(o)
        pool, last = o['pool_after'], S.read_last()
    return obs


def sess_form(rng, sess):
    """a rendering of a session: key columns (one session in five on key columns with several spellings per key), how "absent" is spelt"""
    form = {'on': rng.randrange(12), 'ins': [], 'data': 0, 'expiry': rng.randrange(6), 'defs': rng.randrange(2), 'sig': 0,
            'menu': int(rng.random() < 0.2), 'spsalt': rng.randrange(1 << 20)}
    form['on'] = rng.randrange(24) if form['menu'] else form['on']
    keys = [r['key'] for t in sess['pool'] for r in t['rows']]
    nk = sess['nk']
    return dict(form, lo=[min(k[p] for k in keys) if keys else 0 for p in range(nk)], hi=[max(k[p] for k in keys) if keys else 0 for p in range(nk)])


def pmap_sessions(jobs):
    nproc = int(os.environ.get('VERIF_PY_WORKERS', min(16, os.cpu_count() or 1)))
    if nproc <= 1 or len(jobs) < 200:
        return [observe_session(j) for j in jobs]
    import multiprocessing
    with multiprocessing.get_context('fork').Pool(nproc) as pool:
        return pool.map(observe_session, jobs, chunksize=max(1, min(200, len(jobs) // (4 * nproc))))


def rand_session(rng):
    """a longer session drawn at random: 2-3 tables over up to 6 keys, 4-7 steps.  Calls that hand the last result back as `data`
    keep at least one table without default and deal expiries to the keys of that result only (the quantifier's domain)."""
    nk = rng.choice([1, 1, 2])
    if nk == 1:
        universe = [[i] for i in sorted(rng.sample(range(0, 40), rng.choice([2, 4, 6])))]
    else:
        universe = [[x, y] for x in sorted(rng.sample(range(0, 20), 2)) for y in sorted(rng.sample(range(0, 20), rng.choice([2, 3])))]
    vals = [["i", 0], ["i", 1], ["i", 7], ["n", 0], ["s", "u"], ["s", ""], ["f", [5, 2]], ["b", 1], ["l", [["i", 1]]], ["t", []]]
    m = rng.choice([2, 2, 3])
    pool = []
    for j in range(m):
        keys = [k for k in universe if j == 0 or rng.random() < 0.8]
        pool.append({'form': rng.choice(['own', 'data', 'single', 'extra', 'renamed']), 'ord': rng.choice(['same', 'reverse', 'shuffle']),
                     'rows': [{'key': k, 'sp': 0, 'v': rng.choice(vals)} for k in sorted(keys)], 'others': {}})
    state = [[r['key'] for r in t['rows']] for t in pool]          # which keys each table holds (the caller knows what he did)
    has_last = False
    hist = []
    for at in range(rng.choice([4, 5, 6, 7])):
        kind = rng.choice(['call', 'call', 'call', 'setcol', 'derive', 'subset', 'editresult'])
        if kind == 'editresult' and not has_last:
            kind = 'call'
        if kind == 'call':
            n = rng.choice([1, 2, 2, 3, 4])
            params, defs = [], []
            for i in range(n):
                cand = [j for j in range(m) if pool[j]['form'] != 'extra' or i == j]
                if rng.random() < 0.2 or not cand:
                    params.append({'kind': 'scalar', 'v': rng.choice(vals)})
                else:
                    params.append({'kind': 'table', 'obj': rng.choice(cand) + 1})
                defs.append([rng.choice(vals[:8])] if rng.random() < 0.3 else [])       # defaults are never sequences (as in rand_cfg)
            tabs = [i for i in range(n) if params[i]['kind'] == 'table']
            api = rng.choice(['run', 'run', 'join'])
            st = {'kind': 'call', 'api': api, 'params': params, 'defs': defs, 'opts': rng.choice(OPTS) if api == 'run' else DEFAULT_OPTS,
                  'cache': 'none', 'expiry': dict(ABSENT)}
            if api == 'run' and has_last and tabs and rng.random() < 0.6:
                if all(defs[i] for i in tabs):
                    defs[tabs[0]] = []
                st['cache'] = 'last'
                st['expiry'] = 'deal'                      # expiries are dealt to the keys of the last result when the step is made
                st['plan'] = [rng.choice(['absent', 'past', 'past', 'future', 'none']) for _ in range(rng.choice([1, 3]))]
            hist.append({'step': st})
            if api == 'run':
                has_last = None if tabs else False          # a table came back if any key survived: known when the step is made
        elif kind == 'editresult':
            hist.append({'step': {'kind': 'editresult', 'rows': 'deal', 'v': rng.choice([v for v in vals if v[0] != 'n'])}})
        else:
            j = rng.randrange(m)
            if kind == 'subset':
                keep = [k for k in state[j] if rng.random() < 0.6]
                state[j] = keep
                hist.append({'step': {'kind': 'subset', 'obj': j + 1, 'keep': keep}})
            else:
                hist.append({'step': {'kind': kind, 'obj': j + 1, 'rows': [{'key': k, 'v': rng.choice(vals)} for k in sorted(state[j])]}})
        if has_last is None:
            has_last = True
    return {'nk': nk, 'pool': pool, 'hist': hist}


def session_case(job, o):
    st = o['step']
    d = {'api': 'session', 'kind': 'session', 'nk': o['nk'], 'at': o['at'], 'step': st['kind'], 'call': st.get('api'), 'cache': st.get('cache'),
         'opts': st.get('opts'), 'forms': [t['form'] for t in job['sess']['pool']], 'alpha': o['alpha'], 'key_columns': on_of({'nk': o['nk']}, o['form']),
         'tlc': 'expect' in job['sess']['hist'][0],
         'steps': [h['step']['kind'] for h in job['sess']['hist']], 'sess': job['sess'], 'form': job['form'], 'salt': job['salt']}
    return d


def sessions(ctx, generated, nrand, label):
    """S2C: every session TLC generated is replayed step by step, the outcome of every call compared with == against what TLC
    printed for it; C2S: these and `nrand` longer randomly drawn sessions, every step with the pool read before and after it, are
    judged by the trace specification (StepVerdict).  A session ends at its first rejected step."""
    rng = random.Random(ctx.seed * 104729 + len(generated) + nrand)
    today = datetime.date.today().toordinal()
    sess = sorted(generated, key=lambda x: json.dumps(x, sort_keys=True))
    jobs = [{'sess': x, 'form': sess_form(rng, x), 'salt': rng.randrange(1 << 30), 'sid': i} for i, x in enumerate(sess)]
    for i in range(nrand):
        x = rand_session(rng)
        jobs.append({'sess': x, 'form': sess_form(rng, x), 'salt': rng.randrange(1 << 30), 'sid': len(sess) + i})
    allobs = pmap_sessions(jobs)
    flat = [o for obs in allobs for o in obs]
    bad = {}
    for k in range(0, len(flat), 6000):                 # a step carries the pool twice: keep each log small
        bad.update({i + k: clause for i, clause in ctx.validate('Trace_Perdictable', flat[k:k + 6000])})
    ctx.evals += len(flat)
    line, nfail, ncalls, nkept, nsame = 0, 0, 0, 0, 0
    for job, obs in zip(jobs, allobs):
        for n, o in enumerate(obs):
            line += 1
            clause = bad.get(line)
            st = o['step']
            differs = False
            if st['kind'] == 'call':
                ncalls += 1
                exp = job['sess']['hist'][n].get('expect')
                if exp is not None:              # S2C
                    differs = not ((o['out'] in exp['outs'] or (o['same'] and {'kind': 'data'} in exp['outs'])) and bag(o['calls']) == bag(exp['calls']))
                    ctx.evals += 1
                    ctx.traces += 0 if differs else 1
                if o['out'].get('kind') == 'table':
                    ctx.note(('session', json.dumps([o['pool'], o['last'], {k: v for k, v in st.items() if k not in ('shape', 'variant')}], sort_keys=True)))
                    nkept += len(o['calls']) < len(o['out']['rows'])
                    nsame += any(p['kind'] == 'table' and q['kind'] == 'table' and p['obj'] == q['obj'] for i, p in enumerate(st['params']) for q in st['params'][i + 1:])
            if clause is None and not differs:
                continue
            if clause is None:
                raise Machinery('S2C rejected a session step that Trace_Perdictable accepts: %s' % json.dumps(o)[:900])
            if clause.startswith('harness_'):
                raise Machinery('driver error %s on session step %s' % (clause, json.dumps(o)[:900]))
            nfail += 1
            ctx.violation(clause, session_case(job, o), {'observed': o.get('out'), 'calls': o.get('calls'), 'pool': o['pool'], 'pool_after': o['pool_after'],
                                                      'expected': job['sess']['hist'][n].get('expect')})
            line += len(obs) - n - 1                     # the session ends here
            break
    ctx.sample({'session_' + label: [{k: v for k, v in o.items() if k in ('step', 'out', 'calls', 'pool', 'pool_after')} for o in allobs[len(allobs) // 3]]})
    ex = ctx.extra.setdefault('sessions', {})
    ex[label] = {'generated_by_tlc': len(sess), 'random': nrand, 'steps': len(flat), 'calls': ncalls, 'calls_with_rows_kept_from_cache': nkept,
                 'calls_with_one_table_under_two_names': nsame, 'rejected_sessions': nfail}


def replay(ctx, body):
    """./check C20 --replay <file>: make the recorded call again and let the trace specification judge it"""
    case = body['case']
    if case.get('api') == 'session':          # a session: made again from its first step, judged step by step
        obs = observe_session({'sess': case['sess'], 'form': case['form'], 'salt': case.get('salt') or 0})
        bad = ctx.validate('Trace_Perdictable', obs)
        for i, o in enumerate(obs):
            print(json.dumps({'step': o['step'], 'out': o.get('out'), 'calls': o.get('calls'), 'pool_after': o['pool_after']})[:1500])
        print('verdict: %s' % (', '.join('step %d: %s' % b for b in bad) if bad else 'accepted'))
        return 1 if bad else 0
    job = {'c': case['c'], 'api': case['api'], 'form': case['form'], 'salt': case.get('salt') or 0}
    if case.get('chained'):             # the second of two chained calls: make the first one again
        job.update({'c': dict(case['c'], data={'kind': 'absent', 'rows': [], 'v': ["n", 0]}, expiry={'kind': 'absent', 'rows': [], 'v': ["n", 0]}),
                    'first': case['first'], 'plan': case['plan']})
    o = observe(job)
    bad = ctx.validate('Trace_Perdictable', [o])
    print(json.dumps({'observed': o['out'], 'calls': o.get('calls')})[:2000])
    print('verdict: %s' % (bad[0][1] if bad else 'accepted'))
    return 1 if bad else 0


def run(ctx):
    ctx.rule = ('S2C: every configuration TLC enumerates (quick: 1-2 inputs over 2-3 keys on 1-2 key columns with every assignment of '
                'not-computed / absent / past / future / None expiry to the keys, all 1-3-input overlap/default patterns without cache - the '
                '3-input ones as a seeded sample of 1500; thorough: all of them, 4 inputs, 3 inputs with cache; value styles distinct / all equal / '
                'previously computed pairs; gen_spell*: additionally every way - up to renaming - in which the inputs, the previously computed '
                'values and the expiries share or do not share the objects that spell their keys, 2-3 classes) replayed through '
                'perdictable(F, on=...)(inputs, data, expiry) and join(inputs, on, renames, defaults) '
                'in a randomly drawn rendering (key column names/types/order, value column naming, row and column order, how "absent" is spelt; '
                'one rendering in five and every rendering of a respelt configuration on key columns with several spellings per key: int / float / '
                'numpy scalars, the greatest key NaN, the least key None, datetime / date / datetime64 - one Python object per (key, spelling)), '
                'compared with == against the outcomes TLC printed (rows in order, bag of recorded calls).  C2S: random configurations (up to 14 '
                'keys, two key columns, 4 inputs, colliding values, cached pairs/lists/dicts, keys respelt per table or per cell) and chained calls '
                '(both calls are observations; the object returned by the first one - or its rows in another order - handed back as `data`, on the '
                'same or on new key objects) validated by Trace_Perdictable.  A result is always judged by content, also when it is the very '
                'object passed as `data`.  OPTIONAL PARAMETERS (PerdictableSess.tla, OptSeq): half of all renderings make the perdictable with '
                'output_is_input / if_none / include_inputs off their defaults (False, another name, a list of names, a list holding the value '
                'column; True, a list; include_inputs with the inputs\' values checked per row) - the law reads none of them as an input '
                '(invariant OptionsAreNotInputs) and TLC prints the include_inputs outcome (run_inc) for every configuration of at most two inputs.  SESSIONS (PerdictableSess.tla / MC_PerdictableSess.tla): the caller keeps '
                'his tables (a pool X, Y; five ways of naming the payload column; key columns listed with or against `on`), his on / renames / '
                'defaults objects and his perdictable objects across calls; TLC enumerates call ; [edit] ; call - 6 shapes of call (one table, two, '
                'ONE table under two parameter names, table + scalar, swapped names, with / without default) as perdictable or join, the edit '
                'one of payload column replaced in place / table derived from the old one (new payload, fewer rows) / returned table edited in '
                'place, the second call in the same or the neighbouring shape, without cache or with the table the first call returned handed '
                'back as `data` (no expiry, one past expiry, past/future/None per key) and rotating optional parameters - and prints what the '
                'law expects of every call on the tables AS THEY ARE THEN (S2C, == per call); every step, and those of longer randomly drawn '
                'sessions (2-3 tables, up to 7 steps), is recorded with the pool, the last result, the expiry table, the scalars and the '
                'on / renames / defaults objects read before and after it and judged by StepVerdict (C2S): the outcome, then argument_changed / '
                'earlier_result_changed / result_aliases_argument.  Non-trivial = at least one table input and a result with at least '
                'one row; distinct by (abstract configuration incl. spelling, api) resp. (pool, last result, step).')
    q = ctx.quick
    import time
    t0, c0 = time.time(), time.process_time()
    for cfg in (['quick'] if q else ['thorough', 'thorough2']):
        ctx.mc('MC_Perdictable', 'MC_Perdictable_%s.cfg' % cfg)
    # outside the quantifier (a past expiry on a key that was NOT computed before, next to other cached keys) the
    # code's gating, as modelled, leaves the row uncomputed: documented, not judged
    ctx.mc('MC_Perdictable', 'MC_Perdictable_beyond.cfg', must_fail='ComputedRows', coverage=False, workers=1)
    # why the spellings of the keys are enumerated: the join's mechanism on the key cells is the law when cells are matched by
    # rank (CellsJoinIsLaw, CacheJoinIsLaw above) and is NOT when the keys a defaulted input lacks are looked up as objects
    ctx.mc('MC_Perdictable', 'MC_Perdictable_identity.cfg', must_fail='ObjectLookupIsLaw', coverage=False, workers=1)
    # sessions on caller-owned tables: the law of a session, the mechanism of _item that makes renamed copies against it, and
    # (expected to fail) the mechanism that writes into the caller's table
    ctx.mc('MC_PerdictableSess', 'MC_PerdictableSess_%s.cfg' % ('quick' if q else 'thorough'))
    ctx.mc('MC_PerdictableSess', 'MC_PerdictableSess_inplace.cfg', must_fail='InPlaceIsLaw', coverage=False, workers=1)
    if q:
        gen = sorted(ctx.generate('MC_PerdictableSess', 'MC_PerdictableSess_gen_quick.cfg'), key=lambda x: json.dumps(x, sort_keys=True))
        sessions(ctx, ctx.rng.sample(gen, min(800, len(gen))), 100, 'quick')
    else:
        gen = sorted(ctx.generate('MC_PerdictableSess', 'MC_PerdictableSess_gen_thorough.cfg'), key=lambda x: json.dumps(x, sort_keys=True))
        wide = [x for x in gen if x['size'][2] == 'all']          # every pair of forms: a seeded sample
        sessions(ctx, [x for x in gen if x['size'][2] != 'all'] + ctx.rng.sample(wide, min(3000, len(wide))), 1500, 'thorough')
    if q:
        cases = sorted(ctx.generate('MC_Perdictable', 'MC_Perdictable_gen_quick.cfg'), key=canon)
        wide = [c for c in cases if c['size'][:3] == [3, 3, 1]]              # 3 inputs over 3 keys: a seeded sample in the quick tier
        rest = [c for c in cases if c['size'][:3] != [3, 3, 1]]
        s2c(ctx, rest + ctx.rng.sample(wide, min(1500, len(wide))), 'gen_quick')
        s2c(ctx, ctx.generate('MC_Perdictable', 'MC_Perdictable_gen_spell_quick.cfg'), 'gen_spell_quick')
    else:
        for g in ['gen_join', 'gen_cache', 'gen_cache2', 'gen_values', 'gen_join4', 'gen_spell']:
            s2c(ctx, ctx.generate('MC_Perdictable', 'MC_Perdictable_%s.cfg' % g), g)
    c2s(ctx, 400 if q else 4000)
    ctx.extra['driver_parent_cpu_s'] = round(time.process_time() - c0, 1)     # the serial part of the driver (TLC and the pool excluded)
    ctx.extra['tlc_wall_s'] = round(sum(r['wall_s'] for r in ctx.tlc_runs), 1)
    ctx.exhaustive = False
    brk = {}
    for v in ctx.violations + [v for _, v in ctx.known_hits]:
        key = '%s/%s/cached_shape=%s' % (v['clause'], v['case'].get('api'), v['case'].get('cached_shape'))
        brk[key] = brk.get(key, 0) + 1
    ctx.extra['violation_breakdown'] = brk
    ctx.assumptions += [
        'small-scope: MC/S2C use 3 keys (one key column: 1,2,3; two key columns: (1,2),(2,1),(1,1)), 1-4 inputs; C2S up to 14 keys, 4 inputs',
        'keys are rendered by strictly monotone maps (int, "x%03d" string, date; with spellings: numbers, None below and NaN above every '
        'number, days) so that "sorted by key" is the integer order of the model',
        'which objects are one key is taken from pyg-base\'s own order of keys (cmp ranks them equal): int / float / numpy integer and float '
        'scalars of one value, any two NaN, None, date / datetime / numpy.datetime64 of one midnight.  Spellings that cmp keeps apart although '
        'Python calls them equal are NOT used as one key: bool vs int (True / 1), numpy.str_ vs str, pandas.Timestamp vs datetime',
        'named deviation AnySpelling: which of the supplied spellings of its key a returned row carries is not pinned',
        'named deviation EmptyJoin: None / the supplied data object / an empty table all count as "zero rows"',
        'domain: expiries only on previously computed keys; all-scalar calls carry no data/expiry; when every table input has a default, '
        'previously computed keys lie inside the join (CacheInsideJoin); previously computed values are never None (so if_none has nothing '
        'to act on); "an expiry date in the past" is read on dates: up to yesterday 23:59:59 is past, today 00:00:00 .. 23:59:59 is not '
        '(random expiries include both boundaries; an observation is made again when midnight passes during it)',
        'a call with renames = {parameter: column} used to leave a copy of that column under the parameter\'s name in the caller\'s table '
        '(repaired in /repo 2b8c4b2; the deviation RenameLeavesCopy is no longer admitted); any change of a caller-owned table, scalar, '
        'expiry table, on / renames object or earlier result is argument_changed',
        'named deviation DefaultsGainCacheKeys: the caller\'s defaults dict comes back with data = None and expiry = None added',
        'named deviation IncludedExpiry: with include_inputs the joined expiry column comes along; its cells are not looked at',
        'sessions: a table that has further columns (forms extra) is handed in only under the parameter its payload column is named after; '
        'defaults are never sequences; F has no parameter called data / expiry (output_is_input has nothing to show it); function.output '
        '(dict-valued functions, _dict_output) is outside the statement',
        'on=None/[] with table inputs is outside the statement ("keyed by keys")']
