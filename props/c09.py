"""C09 - dt_bump adds business days, calendar units and compound tenors exactly.

TLA+ (spec/Bump.tla) decides what dt_bump(t, bump) denotes.  This driver only renders abstract
(t, bump) into datetimes / strings / ints / timedeltas, calls the public dt_bump / dt, encodes the
result as [ordinal, second of day, microsecond] (or the exception class) and either compares it
with == against what TLC printed (S2C) or hands it to spec/Trace_Bump.tla (C2S).
"""
import datetime, json, multiprocessing, os

FIXED, MONTH = ('d', 'w', 'h', 'n', 's'), ('m', 'q', 'y')
UNITS = ('b',) + FIXED + MONTH
MULT = {'m': 1, 'q': 3, 'y': 12}
FIRST, LAST = datetime.datetime(1900, 1, 1).toordinal(), datetime.datetime(2299, 12, 31).toordinal()


# ---- rendering (abstract -> concrete) and projection (concrete -> abstract) ---------------------
def inst(t):
    return datetime.datetime.fromordinal(t[0]) + datetime.timedelta(seconds=t[1], microseconds=t[2])


def enc(r):
    if isinstance(r, datetime.datetime) and r.tzinfo is None:
        return ['ok', [r.toordinal(), r.hour * 3600 + r.minute * 60 + r.second, r.microsecond]]
    return ['other', type(r).__name__]


def part_str(n, u, style):
    """one part of a period string; style: l = lower case, u = upper case, p = explicit + sign"""
    s = '%d%s' % (n, u.upper() if style == 'u' else u)
    return '+' + s if style == 'p' and n >= 0 else s


def call(t, bump, form):
    """one public call.  bump is the abstract bump of Bump.tla; form chooses among the spellings
    that the property declares equivalent."""
    from pyg_base import dt_bump, dt
    x = inst(t)
    try:
        if bump[0] == 'int':
            r = dt(x, bump[1]) if form == 'dt' else dt_bump(x, bump[1])
        elif bump[0] == 'td':
            td = datetime.timedelta(days=bump[1][0], seconds=bump[1][1], microseconds=bump[1][2])
            r = dt(x, td) if form == 'dt' else dt_bump(x, td)
        else:
            parts = bump[1]
            if form == 'args':                       # dt_bump(t, '1y', '-3m', '2d')
                r = dt_bump(x, *[part_str(n, u, 'l') for n, u in parts])
            elif form == 'dt':                       # dt(t, '1y-3m2d')
                r = dt(x, ''.join(part_str(n, u, 'l') for n, u in parts))
            elif form == 'dtargs':                   # dt(t, '1y', '-3m', '2d')
                r = dt(x, *[part_str(n, u, 'l') for n, u in parts])
            elif form == 'mixed':                    # '1Y-3m2D'
                r = dt_bump(x, ''.join(part_str(n, u, 'ul'[i % 2]) for i, (n, u) in enumerate(parts)))
            else:                                    # l / u / p
                r = dt_bump(x, ''.join(part_str(n, u, form) for n, u in parts))
        return enc(r)
    except Exception as e:
        return ['exc', type(e).__name__]


def clause_of(bump):
    if bump[0] != 'tenor':
        return 'fixed_exact'
    if len(bump[1]) > 1:
        return 'compound_left_to_right'
    u = bump[1][0][1]
    return 'b_nth_weekday' if u == 'b' else 'month_keeps_day_or_rolls' if u in MONTH else 'fixed_exact'


def case_of(t, bump, form):
    c = {'op': 'dt_bump', 'kind': bump[0], 'form': form, 't': t, 'bump': bump[1]}
    if bump[0] == 'tenor':
        c['units'] = ''.join(u for _, u in bump[1])
        c['tenor'] = ''.join(part_str(n, u, 'l') for n, u in bump[1])
    return c


# ---- S2C ---------------------------------------------------------------------------------------
TENOR_FORMS = ('l', 'u', 'p', 'dt')


def expect(ctx, t, bump, form, want):
    got = call(t, bump, form)
    ctx.evals += 1
    if got != ['ok', want]:
        ctx.violation(clause_of(bump), case_of(t, bump, form), {'expected': want, 'observed': got})


def s2c_units(ctx, cases):
    cases = sorted(cases, key=lambda c: (c['o'], c['n']))                 # TLC prints in no particular order
    for i, c in enumerate(cases):
        o, n = c['o'], c['n']
        t = [o, 0, 0]
        for j, u in enumerate(UNITS):
            b = ['tenor', [[n, u]]]
            expect(ctx, t, b, 'l', c['unit'][u])
            expect(ctx, t, b, TENOR_FORMS[1 + (o + n + j) % 3], c['unit'][u])
        expect(ctx, t, ['int', n], 'call', c['int'])
        expect(ctx, t, ['td', [n, 0, 0]], 'call', c['td'])
        for x in c['intraday']:
            for j, u in enumerate(('b',) + FIXED):
                expect(ctx, x['t'], ['tenor', [[n, u]]], TENOR_FORMS[(o + n + j) % 4], x['unit'][u])
            expect(ctx, x['t'], ['int', n], 'dt' if (o + n) % 2 else 'call', x['int'])
            expect(ctx, x['t'], ['td', x['td']['bump']], 'dt' if (o + n) % 2 else 'call', x['td']['out'])
        if c['unit']['b'][0] - o != n:
            ctx.note(('b', (o + 6) % 7, n))
        if i % 2999 == 0:
            ctx.sample({'s2c_units': {k: c[k] for k in ('o', 'n', 'unit')}})
        ctx.traces += 1


def s2c_compound(ctx, cases):
    forms = ('l', 'args', 'dt', 'dtargs', 'mixed', 'u')
    cases = sorted(cases, key=lambda c: json.dumps([c['t'], c['tenor']]))
    for i, c in enumerate(cases):
        b = ['tenor', c['tenor']]
        expect(ctx, c['t'], b, 'l', c['out'])
        expect(ctx, c['t'], b, forms[1 + i % 5], c['out'])
        ctx.note(('c', c['t'][0] % 7, repr(c['tenor'])))
        if i % 4999 == 0:
            ctx.sample({'s2c_compound': c})
        ctx.traces += 1


# ---- C2S, bulk: the real dt_bump on every start day x n x form, grouped -------------------------
def _scan(job):
    """worker: real dt_bump on every midnight start of [lo, hi) x n x every single-unit form.
    Returns {group key: [count, witness start ordinal, witness result ordinal]} and stray outcomes
    (exceptions / non-datetimes) as raw observations."""
    lo, hi, nmax, upper_every = job
    from pyg_base import dt_bump
    fo = datetime.datetime.fromordinal
    days = datetime.timedelta
    groups, stray, nstray = {}, [], 0
    strs = [(u, n, cs, part_str(n, u, cs)) for n in range(-nmax, nmax + 1) for u in UNITS for cs in ('l', 'u')
            if cs == 'l' or n % upper_every == 0]
    for o in range(lo, hi):
        t = fo(o)
        wd, y, m, d = t.weekday(), t.year, t.month, t.day
        dcls = (1, 28) if d <= 28 else (d, d)
        for u, n, cs, s in strs:
            try:
                r = dt_bump(t, s)
                ro = r.toordinal(); s1 = r.hour * 3600 + r.minute * 60 + r.second; u1 = r.microsecond
            except Exception as e:
                nstray += 1
                if len(stray) < 20:
                    stray.append({'k': 'raw', 't': [o, 0, 0], 'bump': ['tenor', [[n, u]]], 'form': cs,
                                  'out': ['exc', type(e).__name__]})
                continue
            if u == 'b':
                key = ('gb', cs, wd, n, ro - o, s1, u1)
            elif u in MULT:
                ty = y + (m + n * MULT[u] - 1) // 12
                leap = 1 if (ty % 4 == 0 and (ty % 100 != 0 or ty % 400 == 0)) else 0
                key = ('gm', cs, u, n, m, dcls[0], dcls[1], leap, r.year - y, r.month, r.day - d, s1, u1)
            else:
                key = ('gf', 'tenor', cs, u, n, ro - o, s1, u1)
            g = groups.get(key)
            if g is None:
                groups[key] = [1, o, ro]
            else:
                g[0] += 1
        for n in range(-nmax, nmax + 1):
            for form, b in (('int', n), ('td', days(n))):
                r = dt_bump(t, b)
                key = ('gf', form, 'l', 'd', n, r.toordinal() - o, r.hour * 3600 + r.minute * 60 + r.second, r.microsecond)
                g = groups.get(key)
                if g is None:
                    groups[key] = [1, o, r.toordinal()]
                else:
                    g[0] += 1
    return groups, stray, nstray


def group_obs(key, g):
    cnt, o, ro = g
    if key[0] == 'gb':
        _, cs, wd, n, dord, s1, u1 = key
        return {'k': 'gb', 'case': cs, 'wd': wd, 'n': n, 'dord': dord, 's1': s1, 'u1': u1, 'cnt': cnt, 'wit': [o, ro]}
    if key[0] == 'gf':
        _, form, cs, u, n, dord, s1, u1 = key
        return {'k': 'gf', 'form': form, 'case': cs, 'unit': u, 'n': n, 'dord': dord, 's1': s1, 'u1': u1, 'cnt': cnt, 'wit': [o, ro]}
    _, cs, u, n, m, dlo, dhi, leap, dy, m1, dd, s1, u1 = key
    return {'k': 'gm', 'case': cs, 'unit': u, 'n': n, 'm': m, 'dlo': dlo, 'dhi': dhi, 'leap': leap, 'dy': dy, 'm1': m1,
            'dd': dd, 's1': s1, 'u1': u1, 'cnt': cnt, 'wit': [o, ro]}


def bulk(ctx, ranges, nmax=60, upper_every=1):
    jobs = []
    for lo, hi in ranges:                        # cut into ~2-month jobs so that 16 processes share them
        step = 61
        jobs += [(a, min(a + step, hi), nmax, upper_every) for a in range(lo, hi, step)]
    nproc = max(1, min(16, os.cpu_count() or 1, len(jobs)))
    with multiprocessing.get_context('fork').Pool(nproc) as pool:
        parts = pool.map(_scan, jobs, chunksize=1)
    groups, stray, nstray = {}, [], 0
    for g, s, k in parts:
        nstray += k
        stray += s
        for key, v in g.items():
            w = groups.get(key)
            if w is None:
                groups[key] = list(v)
            else:
                w[0] += v[0]
                if v[1] < w[1]:
                    w[1], w[2] = v[1], v[2]
    ndays = sum(hi - lo for lo, hi in ranges)
    nupper = len([n for n in range(-nmax, nmax + 1) if n % upper_every == 0])
    total = ndays * ((2 * nmax + 1) * (len(UNITS) + 2) + nupper * len(UNITS))
    if sum(v[0] for v in groups.values()) + nstray != total:
        from harness.core import Machinery
        raise Machinery('bulk scan lost observations: %d grouped + %d stray != %d' % (sum(v[0] for v in groups.values()), nstray, total))
    obs = [group_obs(k, groups[k]) for k in sorted(groups)] + stray[:200]
    return obs, total, nstray


# ---- C2S, individual: intraday starts, timedeltas, compound tenors ------------------------------
def rand_raw(rng, n):
    obs = []
    for _ in range(n):
        o = rng.randint(FIRST, LAST)
        q = rng.random()
        tod = [0, 0] if q < 0.35 else [rng.randrange(86400), 0] if q < 0.6 else \
            [rng.choice([0, 1, 86399, rng.randrange(86400)]), rng.choice([1, 999999, rng.randrange(1000000)])]
        t = [o] + tod
        midnight = tod == [0, 0]
        q = rng.random()
        if q < 0.2:
            u = rng.choice(('b',) + FIXED)
            bump, form = ['tenor', [[rng.randint(-60, 60), u]]], rng.choice(('l', 'u', 'p', 'dt'))
        elif q < 0.3:
            bump, form = ['int', rng.randint(-60, 60)], rng.choice(('call', 'dt'))
        elif q < 0.45:
            td = datetime.timedelta(days=rng.randint(-60, 60), seconds=rng.choice([0, 1, 3600, 86399, rng.randrange(86400)]),
                                    microseconds=rng.choice([0, 0, 1, 999999, rng.randrange(1000000)]))
            bump, form = ['td', [td.days, td.seconds, td.microseconds]], rng.choice(('call', 'dt'))
        else:
            # two- and three-part tenors.  Month units only while the running instant is certainly a
            # midnight: from a midnight start and before any h/n/s part (TLC re-checks the domain).
            parts, clock = [], not midnight
            for _ in range(rng.choice((2, 2, 3))):
                u = rng.choice(('b',) + FIXED) if clock else rng.choice(UNITS)
                clock = clock or u in ('h', 'n', 's')
                parts.append([rng.randint(-60, 60), u])
            bump, form = ['tenor', parts], rng.choice(('l', 'u', 'p', 'args', 'dt', 'dtargs', 'mixed'))
        obs.append({'k': 'raw', 't': t, 'bump': bump, 'form': form, 'out': call(t, bump, form)})
    return obs


def c2s(ctx, ranges, nraw, upper_every):
    obs, total, nstray = bulk(ctx, ranges, upper_every=upper_every)
    ngroups = len(obs)
    raw = rand_raw(ctx.rng, nraw)
    obs += raw
    ctx.evals += total + len(raw)
    bad = ctx.validate('Trace_Bump', obs)
    for i, clause in bad:
        o = obs[i - 1]
        if clause in ('domain', 'unknown_kind'):
            from harness.core import Machinery
            raise Machinery('Trace_Bump: observation %d is outside the specified domain (%s): %r' % (i, clause, o))
        if o['k'] == 'raw':
            ctx.violation(clause, case_of(o['t'], o['bump'], o['form']), {'observed': o['out']})
        else:
            unit = o.get('unit', 'b')
            bump = ['int', o['n']] if o.get('form') == 'int' else ['td', [o['n'], 0, 0]] if o.get('form') == 'td' else ['tenor', [[o['n'], unit]]]
            case = case_of([o['wit'][0], 0, 0], bump, o['case'])
            case['group'] = {k: v for k, v in o.items() if k not in ('wit',)}
            ctx.violation(clause, case, {'observed': ['ok', [o['wit'][1], o['s1'], o['u1']]], 'calls_in_group': o['cnt']})
    # evidence: groups whose bump crosses a weekend / overflows a month, and compound observations
    for o in obs[:ngroups]:
        if (o['k'] == 'gb' and o['dord'] != o['n']) or (o['k'] == 'gm' and (o['dd'] != 0 or o['dy'] != 0)):
            ctx.note((o['k'], o.get('unit', 'b'), o['n'], o.get('wd', o.get('m')), o.get('dlo', 0), o.get('leap', 0), o['case']))
    for o in raw:
        if o['bump'][0] == 'tenor' and len(o['bump'][1]) > 1:
            ctx.note(('raw', repr(o['t']), repr(o['bump'])))
    ctx.sample({'c2s_group': obs[ngroups // 2]})
    ctx.sample({'c2s_raw': raw[len(raw) // 2]})
    ctx.extra['c2s_bulk'] = {'calls': total, 'groups': ngroups, 'stray': nstray, 'days': sum(hi - lo for lo, hi in ranges)}


def year_range(y0, y1):
    return (datetime.datetime(y0, 1, 1).toordinal(), datetime.datetime(y1, 12, 31).toordinal() + 1)


def run(ctx):
    ctx.rule = ('MC: laws of the statement on Bump.tla (closed weekday formula = unit steps = counting, weekday landing, '
                'monotone, same-sign composition, round trips, fixed units exact, month law = overflow constructor). '
                'S2C: every (start day, n, unit/int/timedelta) of a TLC-enumerated window and every compound tenor of the menu, '
                'each in two spellings, == the instant TLC printed. C2S: real dt_bump on every midnight start of the scanned years '
                'x n in -60..60 x 9 unit letters in both cases + int + timedelta, grouped by the abstraction the spec factors '
                'through and validated group by group (with a recomputed witness) by Trace_Bump; random intraday / timedelta / '
                'compound calls validated one by one. Non-trivial = the bump crosses a weekend (days moved != n), overflows a '
                'month or changes the year, or is a compound tenor; distinct by abstract key.')
    # one action only (Next: the next start day of the block): -coverage would triple the cost for nothing;
    # that the action is taken is checked directly
    r = ctx.mc('MC_Bump', 'MC_Bump_quick.cfg' if ctx.quick else 'MC_Bump_thorough.cfg', coverage=False)
    if r.distinct < 300 * 121:
        from harness.core import Machinery
        raise Machinery('MC_Bump walked only %d states: the day-by-day action Next was not taken' % r.distinct)
    s2c_units(ctx, ctx.generate('MC_Bump', 'MC_Bump_genU.cfg' if ctx.quick else 'MC_Bump_genU2.cfg'))
    s2c_compound(ctx, ctx.generate('MC_Bump', 'MC_Bump_genC.cfg' if ctx.quick else 'MC_Bump_genC2.cfg'))
    if ctx.quick:
        c2s(ctx, [year_range(1999, 2001), year_range(2099, 2101)], 10000, 3)     # upper-case letters for every third n
    else:
        c2s(ctx, [(FIRST, LAST + 1)], 200000, 2)               # upper-case letters for every second n
    ctx.exhaustive = False
    ctx.assumptions += [
        'bulk C2S observations are grouped before TLC sees them: business days by (weekday, n, days moved, time of day of the result), '
        'fixed units / ints / timedelta(days) by (form, unit, n, days moved, time of day), month units by (unit, n, month, day-of-month '
        'class 1..28 | 29 | 30 | 31, leap-ness of the target year, years moved, month, day - start day, time of day); the grouping function '
        '(props/c09.py _scan: datetime field accessors, integer subtraction, the leap-year test) is trusted, each group carries its '
        'multiplicity and one concrete witness that TLC recomputes in full; MC_Bump proves that the specification factors through these '
        'abstractions (PeriodicB, MonthShapeIsLaw)',
        'month / quarter / year units are exercised from midnight only (in compound tenors: only while the running instant is a midnight); '
        'the law "monotone in t" is read on the date: the time of day is carried along, so two instants of one weekend may swap '
        '(the statement itself fixes the roll to Monday)',
        'model-checking verdicts hold for n in -60..60 and the years listed in the cfg; quick C2S scans 1999-2001 and 2099-2101, thorough the whole '
        'cycle 1900-2299; dt(bump) relative to today, time zones and the named tenors spot/on/tn/sn are not exercised',
    ]


def replay(ctx, body):
    """./check C09 --replay <file>: re-execute one recorded failing call and let Trace_Bump judge it again"""
    c = body['case']
    form = c['form'] if c['form'] in ('l', 'u', 'p', 'args', 'dt', 'dtargs', 'mixed', 'call') else 'l'
    bump = [c['kind'], c['bump']]
    o = {'k': 'raw', 't': c['t'], 'bump': bump, 'form': form, 'out': call(c['t'], bump, form)}
    bad = ctx.validate('Trace_Bump', [o])
    print('replay C09: dt_bump(%s, %r) [%s] -> %s : %s' % (inst(c['t']), c.get('tenor', c['bump']), form, o['out'],
                                                          'VIOLATES ' + bad[0][1] if bad else 'explained by the specification'))
    import shutil
    shutil.rmtree(ctx.tmp, ignore_errors=True)
    return 1 if bad else 0
