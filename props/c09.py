"""C09 - dt_bump adds business days, calendar units and compound tenors exactly.

TLA+ (spec/Bump.tla) decides what dt_bump(t, bump) denotes.  This driver only renders abstract
(t, bump) into datetimes / strings / ints / timedeltas, calls the public dt_bump / dt, encodes the
result as [ordinal, second of day, microsecond] (or the exception class) and either compares it
with == against what TLC printed (S2C) or hands it to spec/Trace_Bump.tla (C2S).
"""
import datetime, json, multiprocessing, os

FIXED, MONTH = ('d', 'w', 'h', 'n', 's'), ('m', 'q', 'y')
UNITS = ('b',) + FIXED + MONTH
MULT = {'m': 1, 'q': 3, 'y': 12}
FIRST, LAST = datetime.datetime(1900, 1, 1).toordinal(), datetime.datetime(2299, 12, 31).toordinal()


# ---- rendering (abstract -> concrete) and projection (concrete -> abstract) ---------------------
def inst(t):
    return datetime.datetime.fromordinal(t[0]) + datetime.timedelta(seconds=t[1], microseconds=t[2])


def enc(r):
    if isinstance(r, datetime.datetime) and r.tzinfo is None:
        return ['ok', [r.toordinal(), r.hour * 3600 + r.minute * 60 + r.second, r.microsecond]]
    return ['other', type(r).__name__]


def part_str(n, u, style):
    """one part of a period string; style: l = lower case, u = upper case, p = explicit + sign"""
    s = '%d%s' % (n, u.upper() if style == 'u' else u)
    return '+' + s if style == 'p' and n >= 0 else s


def call(t, bump, form):
    """one public call.  bump is the abstract bump of Bump.tla; form chooses among the spellings
    that the property declares equivalent."""
    from pyg_base import dt_bump, dt
    x = inst(t)
    try:
        if bump[0] == 'int':
            r = dt(x, bump[1]) if form == 'dt' else dt_bump(x, bump[1])
        elif bump[0] == 'td':
            td = datetime.timedelta(days=bump[1][0], seconds=bump[1][1], microseconds=bump[1][2])
            r = dt(x, td) if form == 'dt' else dt_bump(x, td)
        else:
            parts = bump[1]
            if form == 'args':                       # dt_bump(t, '1y', '-3m', '2d')
                r = dt_bump(x, *[part_str(n, u, 'l') for n, u in parts])
            elif form == 'dt':                       # dt(t, '1y-3m2d')
                r = dt(x, ''.join(part_str(n, u, 'l') for n, u in parts))
            elif form == 'dtargs':                   # dt(t, '1y', '-3m', '2d')
                r = dt(x, *[part_str(n, u, 'l') for n, u in parts])
            elif form == 'mixed':                    # '1Y-3m2D'
                r = dt_bump(x, ''.join(part_str(n, u, 'ul'[i % 2]) for i, (n, u) in enumerate(parts)))
            else:                                    # l / u / p
                r = dt_bump(x, ''.join(part_str(n, u, form) for n, u in parts))
        return enc(r)
    except Exception as e:
        return ['exc', type(e).__name__]


def clause_of(bump):
    if bump[0] != 'tenor':
        return 'fixed_exact'
    if len(bump[1]) > 1:
        return 'compound_left_to_right'
    u = bump[1][0][1]
    return 'b_nth_weekday' if u == 'b' else 'month_keeps_day_or_rolls' if u in MONTH else 'fixed_exact'


def case_of(t, bump, form):
    c = {'op': 'dt_bump', 'kind': bump[0], 'form': form, 't': t, 'bump': bump[1]}
    if bump[0] == 'tenor':
        c['units'] = ''.join(u for _, u in bump[1])
        c['tenor'] = ''.join(part_str(n, u, 'l') for n, u in bump[1])
    return c


# ---- S2C ---------------------------------------------------------------------------------------
TENOR_FORMS = ('l', 'u', 'p', 'dt')


def expect(ctx, t, bump, form, want):
    got = call(t, bump, form)
    ctx.evals += 1
    if got != ['ok', want]:
        ctx.violation(clause_of(bump), case_of(t, bump, form), {'expected': want, 'observed': got})


def s2c_units(ctx, cases):
    cases = sorted(cases, key=lambda c: (c['o'], c['n']))                 # TLC prints in no particular order
    for i, c in enumerate(cases):
        o, n = c['o'], c['n']
        t = [o, 0, 0]
        for j, u in enumerate(UNITS):
            b = ['tenor', [[n, u]]]
            expect(ctx, t, b, 'l', c['unit'][u])
            expect(ctx, t, b, TENOR_FORMS[1 + (o + n + j) % 3], c['unit'][u])
        expect(ctx, t, ['int', n], 'call', c['int'])
        expect(ctx, t, ['td', [n, 0, 0]], 'call', c['td'])
        for x in c['intraday']:
            for j, u in enumerate(('b',) + FIXED):
                expect(ctx, x['t'], ['tenor', [[n, u]]], TENOR_FORMS[(o + n + j) % 4], x['unit'][u])
            expect(ctx, x['t'], ['int', n], 'dt' if (o + n) % 2 else 'call', x['int'])
            expect(ctx, x['t'], ['td', x['td']['bump']], 'dt' if (o + n) % 2 else 'call', x['td']['out'])
        if c['unit']['b'][0] - o != n:
            ctx.note(('b', (o + 6) % 7, n))
        if i % 2999 == 0:
            ctx.sample({'s2c_units': {k: c[k] for k in ('o', 'n', 'unit')}})
        ctx.traces += 1


def s2c_compound(ctx, cases):
    forms = ('l', 'args', 'dt', 'dtargs', 'mixed', 'u')
    cases = sorted(cases, key=lambda c: json.dumps([c['t'], c['tenor']]))
    for i, c in enumerate(cases):
        b = ['tenor', c['tenor']]
        expect(ctx, c['t'], b, 'l', c['out'])
        expect(ctx, c['t'], b, forms[1 + i % 5], c['out'])
        ctx.note(('c', c['t'][0] % 7, repr(c['tenor'])))
        if i % 4999 == 0:
            ctx.sample({'s2c_compound': c})
        ctx.traces += 1


# ---- sessions: caller-owned objects, several calls on them (spec/BumpSession.tla) ---------------
class _DT(datetime.datetime):
    """a caller's subclass of datetime"""


class _TD(datetime.timedelta):
    pass


class _S(str):
    pass


DT_FORM_OK = ('datetime', 'sub', 'ts', 'date', 'np_D', 'np_s', 'np_us', 'np_ns')     # dt(t, bump) reads these as a date


def render_start(s):
    """the start instant s['t'] in the realisation s['real']"""
    import numpy as np, pandas as pd
    x, r = inst(s['t']), s['real']
    if r == 'datetime':
        return x
    if r == 'sub':
        return _DT(x.year, x.month, x.day, x.hour, x.minute, x.second, x.microsecond)
    if r == 'ts':
        return pd.Timestamp(x)
    if r == 'date':
        return x.date()
    if r in ('np_D', 'np_s', 'np_us', 'np_ns'):
        return np.datetime64(x.date() if r == 'np_D' else x, r[3:])
    if r == 'int':
        return x.year * 10000 + x.month * 100 + x.day
    if r == 'str_d':
        return x.strftime('%Y-%m-%d')
    if r == 'str_s':
        return x.strftime('%Y-%m-%d %H:%M:%S')
    if r == 'str_us':
        return x.strftime('%Y-%m-%dT%H:%M:%S.%f')
    raise ValueError(r)


def tenor_str(parts, style):
    if style == 'm':
        return ''.join(part_str(n, u, 'ul'[i % 2]) for i, (n, u) in enumerate(parts))
    return ''.join(part_str(n, u, style if style in ('u', 'p') else 'l') for n, u in parts)


def render_bump(b, dress='l'):
    """the abstract bump b in the given dress (spelling of a period string / type of an int or a timedelta)"""
    import numpy as np, pandas as pd
    if b[0] == 'int':
        return np.int64(b[1]) if dress == 'np_int64' else np.int32(b[1]) if dress == 'np_int32' else b[1]
    if b[0] == 'td':
        kw = dict(days=b[1][0], seconds=b[1][1], microseconds=b[1][2])
        return pd.Timedelta(**kw) if dress == 'pd_td' else _TD(**kw) if dress == 'td_sub' else datetime.timedelta(**kw)
    if dress == 'str_sub':
        return _S(tenor_str(b[1], 'l'))
    if dress == 'np_str':
        return np.str_(tenor_str(b[1], 'l'))
    return tenor_str(b[1], dress)


def restyle(s, style):
    """the concatenation of a caller's list of period strings, respelled"""
    return s.upper() if style == 'u' else ''.join(ch.upper() if k % 2 else ch for k, ch in enumerate(s)) if style == 'm' else s


def exec_session(lists0, actions):
    """one session in this process: the caller's lists and start objects are made once and shared by all calls.
    actions = [(kind, x)]; returns the observed steps [kind, x, outcome, the caller's lists afterwards].
    The contents of a list are projected back through the table of the objects this session rendered
    (by identity, else by equal value of the same type); anything else is 'foreign'."""
    from pyg_base import dt_bump, dt
    made = []                                            # (object, abstract bump)

    def mk(b):
        x = render_bump(b, 'l')
        made.append((x, b))
        return x

    def proj(x):
        for y, b in made:
            if y is x:
                return b
        for y, b in made:
            if type(y) is type(x) and y == x:
                return b
        return ['foreign', repr(x)[:60]]

    lists = [[mk(b) for b in l] for l in lists0]
    starts, out = {}, []
    for kind, x in actions:
        if kind == 'call':
            op, s, arg, style = x
            key = json.dumps(s, sort_keys=True)
            if key not in starts:
                starts[key] = render_start(s)
            t = starts[key]
            f = dt if op == 'dt' else dt_bump
            try:
                if arg[0] == 'list':
                    r = f(t, lists[arg[1] - 1])
                elif arg[0] == 'splat':
                    r = f(t, *lists[arg[1] - 1])
                elif arg[0] == 'join':
                    r = f(t, restyle(''.join(lists[arg[1] - 1]), style))
                else:
                    r = f(t, render_bump(arg[1], style))
                res = enc(r)
            except Exception as e:
                res = ['exc', type(e).__name__]
        else:
            e, res = x, ['none', '']
            try:
                if e[0] == 'append':
                    lists[e[1] - 1].append(mk(e[2]))
                elif e[0] == 'popfirst':
                    lists[e[1] - 1].pop(0)
                elif e[0] == 'poplast':
                    lists[e[1] - 1].pop()
                elif e[0] == 'set':
                    lists[e[1] - 1][e[2] - 1] = mk(e[3])
                elif e[0] == 'clear':
                    lists[e[1] - 1].clear()
                elif e[0] == 'extend':
                    lists[e[1] - 1].extend(lists[e[2] - 1])
            except IndexError:                           # an earlier call has changed the list (that call is where the replay stops)
                res = ['edit_failed', '']
        out.append([kind, x, res, [[proj(y) for y in l] for l in lists]])
    return out


def _fresh(job):
    """worker: each GROUP of sessions of the chunk in a process of its own, forked from this worker, which itself never
    calls pyg_base: whatever a call may leave behind in the process cannot reach the next group"""
    import pickle
    res = []
    for group in job:
        r, w = os.pipe()
        pid = os.fork()
        if pid == 0:
            code = 0
            try:
                os.close(r)
                with os.fdopen(w, 'wb') as f:
                    pickle.dump([exec_session(lists0, actions) for lists0, actions in group], f)
            except BaseException:
                code = 1
            os._exit(code)
        os.close(w)
        with os.fdopen(r, 'rb') as f:
            data = f.read()
        os.waitpid(pid, 0)
        res += pickle.loads(data) if data else [None] * len(group)
    return res


def _warm(job):
    return [exec_session(lists0, actions) for lists0, actions in job]


def _items_of(step, lists_before):
    kind, x = step[0], step[1]
    arg = x[2]
    if arg[0] == 'item':
        return [arg[1]]
    items = lists_before[arg[1] - 1]
    return [['tenor', [p for b in items for p in b[1]]]] if arg[0] == 'join' else items


def sess_clause(step, lists_before):
    items = _items_of(step, lists_before)
    if len(items) != 1:
        return 'compound_left_to_right'
    return clause_of(items[0])


def s2c_sessions(ctx, sessions, family, fresh):
    """replay TLC's histories: every step's outcome and the caller's lists afterwards == what TLC printed"""
    import pyg_base                                              # imported before the fork, never called in this process
    sessions = sorted(sessions, key=lambda x: json.dumps(x))
    jobs = [(s[1], [(e[0], e[1]) for e in s[2]]) for s in sessions]
    nproc = max(1, min(int(os.environ.get('VERIF_POOL', '8')), os.cpu_count() or 1))
    # fresh = 0: all in the worker processes, one after the other;  fresh = g > 0: groups of g sessions, each group in a process
    # of its own (g = 1: every history starts in a process that never called pyg_base); the groups are made twice, of
    # neighbours in the sorted order and of sessions far apart, so that every session meets different predecessors
    passes = [list(range(len(jobs)))]
    if fresh > 1:
        k = (len(jobs) + fresh - 1) // fresh
        passes.append([j for a in range(k) for j in range(a, len(jobs), k)])
    for order in passes:
        if fresh:
            groups = [[jobs[j] for j in order[a:a + fresh]] for a in range(0, len(order), fresh)]
            step = max(1, min(50, len(groups) // (nproc * 4) + 1))
            chunks = [groups[a:a + step] for a in range(0, len(groups), step)]
        else:
            step = max(1, min(200, len(jobs) // (nproc * 4) + 1))
            chunks = [[jobs[j] for j in order[a:a + step]] for a in range(0, len(order), step)]
        with multiprocessing.get_context('fork').Pool(nproc) as pool:
            parts = pool.map(_fresh if fresh else _warm, chunks, chunksize=1)
        got = [None] * len(jobs)
        for j, o in zip(order, [o for p in parts for o in p]):
            got[j] = o
        _judge_sessions(ctx, sessions, got, family, order is passes[0])


def _judge_sessions(ctx, sessions, got, family, first):
    for i, (s, obs) in enumerate(zip(sessions, got)):
        name, lists0, hist = s
        if obs is None:
            from harness.core import Machinery
            raise Machinery('a forked session process died: %r' % (s,))
        ctx.traces += 1
        before = lists0
        for k, (want, seen) in enumerate(zip(hist, obs)):
            if want[0] == 'call':
                ctx.evals += 1
            if seen != want:
                if want[0] != 'call':                   # the caller's own edit: nothing of pyg_base is involved
                    from harness.core import Machinery
                    raise Machinery('session driver and specification disagree on an edit: %r vs %r' % (seen, want))
                clause = 'argument_changed' if seen[2] == want[2] else sess_clause(want, before)
                c = want[1]
                case = {'op': 'dt' if c[0] == 'dt' else 'dt_bump', 'kind': 'session', 'family': family, 'scenario': name, 'step': k + 1,
                        'form': c[2][0], 'real': c[1]['real'], 'style': c[3], 'lists0': lists0,
                        'history': [[e[0], e[1]] for e in hist[:k + 1]]}
                ctx.violation(clause, case, {'expected': [want[2], want[3]], 'observed': [seen[2], seen[3]]})
                break
            before = want[3]
        ctx.note((family, name, json.dumps([[e[0], e[1][0], e[1][2]] if e[0] == 'call' else [e[0], e[1]] for e in hist])))
        if first and i % 1999 == 7:
            ctx.sample({'s2c_session_' + family: s})


def s2c_real(ctx, cases):
    """single calls: every realisation of the start x every dress of the bump == the instant TLC printed"""
    from pyg_base import dt_bump, dt
    cases = sorted(cases, key=lambda c: json.dumps(c[:2], sort_keys=True))
    for i, (op, s, bumps) in enumerate(cases):
        t = render_start(s)                              # one start object for all the bumps
        f = dt if op == 'dt' else dt_bump
        for b, dress, want in sorted(bumps, key=json.dumps):
            try:
                got = enc(f(t, render_bump(b, dress)))
            except Exception as e:
                got = ['exc', type(e).__name__]
            ctx.evals += 1
            if got != want:
                c = case_of(s['t'], b, dress)
                c.update({'op': 'dt' if op == 'dt' else 'dt_bump', 'real': s['real'], 'dress': dress, 'family': 'real'})
                ctx.violation(clause_of(b), c, {'expected': want, 'observed': got})
        ctx.note(('real', op, s['real'], s['t'][0] % 7, s['t'][1]))
        ctx.traces += 1
        if i % 211 == 0:
            ctx.sample({'s2c_real': [op, s, bumps[:3]]})


# ---- C2S, sessions: random long sessions recorded from the code, judged by Trace_Bump ----------
REALS_DAY, REALS_SEC = ('date', 'np_D', 'int', 'str_d'), ('np_s', 'str_s')
REALS_FULL = ('datetime', 'sub', 'ts', 'np_us', 'str_us', 'np_ns')
NS_LO, NS_HI = datetime.datetime(1700, 1, 1).toordinal(), datetime.datetime(2250, 1, 1).toordinal()


def rand_start(rng, clock):
    o = rng.randint(FIRST, LAST)
    if not clock:
        real = rng.choice(REALS_DAY + REALS_SEC + REALS_FULL)
        t = [o, 0, 0]
    else:
        real = rng.choice(REALS_SEC + REALS_FULL)
        t = [o, rng.choice([1, 34200, 86399, rng.randrange(86400)]), 0 if real in REALS_SEC else rng.choice([0, 1, 999999, rng.randrange(1000000)])]
    if real == 'np_ns' and not NS_LO <= o <= NS_HI:
        real = 'np_us'
    return {'real': real, 't': t}


def rand_item(rng, clock):
    q = rng.random()
    if q < 0.15:
        return ['int', rng.randint(-60, 60)]
    if q < 0.3:
        return ['td', [rng.randint(-60, 60), rng.choice([0, 1, 43200, 86399]) if clock else 0, rng.choice([0, 1, 999999]) if clock else 0]]
    units = ('b',) + FIXED if clock else ('b', 'd', 'w') + MONTH
    return ['tenor', [[rng.randint(-60, 60), rng.choice(units)] for _ in range(rng.choice((1, 1, 1, 2, 3)))]]


def rand_sessions(rng, n):
    """random actions on shared objects; month units only in sessions whose instants stay at midnight (TLC re-checks the domain)"""
    obs = []
    for _ in range(n):
        clock = rng.random() < 0.5
        starts = [rand_start(rng, clock) for _ in range(3)]
        items = [rand_item(rng, clock) for _ in range(4)]
        lists0 = [[rng.choice(items) for _ in range(rng.randint(0, 3))] for _ in range(2)]
        shadow = [len(l) for l in lists0]                # only the lengths, to keep the edits applicable
        strs = [all(b[0] == 'tenor' for b in l) for l in lists0]
        actions = []
        for step in range(rng.randint(4, 12)):
            if rng.random() < 0.6 or step == 0:
                s = rng.choice(starts)
                op = 'dt' if s['real'] in DT_FORM_OK and rng.random() < 0.4 else 'bump'
                q, i = rng.random(), rng.randint(1, 2)
                if q < 0.45:
                    arg = ['list', i]
                elif q < 0.6:
                    arg = ['splat', i]
                elif q < 0.75 and shadow[i - 1] and strs[i - 1]:
                    arg = ['join', i]
                else:
                    arg = ['item', rng.choice(items)]
                actions.append(('call', [op, s, arg, rng.choice(('l', 'u', 'm')) if arg[0] == 'join' else rng.choice(('l', 'u', 'p', 'm'))]))
            else:
                i, q = rng.randint(1, 2), rng.random()
                if q < 0.4 and shadow[i - 1] < 6:
                    b = rng.choice(items)
                    actions.append(('edit', ['append', i, b])); shadow[i - 1] += 1; strs[i - 1] = strs[i - 1] and b[0] == 'tenor'
                elif q < 0.55 and shadow[i - 1]:
                    actions.append(('edit', [rng.choice(('popfirst', 'poplast')), i])); shadow[i - 1] -= 1; strs[i - 1] = False if shadow[i - 1] else True
                elif q < 0.75 and shadow[i - 1]:
                    b = rng.choice(items)
                    actions.append(('edit', ['set', i, rng.randint(1, shadow[i - 1]), b])); strs[i - 1] = strs[i - 1] and b[0] == 'tenor'
                elif q < 0.85:
                    actions.append(('edit', ['clear', i])); shadow[i - 1] = 0; strs[i - 1] = True
                elif shadow[i - 1] + shadow[2 - i] <= 6:
                    actions.append(('edit', ['extend', i, 3 - i])); shadow[i - 1] += shadow[2 - i]; strs[i - 1] = strs[i - 1] and strs[2 - i]
        actions = [a for a in actions]
        obs.append({'k': 'sess', 'lists0': lists0, 'steps': exec_session(lists0, actions)})
    return obs


def rand_real(rng, n):
    """single calls with the start in a random realisation and the bump in a random dress"""
    obs = []
    for _ in range(n):
        clock = rng.random() < 0.6
        s = rand_start(rng, clock)
        b = rand_item(rng, clock)
        dress = rng.choice({'int': ('int', 'np_int64', 'np_int32'), 'td': ('td', 'td_sub', 'pd_td')}.get(b[0], ('l', 'u', 'p', 'm', 'str_sub', 'np_str')))
        op = 'dt' if s['real'] in DT_FORM_OK and rng.random() < 0.3 else 'bump'
        steps = exec_session([], [('call', [op, s, ['item', b], dress])])
        obs.append({'k': 'raw', 't': s['t'], 'bump': b, 'form': dress, 'real': s['real'], 'op': op, 'out': steps[0][2]})
    return obs


# ---- C2S, bulk: the real dt_bump on every start day x n x form, grouped -------------------------
def _scan(job):
    """worker: real dt_bump on every midnight start of [lo, hi) x n x every single-unit form.
    Returns {group key: [count, witness start ordinal, witness result ordinal]} and stray outcomes
    (exceptions / non-datetimes) as raw observations."""
    lo, hi, nmax, upper_every = job
    from pyg_base import dt_bump
    fo = datetime.datetime.fromordinal
    days = datetime.timedelta
    groups, stray, nstray = {}, [], 0
    strs = [(u, n, cs, part_str(n, u, cs)) for n in range(-nmax, nmax + 1) for u in UNITS for cs in ('l', 'u')
            if cs == 'l' or n % upper_every == 0]
    for o in range(lo, hi):
        t = fo(o)
        wd, y, m, d = t.weekday(), t.year, t.month, t.day
        dcls = (1, 28) if d <= 28 else (d, d)
        for u, n, cs, s in strs:
            try:
                r = dt_bump(t, s)
                ro = r.toordinal(); s1 = r.hour * 3600 + r.minute * 60 + r.second; u1 = r.microsecond
            except Exception as e:
                nstray += 1
                if len(stray) < 20:
                    stray.append({'k': 'raw', 't': [o, 0, 0], 'bump': ['tenor', [[n, u]]], 'form': cs,
                                  'out': ['exc', type(e).__name__]})
                continue
            if u == 'b':
                key = ('gb', cs, wd, n, ro - o, s1, u1)
            elif u in MULT:
                ty = y + (m + n * MULT[u] - 1) // 12
                leap = 1 if (ty % 4 == 0 and (ty % 100 != 0 or ty % 400 == 0)) else 0
                key = ('gm', cs, u, n, m, dcls[0], dcls[1], leap, r.year - y, r.month, r.day - d, s1, u1)
            else:
                key = ('gf', 'tenor', cs, u, n, ro - o, s1, u1)
            g = groups.get(key)
            if g is None:
                groups[key] = [1, o, ro]
            else:
                g[0] += 1
        for n in range(-nmax, nmax + 1):
            for form, b in (('int', n), ('td', days(n))):
                r = dt_bump(t, b)
                key = ('gf', form, 'l', 'd', n, r.toordinal() - o, r.hour * 3600 + r.minute * 60 + r.second, r.microsecond)
                g = groups.get(key)
                if g is None:
                    groups[key] = [1, o, r.toordinal()]
                else:
                    g[0] += 1
    return groups, stray, nstray


def group_obs(key, g):
    cnt, o, ro = g
    if key[0] == 'gb':
        _, cs, wd, n, dord, s1, u1 = key
        return {'k': 'gb', 'case': cs, 'wd': wd, 'n': n, 'dord': dord, 's1': s1, 'u1': u1, 'cnt': cnt, 'wit': [o, ro]}
    if key[0] == 'gf':
        _, form, cs, u, n, dord, s1, u1 = key
        return {'k': 'gf', 'form': form, 'case': cs, 'unit': u, 'n': n, 'dord': dord, 's1': s1, 'u1': u1, 'cnt': cnt, 'wit': [o, ro]}
    _, cs, u, n, m, dlo, dhi, leap, dy, m1, dd, s1, u1 = key
    return {'k': 'gm', 'case': cs, 'unit': u, 'n': n, 'm': m, 'dlo': dlo, 'dhi': dhi, 'leap': leap, 'dy': dy, 'm1': m1,
            'dd': dd, 's1': s1, 'u1': u1, 'cnt': cnt, 'wit': [o, ro]}


def bulk(ctx, ranges, nmax=60, upper_every=1):
    jobs = []
    for lo, hi in ranges:                        # cut into ~2-month jobs so that 16 processes share them
        step = 61
        jobs += [(a, min(a + step, hi), nmax, upper_every) for a in range(lo, hi, step)]
    nproc = max(1, min(16, os.cpu_count() or 1, len(jobs)))
    with multiprocessing.get_context('fork').Pool(nproc) as pool:
        parts = pool.map(_scan, jobs, chunksize=1)
    groups, stray, nstray = {}, [], 0
    for g, s, k in parts:
        nstray += k
        stray += s
        for key, v in g.items():
            w = groups.get(key)
            if w is None:
                groups[key] = list(v)
            else:
                w[0] += v[0]
                if v[1] < w[1]:
                    w[1], w[2] = v[1], v[2]
    ndays = sum(hi - lo for lo, hi in ranges)
    nupper = len([n for n in range(-nmax, nmax + 1) if n % upper_every == 0])
    total = ndays * ((2 * nmax + 1) * (len(UNITS) + 2) + nupper * len(UNITS))
    if sum(v[0] for v in groups.values()) + nstray != total:
        from harness.core import Machinery
        raise Machinery('bulk scan lost observations: %d grouped + %d stray != %d' % (sum(v[0] for v in groups.values()), nstray, total))
    obs = [group_obs(k, groups[k]) for k in sorted(groups)] + stray[:200]
    return obs, total, nstray


# ---- C2S, individual: intraday starts, timedeltas, compound tenors ------------------------------
def rand_raw(rng, n):
    obs = []
    for _ in range(n):
        o = rng.randint(FIRST, LAST)
        q = rng.random()
        tod = [0, 0] if q < 0.35 else [rng.randrange(86400), 0] if q < 0.6 else \
            [rng.choice([0, 1, 86399, rng.randrange(86400)]), rng.choice([1, 999999, rng.randrange(1000000)])]
        t = [o] + tod
        midnight = tod == [0, 0]
        q = rng.random()
        if q < 0.2:
            u = rng.choice(('b',) + FIXED)
            bump, form = ['tenor', [[rng.randint(-60, 60), u]]], rng.choice(('l', 'u', 'p', 'dt'))
        elif q < 0.3:
            bump, form = ['int', rng.randint(-60, 60)], rng.choice(('call', 'dt'))
        elif q < 0.45:
            td = datetime.timedelta(days=rng.randint(-60, 60), seconds=rng.choice([0, 1, 3600, 86399, rng.randrange(86400)]),
                                    microseconds=rng.choice([0, 0, 1, 999999, rng.randrange(1000000)]))
            bump, form = ['td', [td.days, td.seconds, td.microseconds]], rng.choice(('call', 'dt'))
        else:
            # two- and three-part tenors.  Month units only while the running instant is certainly a
            # midnight: from a midnight start and before any h/n/s part (TLC re-checks the domain).
            parts, clock = [], not midnight
            for _ in range(rng.choice((2, 2, 3))):
                u = rng.choice(('b',) + FIXED) if clock else rng.choice(UNITS)
                clock = clock or u in ('h', 'n', 's')
                parts.append([rng.randint(-60, 60), u])
            bump, form = ['tenor', parts], rng.choice(('l', 'u', 'p', 'args', 'dt', 'dtargs', 'mixed'))
        obs.append({'k': 'raw', 't': t, 'bump': bump, 'form': form, 'out': call(t, bump, form)})
    return obs


_PRINTED = []          # a few histories as TLC printed them (the outcomes are the specification's own)


def corrupted():
    """histories as the specification printed them, with one field changed: the trace specification must reject each
    (the binding is real; independent of what the library does)"""
    import copy
    out = []
    for name, lists0, hist in _PRINTED:
        o = {'k': 'sess', 'lists0': lists0, 'steps': hist}
        ks = [k for k, e in enumerate(hist) if e[0] == 'call']
        a = copy.deepcopy(o); a['steps'][ks[-1]][2][1][0] += 1                      # the last result one day later
        b = copy.deepcopy(o); b['steps'][ks[0]][3][0].append(['foreign', 'x'])      # the caller's first list grew during the first call
        out += [(a, None), (b, 'argument_changed')]
    return out


def c2s(ctx, ranges, nraw, upper_every, nsess):
    from harness.core import Machinery
    obs, total, nstray = bulk(ctx, ranges, upper_every=upper_every)
    ngroups = len(obs)
    raw = rand_raw(ctx.rng, nraw) + rand_real(ctx.rng, nraw // 2)
    sess = rand_sessions(ctx.rng, nsess)
    obs += raw + sess
    ctx.evals += total + len(raw) + sum(1 for o in sess for e in o['steps'] if e[0] == 'call')
    fake = corrupted()
    bad = ctx.validate('Trace_Bump', obs + [f for f, _ in fake])
    rejected = {i: cl for i, cl in bad if i > len(obs)}
    for j, (f, want) in enumerate(fake):
        cl = rejected.get(len(obs) + j + 1)
        if cl is None or cl in ('domain', 'unknown_kind') or (want and cl != want):
            raise Machinery('Trace_Bump accepted a corrupted session (or rejected it for the wrong reason %r): %r' % (cl, f))
    bad = [(i, cl) for i, cl in bad if i <= len(obs)]
    for i, clause in bad:
        o = obs[i - 1]
        if clause in ('domain', 'unknown_kind'):
            raise Machinery('Trace_Bump: observation %d is outside the specified domain (%s): %r' % (i, clause, o))
        if o['k'] == 'sess':
            calls = [e[1] for e in o['steps'] if e[0] == 'call']
            ctx.violation(clause, {'op': 'dt_bump', 'kind': 'session', 'family': 'c2s', 'lists0': o['lists0'],
                                   'forms': sorted({c[2][0] for c in calls}), 'reals': sorted({c[1]['real'] for c in calls}),
                                   'history': [[e[0], e[1]] for e in o['steps']]},
                          {'observed': [[e[2], e[3]] for e in o['steps']]})
        elif o['k'] == 'raw':
            c = case_of(o['t'], o['bump'], o['form'])
            if 'real' in o:
                c.update({'real': o['real'], 'dress': o['form'], 'family': 'real', 'op': 'dt' if o['op'] == 'dt' else 'dt_bump'})
            ctx.violation(clause, c, {'observed': o['out']})
        else:
            unit = o.get('unit', 'b')
            bump = ['int', o['n']] if o.get('form') == 'int' else ['td', [o['n'], 0, 0]] if o.get('form') == 'td' else ['tenor', [[o['n'], unit]]]
            case = case_of([o['wit'][0], 0, 0], bump, o['case'])
            case['group'] = {k: v for k, v in o.items() if k not in ('wit',)}
            ctx.violation(clause, case, {'observed': ['ok', [o['wit'][1], o['s1'], o['u1']]], 'calls_in_group': o['cnt']})
    # evidence: groups whose bump crosses a weekend / overflows a month, and compound observations
    for o in obs[:ngroups]:
        if (o['k'] == 'gb' and o['dord'] != o['n']) or (o['k'] == 'gm' and (o['dd'] != 0 or o['dy'] != 0)):
            ctx.note((o['k'], o.get('unit', 'b'), o['n'], o.get('wd', o.get('m')), o.get('dlo', 0), o.get('leap', 0), o['case']))
    for o in raw:
        if (o['bump'][0] == 'tenor' and len(o['bump'][1]) > 1) or o.get('real', 'datetime') != 'datetime':
            ctx.note(('raw', repr(o['t']), repr(o['bump']), o.get('real', '')))
    for o in sess:
        ctx.note(('sess', json.dumps(o['lists0']), json.dumps([[e[0], e[1]] for e in o['steps']])))
    ctx.sample({'c2s_session': sess[len(sess) // 2]})
    ctx.sample({'c2s_group': obs[ngroups // 2]})
    ctx.sample({'c2s_raw': raw[len(raw) // 2]})
    ctx.extra['c2s_sessions'] = {'sessions': len(sess), 'steps': sum(len(o['steps']) for o in sess), 'corrupted_copies_rejected': len(fake)}
    ctx.extra['c2s_bulk'] = {'calls': total, 'groups': ngroups, 'stray': nstray, 'days': sum(hi - lo for lo, hi in ranges)}


def year_range(y0, y1):
    return (datetime.datetime(y0, 1, 1).toordinal(), datetime.datetime(y1, 12, 31).toordinal() + 1)


def sessions(ctx):
    """the session machine (spec/BumpSession.tla, MC_BumpSession.tla): its clauses, the mechanism variants that must break
    them, and the S2C replay of its histories on shared objects"""
    from harness.core import Machinery
    for cfg, clause in (('queue', 'ArgumentsUntouched'), ('memo', 'NoMemory'), ('asis', 'RealisationIrrelevant')):
        ctx.mc('MC_BumpSession', 'MC_BumpSession_%s.cfg' % cfg, must_fail=clause, coverage=False)
    if not ctx.quick:
        # (-coverage exhausts the heap on the recursive operators; that every action is taken is checked on the printed histories below)
        ctx.mc('MC_BumpSession', 'MC_BumpSession_thorough.cfg', coverage=False)
    # the generator runs check every clause on every history they print
    # "collide": groups of 16 histories per fresh process (quick); thorough: every history of the quick universe in a process of
    # its own, the larger universe in groups of 16
    s2c_sessions(ctx, ctx.generate('MC_BumpSession', 'MC_BumpSession_genc.cfg'), 'collide', 16 if ctx.quick else 1)
    if not ctx.quick:
        s2c_sessions(ctx, ctx.generate('MC_BumpSession', 'MC_BumpSession_genct.cfg'), 'collide', 16)
    probe = ctx.generate('MC_BumpSession', 'MC_BumpSession_gen.cfg' if ctx.quick else 'MC_BumpSession_gent.cfg')
    _PRINTED[:] = sorted(probe, key=json.dumps)[::max(1, len(probe) // 4)][:4]
    kinds = {e[1][2][0] if e[0] == 'call' else e[1][0] for h in probe for e in h[2]} | {e[1][0] for h in probe for e in h[2] if e[0] == 'call'}
    missing = {'list', 'splat', 'join', 'item', 'bump', 'dt', 'append', 'popfirst', 'poplast', 'set', 'clear', 'extend'} - kinds
    if missing:
        raise Machinery('vacuous: the session machine never took the actions %s' % sorted(missing))
    s2c_sessions(ctx, probe, 'probe', 0)
    if not ctx.quick:
        s2c_sessions(ctx, ctx.generate('MC_BumpSession', 'MC_BumpSession_genf.cfg'), 'free', 0)
        sim = ctx.generate('MC_BumpSession', 'MC_BumpSession_sim.cfg', simulate=400, depth=9, seed=ctx.seed + 9, workers=1)
        s2c_sessions(ctx, sim, 'sim', 0)
        s2c_sessions(ctx, sim[:320], 'sim_fresh', 1)
    s2c_real(ctx, ctx.generate('MC_BumpSession', 'MC_BumpSession_genr.cfg'))


def run(ctx):
    ctx.rule = ('MC: laws of the statement on Bump.tla (closed weekday formula = unit steps = counting, weekday landing, '
                'monotone, same-sign composition, round trips, fixed units exact, month law = overflow constructor). '
                'S2C: every (start day, n, unit/int/timedelta) of a TLC-enumerated window and every compound tenor of the menu, '
                'each in two spellings, == the instant TLC printed. C2S: real dt_bump on every midnight start of the scanned years '
                'x n in -60..60 x 9 unit letters in both cases + int + timedelta, grouped by the abstraction the spec factors '
                'through and validated group by group (with a recomputed witness) by Trace_Bump; random intraday / timedelta / '
                'compound calls validated one by one. Non-trivial = the bump crosses a weekend (days moved != n), overflows a '
                'month or changes the year, or is a compound tenor; distinct by abstract key. '
                'SESSIONS (BumpSession.tla / MC_BumpSession): a caller owns start objects (datetime, subclass, Timestamp, date, '
                'numpy datetime64 D/s/us/ns, yyyymmdd int, ISO strings) and lists of bumps; one action per public call (dt_bump / dt '
                'with the list itself, its elements as arguments, its strings concatenated, a literal bump) and the caller\'s own '
                'edits between calls; clauses ArgumentsUntouched, ResultIsLaw, NoMemory, SpellingIrrelevant, RealisationIrrelevant, '
                'ListIsCompound on every history, mechanism variants queue / memo / asis must each violate one. S2C: every printed '
                'history replayed on shared objects (collide histories A;B;A in fresh processes), each step\'s result and the caller\'s '
                'lists afterwards == what TLC printed (clauses of the statement, argument_changed); single calls over every '
                'realisation of start and bump. C2S: random sessions of 4-12 actions folded by Trace_Bump (SessVerdict); corrupted '
                'copies of printed histories must be rejected.')
    # one action only (Next: the next start day of the block): -coverage would triple the cost for nothing;
    # that the action is taken is checked directly
    r = ctx.mc('MC_Bump', 'MC_Bump_quick.cfg' if ctx.quick else 'MC_Bump_thorough.cfg', coverage=False)
    if r.distinct < 300 * 121:
        from harness.core import Machinery
        raise Machinery('MC_Bump walked only %d states: the day-by-day action Next was not taken' % r.distinct)
    sessions(ctx)                # first: the processes the histories are replayed in are forked before this one ever calls pyg_base
    s2c_units(ctx, ctx.generate('MC_Bump', 'MC_Bump_genU.cfg' if ctx.quick else 'MC_Bump_genU2.cfg'))
    s2c_compound(ctx, ctx.generate('MC_Bump', 'MC_Bump_genC.cfg' if ctx.quick else 'MC_Bump_genC2.cfg'))
    if ctx.quick:
        c2s(ctx, [year_range(1999, 2001), year_range(2099, 2101)], 10000, 3, 1000)     # upper-case letters for every third n
    else:
        c2s(ctx, [(FIRST, LAST + 1)], 200000, 2, 12000)               # upper-case letters for every second n
    ctx.exhaustive = False
    ctx.assumptions += [
        'bulk C2S observations are grouped before TLC sees them: business days by (weekday, n, days moved, time of day of the result), '
        'fixed units / ints / timedelta(days) by (form, unit, n, days moved, time of day), month units by (unit, n, month, day-of-month '
        'class 1..28 | 29 | 30 | 31, leap-ness of the target year, years moved, month, day - start day, time of day); the grouping function '
        '(props/c09.py _scan: datetime field accessors, integer subtraction, the leap-year test) is trusted, each group carries its '
        'multiplicity and one concrete witness that TLC recomputes in full; MC_Bump proves that the specification factors through these '
        'abstractions (PeriodicB, MonthShapeIsLaw)',
        'month / quarter / year units are exercised from midnight only (in compound tenors: only while the running instant is a midnight); '
        'the law "monotone in t" is read on the date: the time of day is carried along, so two instants of one weekend may swap '
        '(the statement itself fixes the roll to Monday)',
        'sessions: the caller\'s lists after a call are projected through the table of the objects the session rendered (identity, else '
        'equal value of the same type; anything else is "foreign"); bumps come as lists (the as_list spelling), never as tuples / several '
        'lists (dt_bump raises TypeError for those today: outside the statement); numpy.timedelta64 bumps, numpy-integer yyyymmdd starts '
        'and bool bumps are not exercised (the first two raise today); np_ns starts only 1700-2250 (int64 nanoseconds); quick replays '
        'the collide histories in groups of 16 per fresh process (two groupings), thorough one process per history',
        'model-checking verdicts hold for n in -60..60 and the years listed in the cfg; quick C2S scans 1999-2001 and 2099-2101, thorough the whole '
        'cycle 1900-2299; dt(bump) relative to today, time zones and the named tenors spot/on/tn/sn are not exercised',
    ]


def replay(ctx, body):
    """./check C09 --replay <file>: re-execute one recorded failing call and let Trace_Bump judge it again"""
    c = body['case']
    if c.get('kind') == 'session':                       # a recorded history: run it again on fresh shared objects
        o = {'k': 'sess', 'lists0': c['lists0'], 'steps': exec_session(c['lists0'], [(e[0], e[1]) for e in c['history']])}
        bad = ctx.validate('Trace_Bump', [o])
        print('replay C09: session %s -> %s : %s' % (json.dumps(c['history'])[:300], json.dumps([e[2:] for e in o['steps']])[:300],
                                                     'VIOLATES ' + bad[0][1] if bad else 'explained by the specification'))
        import shutil
        shutil.rmtree(ctx.tmp, ignore_errors=True)
        return 1 if bad else 0
    form = c['form'] if c['form'] in ('l', 'u', 'p', 'args', 'dt', 'dtargs', 'mixed', 'call') else 'l'
    bump = [c['kind'], c['bump']]
    if 'real' in c:                                      # a start realisation / bump dress
        st = exec_session([], [('call', ['dt' if c['op'] == 'dt' else 'bump', {'real': c['real'], 't': c['t']}, ['item', bump], c['dress']])])
        o = {'k': 'raw', 't': c['t'], 'bump': bump, 'form': c['dress'], 'real': c['real'], 'out': st[0][2]}
    else:
        o = {'k': 'raw', 't': c['t'], 'bump': bump, 'form': form, 'out': call(c['t'], bump, form)}
    bad = ctx.validate('Trace_Bump', [o])
    print('replay C09: dt_bump(%s, %r) [%s] -> %s : %s' % (inst(c['t']), c.get('tenor', c['bump']), form, o['out'],
                                                          'VIOLATES ' + bad[0][1] if bad else 'explained by the specification'))
    import shutil
    shutil.rmtree(ctx.tmp, ignore_errors=True)
    return 1 if bad else 0
