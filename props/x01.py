"""X01 - trading sessions and clocks of pyg_base._drange (extension of the specification).

X01-a  an instant is in trading <=> it lies in the closed session of a business day; trade_date is the
       first session that has not closed ('f') / the last that has opened ('p'); however the bounds are spelled.
X01-b  on one calendar object, under any history of table-building calls, changes of the default bounds and
       in-place edits, session queries answer from the current configuration alone and change nothing.
X01-c  clocks never decrease and advance by their unit.

Python here only renders abstract inputs (ordinals, seconds, holiday lists, spellings) into real objects,
calls the public API and encodes what came back.  Every expectation is printed by TLC (MC_Sessions,
MC_SessionsObj, MC_SessionsClock generators) or decided by TLC (Trace_Sessions)."""
import copy, datetime, signal
import numpy as np
import pandas as pd

from harness.core import Machinery

JVM = {'JAVA_TOOL_OPTIONS': '-Xss32m'}
CPU_LIMIT = 3.0
PER_SIG = 25
MAX_HUNG = 20
_sig = {}
_hung = [0]
MS_DAY = 86400000


def record(ctx, clause, case, detail):
    if isinstance(detail, dict) and isinstance(detail.get('observed'), dict) and detail['observed'].get('cls') == 'DidNotTerminate':
        _hung[0] += 1
    k = (clause, case.get('op'))
    _sig[k] = _sig.get(k, 0) + 1
    if _sig[k] <= PER_SIG:
        ctx.violation(clause, case, detail)
    else:
        ctx.extra['further_violations_not_listed'] = ctx.extra.get('further_violations_not_listed', 0) + 1


def settled():
    return _hung[0] >= MAX_HUNG


class _Timeout(BaseException):
    pass


def _alarm(signum, frame):
    raise _Timeout()


def guarded(f):
    """one public call under a CPU-time watchdog; returns the encoded outcome"""
    signal.setitimer(signal.ITIMER_VIRTUAL, CPU_LIMIT)
    try:
        return enc(f())
    except Machinery:
        raise
    except _Timeout:
        return {'kind': 'exc', 'cls': 'DidNotTerminate'}
    except Exception as e:
        return {'kind': 'exc', 'cls': type(e).__name__}
    finally:
        signal.setitimer(signal.ITIMER_VIRTUAL, 0)


# ---- rendering ---------------------------------------------------------------------------------------
def D(o):
    return datetime.datetime.fromordinal(o)


def instant(d, s, us=0, form=0):
    t = D(d) + datetime.timedelta(seconds=s, microseconds=us)
    return pd.Timestamp(t) if form % 3 == 2 else t


def _midnight(x):
    return isinstance(x, datetime.datetime) and x.tzinfo is None and (x.hour, x.minute, x.second, x.microsecond) == (0, 0, 0, 0)


def enc(x):
    """concrete result -> sequence of integers (the spec's answer format), or a description of what it is instead"""
    if isinstance(x, (bool, np.bool_)):
        return {'kind': 'val', 'v': [1 if x else 0]}
    if isinstance(x, (int, np.integer)):
        return {'kind': 'val', 'v': [int(x)]}
    if _midnight(x):
        return {'kind': 'val', 'v': [x.toordinal()]}
    if isinstance(x, datetime.time) and x.microsecond == 0 and x.tzinfo is None:
        return {'kind': 'val', 'v': [x.hour * 3600 + x.minute * 60 + x.second]}
    if isinstance(x, (list, np.ndarray)) and all(isinstance(b, (bool, np.bool_)) for b in x):
        return {'kind': 'val', 'v': [1 if b else 0 for b in x]}
    if x is None:
        return {'kind': 'val', 'v': []}
    return {'kind': 'other', 'repr': repr(x)[:120], 'type': type(x).__name__}


def kept_flags(res, n):
    """which of the n rows (numbered 0..n-1 by their values) a filtered series kept, as booleans"""
    kept = [int(v) for v in res.values]
    return [i in kept for i in range(n)]


def spell(x, hms, ints, k):
    """one of the documented spellings of second x of the day (TLC says which integers spell it)"""
    h, m, s = hms
    forms = [lambda: datetime.time(h, m, s), lambda: '%d:%02d:%02d' % (h, m, s), lambda: '%02d:%02d:%02d' % (h, m, s),
             lambda: datetime.datetime(2001, 2, 3, h, m, s)]
    if s == 0:
        forms += [lambda: '%d:%02d' % (h, m), lambda: '%02d:%02d' % (h, m)]
    for n in ints:
        forms += [lambda n=n: n, lambda n=n: str(n)]
        if n < 10:
            forms.append(lambda n=n: '0%d' % n)
    return forms[k % len(forms)]()


def spell_free(x, rng):
    """a spelling of second x that needs no table of integers: colon strings, time and datetime objects;
    integers / digit strings only where the hour is written (hhmm, hhmmss with hh >= 1) or the time is a whole hour"""
    h, m, s = x // 3600, (x % 3600) // 60, x % 60
    forms = [datetime.time(h, m, s), '%d:%02d:%02d' % (h, m, s), datetime.datetime(1999, 12, 31, h, m, s)]
    if s == 0:
        forms.append('%02d:%02d' % (h, m))
    if h >= 1:
        forms += [h * 10000 + m * 100 + s, str(h * 10000 + m * 100 + s)]
        if s == 0:
            forms += [h * 100 + m, str(h * 100 + m)]
    if m == 0 and s == 0:
        forms += [h, str(h)]
    return rng.choice(forms)


ADJ = {'f': ['f', 'F', 'following', 'f'], 'p': ['p', 'P', 'previous', 'p']}


class Registry(object):
    n = 0

    def __init__(self):
        Registry.n += 1
        self.prefix = 'verif-x01-%d-' % Registry.n
        self.used = set()

    def key(self, k):
        self.used.add(self.prefix + str(k))
        return self.prefix + str(k)

    def clean(self):
        from pyg_base._drange import calendars
        for k in self.used:
            calendars.pop(k, None)


def make(cfg, key, how):
    from pyg_base import Calendar, calendar
    hol = [D(o) for o in cfg['hol']]
    wk = list(cfg['wk'])
    if how == 'registry' and cfg['adj'] == 'm':
        calendar(key, hol, wk, D(cfg['lo']), D(cfg['hi']))
        return calendar(key)
    cal = Calendar(key, hol, wk, D(cfg['lo']), D(cfg['hi']), cfg['adj'])
    if how == 'object':
        calendar(cal)
        return calendar(key)
    return cal


def config_of(cal):
    """what the object says its holidays and weekend are"""
    try:
        return ({'kind': 'val', 'v': sorted(d.toordinal() for d in cal['holidays'])}, {'kind': 'val', 'v': sorted(int(w) for w in cal['weekend'])})
    except Exception as e:
        return ({'kind': 'exc', 'cls': type(e).__name__},) * 2


def defaults_of():
    from pyg_base import _drange
    try:
        a, b = _drange._day_start(), _drange._day_end()
        return {'kind': 'val', 'v': [a.hour * 3600 + a.minute * 60 + a.second, b.hour * 3600 + b.minute * 60 + b.second]}
    except Exception as e:
        return {'kind': 'exc', 'cls': type(e).__name__}


# ---- S2C 1: sessions enumerated by TLC ----------------------------------------------------------------
def s2c_sessions(ctx, lines):
    k = 0
    for line in lines:
        if settled():
            ctx.assumptions.append('session replay stopped early: %d calls did not terminate' % _hung[0])
            return
        cfg, d = line['cfg'], line['d']
        reg = Registry()
        try:
            how = ('class', 'registry', 'object')[k % 3]
            try:
                cal = make(cfg, reg.key('s'), how)
            except Exception as e:
                record(ctx, 'construct', {'op': 'construct', 'kind': 's2c', 'how': how, 'cfg': cfg}, {'observed': type(e).__name__})
                continue
            base = {'kind': 's2c', 'overnight': bool(line['on']), 'ds': line['ds']['x'], 'de': line['de']['x'], 'd': d, 'cfg': cfg, 'how': how}
            ts = []
            for j, c in enumerate(line['cases']):
                s = c['s']
                t = instant(d, s, (k * 7919 + j * 104729) % 1000000 if (k + j) % 2 else 0, k + j)
                ts.append(t)
                a = spell(line['ds']['x'], line['ds']['hms'], line['ds']['ints'], k + j)
                b = spell(line['de']['x'], line['de']['hms'], line['de']['ints'], k + 3 * j + 1)
                for adj, want, off in (('f', c['f'], c['xf']), ('p', c['p'], c['xp'])):
                    word = ADJ[adj][(k + j) % 4]
                    if (k + j) % 2:
                        got = guarded(lambda: cal.trade_date(t, word, a, b))
                    else:
                        got = guarded(lambda: cal.trade_date(date=t, adj=word, day_start=a, day_end=b))
                    ctx.evals += 1
                    if got != {'kind': 'val', 'v': [want]}:
                        record(ctx, 'trade_date_on_overnight_bound' if off else 'trade_date',
                               dict(base, op='trade_date', adj=adj, s=s, where=c['w'], day_start=repr(a), day_end=repr(b)),
                               {'expected': [want], 'observed': got, 'instant': str(t)})
                got = guarded(lambda: cal.is_trading(t, a, b) if j % 2 else cal.is_trading(date=t, day_start=a, day_end=b))
                ctx.evals += 1
                if got != {'kind': 'val', 'v': [c['tr']]}:
                    record(ctx, 'is_trading', dict(base, op='is_trading', s=s, where=c['w'], day_start=repr(a), day_end=repr(b)),
                           {'expected': [c['tr']], 'observed': got, 'instant': str(t)})
            # the vectorised paths: mask on a list / on a series, filter on a series
            a = spell(line['ds']['x'], line['ds']['hms'], line['ds']['ints'], k)
            b = spell(line['de']['x'], line['de']['hms'], line['de']['ints'], k + 1)
            want = [c['tr'] for c in line['cases']]
            order = sorted(range(len(ts)), key=lambda i: line['cases'][i]['s'])
            if k % 3 == 0:
                got = guarded(lambda: cal.mask(ts, a, b))
            elif k % 3 == 1:
                got = guarded(lambda: cal.mask(pd.Series(range(len(ts)), [ts[i] for i in order]), day_start=a, day_end=b))
                want = [want[i] for i in order]
            else:
                got = guarded(lambda: kept_flags(cal.filter(pd.Series(range(len(ts)), [ts[i] for i in order]), a, b), len(ts)))
                want = [want[i] for i in order]
            ctx.evals += 1
            if got != {'kind': 'val', 'v': want}:
                record(ctx, 'mask', dict(base, op='mask', form=('list', 'series', 'filter')[k % 3], day_start=repr(a), day_end=repr(b)),
                       {'expected': want, 'observed': got})
            hol, wk = config_of(cal)
            if hol != {'kind': 'val', 'v': cfg['hol']} or wk != {'kind': 'val', 'v': cfg['wk']} or 'dt2int' in cal:
                record(ctx, 'operand_changed', dict(base, op='config'), {'expected': [cfg['hol'], cfg['wk']], 'observed': [hol, wk], 'table_built': 'dt2int' in cal})
        finally:
            reg.clean()
        if cfg['hol'] and (line['on'] or line['ds']['x'] > 0):
            ctx.note(('sess', tuple(cfg['hol']), tuple(cfg['wk']), line['ds']['x'], line['de']['x'], d))
        if k % 397 == 0:
            ctx.sample({'s2c_session': {'cfg': cfg, 'ds': line['ds'], 'de': line['de'], 'd': d, 'cases': line['cases'][:4]}})
        ctx.traces += 1
        k += 1


# ---- S2C 2 / C2S: histories on one calendar object ------------------------------------------------------
class Defaults(object):
    """the module's default session bounds (pyg_base._drange.cfg, what a PYG_CFG file would have set), restored on exit"""

    def __enter__(self):
        from pyg_base import _drange
        self.cfg = _drange.cfg
        self.saved = dict(self.cfg)
        return self

    def set(self, ds, de):
        self.cfg['day_start'] = ds
        self.cfg['day_end'] = de

    def reset(self):
        self.cfg.pop('day_start', None)
        self.cfg.pop('day_end', None)

    def __exit__(self, *a):
        self.cfg.clear()
        self.cfg.update(self.saved)


def ask(cal, q, k, sp):
    """one query of the session vocabulary through the public API; sp(x, k) spells a second of the day"""
    t = instant(q['d'], q['s'], (k * 7919) % 1000000 if k % 2 else 0, k)
    kw = {}
    if q['ex'] in (1, 2):
        kw['day_start'] = sp(q['ds'], k)
    if q['ex'] in (1, 3):
        kw['day_end'] = sp(q['de'], k + 1)
    if q['op'] == 'trade_date':
        word = ADJ[q['a']][k % 4]
        return guarded(lambda: cal.trade_date(t, word, **kw))
    if q['op'] == 'is_trading':
        return guarded(lambda: cal.is_trading(t, **kw))
    if q['op'] == 'mask':
        ts = [instant(q['d'] + i, q['s'], 0, k + i) for i in (-1, 0, 1)]
        if k % 3 == 0:
            return guarded(lambda: cal.mask(ts, **kw))
        if k % 3 == 1:
            return guarded(lambda: cal.mask(pd.Series([1., 2., 3.], ts), **kw))
        return guarded(lambda: kept_flags(cal.filter(pd.Series([0, 1, 2], ts), **kw), 3))
    raise Machinery('unknown query %r' % (q,))


def do_event(cal, ev, k, dfl, sp, span):
    op = ev['op']
    if op == 'SetDefaults':
        if (ev['ds'], ev['de']) == (0, 86399) and k % 2:
            return guarded(dfl.reset)              # the whole day is also what an unset default means
        return guarded(lambda: dfl.set(sp(ev['ds'], k), sp(ev['de'], k + 1)))
    if op == 'EditHolidays':
        hol = [D(o) for o in ev['hol']]
        if k % 2:
            return guarded(lambda: cal.__setitem__('holidays', dict(zip(hol, hol))))
        return guarded(lambda: setattr(cal, 'holidays', dict(zip(hol, hol))))
    if op == 'EditWeekend':
        return guarded(lambda: cal.__setitem__('weekend', list(ev['wk'])))
    if op == 'BuildTable':
        lo, hi = span
        mid = (lo + hi) // 2
        f = [lambda: cal.bdays(D(lo + 2), D(hi - 2)), lambda: cal.clock(D(mid)), lambda: cal.drange(D(mid), D(mid + 3), '1b')][k % 3]
        guarded(lambda: (f(), None)[1])       # what the table query answers is property C05's business (a stale table may even raise)
        if 'dt2int' not in cal:
            raise Machinery('the table query did not build the table: the history would not be the one the specification stepped')
        return {'kind': 'val', 'v': []}
    if op == 'Ask':
        return ask(cal, ev['q'], k, sp)
    if op == 'Config':
        hol, wk = config_of(cal)
        return {'hol': hol, 'wk': wk, 'defs': defaults_of()}
    raise Machinery('unknown event %r' % (ev,))


def spell_plain(x, k):
    h, m, s = x // 3600, (x % 3600) // 60, x % 60
    forms = [datetime.time(h, m, s), '%d:%02d:%02d' % (h, m, s)]
    if h >= 1:
        forms += [h * 10000 + m * 100 + s, str(h * 10000 + m * 100 + s)]
        if s == 0:
            forms += [h * 100 + m]
    if m == 0 and s == 0:
        forms += [h]
    return forms[k % len(forms)]


_reported = set()


def s2c_histories(ctx, emitted):
    seen = set()
    k = 0
    for e in emitted:
        hist = e['hist']
        if repr(hist) in seen:
            continue
        seen.add(repr(hist))
        if settled():
            return
        new = hist[0]
        cfg = {f: new[f] for f in ('hol', 'wk', 'adj', 'lo', 'hi')}
        reg = Registry()
        with Defaults() as dfl:
            dfl.reset()
            try:
                cal = make(cfg, reg.key('h'), ('class', 'object')[k % 2])
                for i, ev in enumerate(hist[1:], 1):
                    got = do_event(cal, ev, k + i, dfl, spell_plain, (cfg['lo'], cfg['hi']))
                    ctx.evals += 1
                    if ev['op'] == 'Ask':
                        if got != {'kind': 'val', 'v': ev['want']}:
                            ops = [x['op'] for x in hist[1:i + 1]]
                            case = {'op': ev['q']['op'], 'kind': 'history', 'step': i, 'ops': ops, 'adj': ev['q']['a'], 'where': ev['w'],
                                    'explicit_bounds': ev['q']['ex'], 'after_build': 'BuildTable' in ops[:-1],
                                    'after_edit': any(o.startswith('Edit') for o in ops[:-1]), 'history': hist[:i + 1]}
                            if repr(case['history']) not in _reported:
                                _reported.add(repr(case['history']))
                                record(ctx, 'trade_date_on_overnight_bound' if ev['x'] else 'history_' + ev['q']['op'], case,
                                       {'expected': ev['want'], 'observed': got})
                    elif got.get('kind') != 'val':
                        record(ctx, 'history_' + ev['op'], {'op': ev['op'], 'kind': 'history', 'step': i, 'history': hist[:i + 1]}, {'observed': got})
                        break
            finally:
                reg.clean()
        ops = [ev['op'] for ev in hist]
        if 'BuildTable' in ops and any(o.startswith('Edit') for o in ops) and ops.index('BuildTable') < len(ops) - 1:
            ctx.note(('hist', repr(hist)))
        if k % 499 == 0:
            ctx.sample({'s2c_history': hist})
        ctx.traces += 1
        k += 1


# ---- S2C 3: clock runs enumerated by TLC -----------------------------------------------------------------
def enc_reading(x):
    """a clock reading -> [whole units, thousandths of a second of the day] (fixed point; readings are floats or ints)"""
    if isinstance(x, (int, np.integer)):
        return [int(x), 0]
    if isinstance(x, (float, np.floating)) and np.isfinite(x):
        w = int(np.floor(x))
        ms = int(round((float(x) - w) * MS_DAY))
        return [w + 1, 0] if ms >= MS_DAY else [w, ms]
    return None


def pdiff(a, b):
    w, ms = a[0] - b[0], a[1] - b[1]
    return [w - 1, ms + MS_DAY] if ms < 0 else [w, ms]


def read_clock(kind, pts, hol, lo, hi, k=0):
    """clock(ts, kind) on the run; the business-day kinds read the default calendar, registered for the call"""
    from pyg_base import clock, calendar
    from pyg_base._drange import calendars
    idx = [instant(d, s, 0, 0) for d, s in pts]
    ts = pd.Series(np.arange(len(idx)) * 1., idx)
    saved = calendars.get(None)
    try:
        if kind in 'bk':
            calendar(None, [D(o) for o in hol], None, D(lo), D(hi))
        time = {'f': ['f', 'fraction'], 'd': ['d', 'day'], 'w': ['w', 'week'], 'm': ['m', 'month'], 'q': ['q', 'quarter'],
                'y': ['y', 'Year'], 'b': ['b', 'bday'], 'k': ['k']}[kind]
        signal.setitimer(signal.ITIMER_VIRTUAL, 4 * CPU_LIMIT)
        try:
            res = clock(ts, time[k % len(time)])
            out = [enc_reading(x) for x in list(res)]
            if len(out) != len(pts) or any(o is None for o in out):
                return {'kind': 'other', 'repr': repr(res)[:120]}
            return {'kind': 'val', 'v': out}
        except _Timeout:
            return {'kind': 'exc', 'cls': 'DidNotTerminate'}
        except Exception as e:
            return {'kind': 'exc', 'cls': type(e).__name__}
        finally:
            signal.setitimer(signal.ITIMER_VIRTUAL, 0)
    finally:
        if saved is None:
            calendars.pop(None, None)
        else:
            calendars[None] = saved


def s2c_clocks(ctx, lines):
    for k, line in enumerate(lines):
        pts = line['pts']
        base = {'kind': 's2c', 'hol': line['hol'], 'first': pts[0], 'n': len(pts), 'first_is_business': bool(line['first']),
                'month_end_stretch': any(line['koff'])}
        for kind in 'fdwmqybk':
            if kind in 'bk' and not line['first']:
                continue
            got = read_clock(kind, pts, line['hol'], line['lo'], line['hi'], k)
            ctx.evals += 1
            case = dict(base, op='clock', clock=kind)
            if got['kind'] != 'val':
                record(ctx, 'clock_call', case, {'observed': got})
                continue
            diffs = [pdiff(r, got['v'][0]) for r in got['v']]
            if kind in 'fk':
                ok = diffs == line[kind]
            elif kind == 'w':
                ok = any(diffs == [[x, 0] for x in w] for w in line['w'])
            elif kind == 'b':
                ok = all(dv[1] == 0 and dv[0] in w for dv, w in zip(diffs, line['b'])) and all(a <= b for a, b in zip(diffs, diffs[1:]))
            else:
                ok = diffs == [[x, 0] for x in line[kind]]
            if not ok:
                bad = [i for i in range(len(pts)) if (kind in 'fk' and diffs[i] != line[kind][i])][:3]
                clause = 'clock_k_month_end' if (kind == 'k' and base['month_end_stretch']) else 'clock_units'
                record(ctx, clause, case, {'expected_differences': line[kind] if kind != 'w' else 'one of 7 phases', 'observed_differences': diffs[:12],
                                           'first_bad_positions': bad, 'points': pts[:12]})
        if line['hol']:
            ctx.note(('clock', tuple(line['hol']), tuple(pts[0])))
        if k % 40 == 0:
            ctx.sample({'s2c_clock_run': {'hol': line['hol'], 'pts': pts[:6], 'm': line['m'][:6], 'k': line['k'][:6]}})
        ctx.traces += 1


# ---- C2S -------------------------------------------------------------------------------------------------
WEEKENDS = [[5, 6], [4, 5], [6], []]
MARGIN = 40


def rand_calendar(rng):
    lo = datetime.date(rng.randrange(1990, 2035), rng.randrange(1, 13), rng.randrange(1, 29)).toordinal()
    hi = lo + rng.choice([200, 240, 366])
    a, b = lo + MARGIN, hi - MARGIN
    density = rng.choice([0.0, 0.03, 0.1, 0.2, 0.35])
    hol = set()
    while len(hol) < density * (b - a + 1):
        s = rng.randrange(a, b + 1)
        run = rng.choice([1, 1, 1, 2, 2, 3, 5, 8])
        hol.update(x for x in range(s, s + run) if a <= x <= b)
    return {'hol': sorted(hol), 'wk': rng.choice(WEEKENDS), 'adj': rng.choice(['f', 'p', 'm']), 'lo': lo, 'hi': hi}


def rand_session(rng):
    r = rng.random()
    ds = rng.choice([0, 1, 8 * 3600, 9 * 3600 + 30 * 60, 81000, 86399, rng.randrange(86400), rng.randrange(86400)])
    if r < 0.1:
        return ds, ds
    if r < 0.2:
        return ds, (ds - 1) % 86400          # the gap is one second wide (or the session covers the day but one second)
    de = rng.choice([0, 46800, 17 * 3600, 86399, rng.randrange(86400), rng.randrange(86400)])
    return ds, de


def c2s_sessions(ctx, ncal, nobs):
    rng = ctx.rng
    obs = []
    for i in range(ncal):
        cfg = rand_calendar(rng)
        ds, de = rand_session(rng)
        a, b = cfg['lo'] + MARGIN, cfg['hi'] - MARGIN
        pts = set()
        while len(pts) < nobs:
            r = rng.random()
            d = min(b, max(a, rng.choice(cfg['hol']) + rng.randrange(-2, 3))) if (r < 0.4 and cfg['hol']) else rng.randrange(a, b + 1)
            s = rng.choice([ds, de, ds - 1, ds + 1, de - 1, de + 1, 0, 86399, rng.randrange(86400), rng.randrange(86400)]) % 86400
            pts.add((d, s))
        reg = Registry()
        rows = []
        try:
            cal = make(cfg, reg.key('c'), rng.choice(['class', 'registry', 'object']))
            for d, s in sorted(pts):
                us = rng.choice([0, 0, 1, 500000, 999999])
                t = instant(d, s, us, rng.randrange(3))
                x, y = spell_free(ds, rng), spell_free(de, rng)
                rows.append({'d': d, 's': s, 'us': us,
                             'f': guarded(lambda: cal.trade_date(t, 'f', x, y)),
                             'p': guarded(lambda: cal.trade_date(t, 'p', day_start=x, day_end=y)),
                             'tr': guarded(lambda: cal.is_trading(t, x, y))})
                ctx.evals += 3
        finally:
            reg.clean()
        obs.append({'k': 'sess', 'cfg': cfg, 'ds': ds, 'de': de, 'obs': rows})
        if settled():
            break
    return obs


def c2s_histories(ctx, nhist, nev):
    rng = ctx.rng
    obs = []
    sess_menu = [(0, 86399), (8 * 3600, 17 * 3600), (81000, 46800), (46800, 46800)]
    for i in range(nhist):
        cfg = rand_calendar(rng)
        cfg['adj'] = 'm'
        a, b = cfg['lo'] + MARGIN, cfg['hi'] - MARGIN
        events = []
        reg = Registry()
        with Defaults() as dfl:
            dfl.reset()
            try:
                cal = make(cfg, reg.key('g'), rng.choice(['class', 'object']))
                hol = list(cfg['hol'])
                for j in range(nev):
                    r = rng.random()
                    if r < 0.08:
                        ds, de = rng.choice(sess_menu + [rand_session(rng)])
                        ev = {'op': 'SetDefaults', 'ds': ds, 'de': de}
                    elif r < 0.18:
                        hol = sorted(set(hol) ^ set(rng.randrange(a, b + 1) for _ in range(rng.choice([1, 2, 6]))))
                        ev = {'op': 'EditHolidays', 'hol': hol}
                    elif r < 0.22:
                        ev = {'op': 'EditWeekend', 'wk': rng.choice(WEEKENDS)}
                    elif r < 0.30:
                        ev = {'op': 'BuildTable'}
                    else:
                        ds, de = rng.choice(sess_menu + [rand_session(rng)])
                        d = min(b, max(a, rng.choice(hol) + rng.randrange(-2, 3))) if (hol and rng.random() < 0.5) else rng.randrange(a, b + 1)
                        s = rng.choice([ds, de, de + 1, ds - 1, 0, 43200, rng.randrange(86400)]) % 86400
                        op = rng.choice(['trade_date', 'trade_date', 'is_trading', 'mask'])
                        ev = {'op': 'Ask', 'q': {'op': op, 'd': d, 's': s, 'a': rng.choice('fp') if op == 'trade_date' else '',
                                                 'ex': rng.choice([0, 1]) if op == 'mask' else rng.choice([0, 1, 1, 2, 3]), 'ds': ds, 'de': de}}
                    ev['out'] = do_event(cal, ev, rng.randrange(1000), dfl, lambda x, k: spell_free(x, rng), (cfg['lo'], cfg['hi']))
                    events.append(ev)
                    ctx.evals += 1
                events.append(dict({'op': 'Config'}, **do_event(cal, {'op': 'Config'}, 0, dfl, None, None)))
            finally:
                reg.clean()
        obs.append({'k': 'hist', 'cfg': cfg, 'events': events})
        if settled():
            break
    return obs


def c2s_clocks(ctx, nruns, npts):
    rng = ctx.rng
    obs = []
    lo, hi = datetime.date(1995, 1, 1).toordinal(), datetime.date(2012, 1, 1).toordinal()
    for i in range(nruns):
        kind = 'fdwmqybk'[i % 8] if i % 3 else rng.choice('bkk')
        span = rng.choice([3, 10, 40, 400, 1500]) if kind in 'mqy' else rng.choice([2, 5, 12, 40, 90])
        d0 = rng.randrange(lo + 60, hi - 1600)
        if rng.random() < 0.4:       # start just before a month end
            dd = D(d0)
            d0 = datetime.date(dd.year + (dd.month == 12), dd.month % 12 + 1, 1).toordinal() - rng.randrange(1, 5)
        days = sorted(rng.randrange(d0, d0 + span + 1) for _ in range(npts))
        pts = sorted(set((d, rng.choice([0, 0, 21600, 43200, 86399, rng.randrange(86400)])) for d in days) | {(d0, rng.choice([0, 30000]))})
        hol = sorted(set(rng.randrange(d0 - 3, d0 + span + 4) for _ in range(rng.choice([0, 0, 1, 3, 8])))) if kind in 'bk' else []
        out = read_clock(kind, pts, hol, lo, hi, rng.randrange(4))
        ctx.evals += 1
        if out['kind'] != 'val':
            record(ctx, 'clock_call', {'op': 'clock', 'clock': kind, 'kind': 'c2s', 'first': list(pts[0])}, {'observed': out})
            continue
        obs.append({'k': 'clock', 'kind': kind, 'hol': hol, 'lo': lo, 'hi': hi, 'pts': [list(p) for p in pts], 'out': out['v']})
    return obs


def c2s_astime(ctx, n):
    from pyg_base import as_time
    rng = ctx.rng
    obs = []
    ints = list(range(0, 2500)) + [rng.randrange(2500, 10000) for _ in range(n)] + [rng.randrange(10000, 1000000) for _ in range(3 * n)]
    ints += [h * 10000 + m * 100 + s for h in (0, 1, 9, 10, 23, 24, 25) for m in (0, 1, 59, 60) for s in (0, 1, 59, 60, 99)]
    ints += [-1, -100, 999999, 1000000, 1000001, 1235959, 10000000, 2 ** 31 - 1]
    for v in ints:
        obs.append({'k': 'astime', 'form': 'int', 'n': v, 'out': guarded(lambda: as_time(v))})
        if v >= 0 and rng.random() < 0.5:
            obs.append({'k': 'astime', 'form': 'digits', 'n': v, 'out': guarded(lambda: as_time(str(v)))})
    for _ in range(4 * n):
        f = [rng.choice([0, 1, 7, 12, 23, 24, 30]), rng.choice([0, 5, 30, 59, 60, 75])] + ([rng.choice([0, 1, 30, 59, 60, 61])] if rng.random() < 0.6 else [])
        txt = ':'.join(rng.choice(['%d', '%02d']) % x for x in f)
        obs.append({'k': 'astime', 'form': 'colon', 'f': f, 'out': guarded(lambda: as_time(txt))})
    ctx.evals += len(obs)
    return obs


def canaries(obs):
    """copies of recorded lines with ONE field corrupted: (line, expected verdict, index of the original, type).
    Where the original is accepted, the trace specification must reject the copy at the corrupted position
    (the binding of the log to the specification is real)."""
    out = []

    def some(pred, n=6):
        return [i for i, o in enumerate(obs) if pred(o)][:n]
    for i in some(lambda o: o['k'] == 'sess' and len(o['obs']) > 3 and all(e['f']['kind'] == 'val' and e['tr']['kind'] == 'val' for e in o['obs'])):
        o = copy.deepcopy(obs[i]); o['obs'][2]['f']['v'][0] += 1
        out.append((o, ('trade_date:3', 'trade_date_on_overnight_bound:3'), i, 'sess'))
        o = copy.deepcopy(obs[i]); o['obs'][1]['tr']['v'][0] ^= 1
        out.append((o, 'is_trading:2', i, 'sess-is_trading'))
    for i in some(lambda o: o['k'] == 'clock' and o['kind'] in 'dmf' and len(o['pts']) > 4, 4):
        o = copy.deepcopy(obs[i]); o['out'][-1][0] += 1
        out.append((o, 'clock_units:%d' % len(o['pts']), i, 'clock'))
    for i in some(lambda o: o['k'] == 'clock' and o['kind'] == 'f' and len(o['pts']) > 4 and o['out'][1] != o['out'][2], 4):
        o = copy.deepcopy(obs[i]); o['out'][1], o['out'][2] = o['out'][2], o['out'][1]
        out.append((o, 'clock_decreases:2', i, 'clock-order'))
    for i in some(lambda o: o['k'] == 'hist', 8):
        o = copy.deepcopy(obs[i]); o['events'][-1]['wk'] = {'kind': 'val', 'v': [0]}
        out.append((o, 'history_config_changed:%d' % len(o['events']), i, 'hist'))
    for i in some(lambda o: o['k'] == 'astime' and o['form'] == 'int' and o['n'] in (1030, 17, 103040) and o['out']['kind'] == 'val', 3):
        o = copy.deepcopy(obs[i]); o['out']['v'][0] += 60
        out.append((o, 'as_time:0', i, 'astime'))
    return out


def judge(ctx, obs, bad, can):
    n = len(obs) - len(can)
    rejected = {}
    for line, clause in bad:
        rejected[line - 1] = clause
        if line > n:
            continue
        o = obs[line - 1]
        name, _, pos = clause.partition(':')
        pos = int(pos)
        if name in ('out_of_domain', 'bad_config', 'spec_inconsistent', 'bad_event', 'clock_shape'):
            raise Machinery('the C2S driver left the claimed domain, or the specification failed its self-check: line %d %s %s' % (line, clause, str(o)[:300]))
        if o['k'] == 'sess':
            e = o['obs'][pos - 1]
            record(ctx, name, {'op': 'is_trading' if name == 'is_trading' else 'trade_date', 'kind': 'c2s', 'overnight': o['de'] < o['ds'],
                               'ds': o['ds'], 'de': o['de'], 'd': e['d'], 's': e['s'], 'us': e['us'], 'cfg': o['cfg']},
                   {'observed': {'f': e['f'], 'p': e['p'], 'is_trading': e['tr']}})
        elif o['k'] == 'hist':
            e = o['events'][pos - 1]
            ops = [x['op'] for x in o['events'][:pos]]
            record(ctx, name, {'op': e.get('q', {}).get('op', e['op']), 'kind': 'c2s-history', 'step': pos, 'ops': ops[-6:],
                               'after_build': 'BuildTable' in ops[:-1], 'after_edit': any(x.startswith('Edit') for x in ops[:-1]),
                               'event': {k: v for k, v in e.items() if k != 'out'}, 'cfg': o['cfg']}, {'observed': e.get('out', e)})
        elif o['k'] == 'clock':
            record(ctx, name, {'op': 'clock', 'clock': o['kind'], 'kind': 'c2s', 'hol': o['hol'], 'first': o['pts'][0], 'n': len(o['pts']),
                               'position': pos}, {'points': o['pts'][max(0, pos - 3):pos + 2], 'readings': o['out'][max(0, pos - 3):pos + 2],
                                                  'first_reading': o['out'][0]})
        else:
            record(ctx, name, {'op': 'as_time', 'kind': 'c2s', 'form': o['form'], 'n': o.get('n'), 'fields': o.get('f'),
                               'too_large': o.get('n', 0) >= 1000000}, {'observed': o['out']})
    # the binding check: a corrupted copy of an accepted line is rejected at the corrupted position
    shown = {}
    for j, (c, want, src, typ) in enumerate(can):
        if src in rejected:
            continue                     # the original is itself rejected: its copy shows nothing
        if rejected.get(n + j) not in (want if isinstance(want, tuple) else (want,)):
            raise Machinery('binding check: a %s observation with one corrupted field should have been rejected as %s, the trace specification said %r'
                            % (typ, want, rejected.get(n + j)))
        shown[typ] = shown.get(typ, 0) + 1
    missing = {t for _, _, _, t in can} - set(shown)
    if missing and not ctx.violations:
        raise Machinery('binding check: no accepted original to corrupt for %s' % sorted(missing))
    ctx.extra['binding_check'] = 'corrupted copies of accepted observations, each rejected at the corrupted position: %s' % dict(sorted(shown.items()))


def c2s(ctx):
    q = ctx.quick
    obs = c2s_sessions(ctx, 120 if q else 1200, 40)
    obs += c2s_histories(ctx, 60 if q else 600, 40)
    obs += c2s_clocks(ctx, 240 if q else 2400, 30)
    obs += c2s_astime(ctx, 300 if q else 3000)
    can = canaries(obs)
    if len({t for _, _, _, t in can}) < 6:
        raise Machinery('binding check: could not build the corrupted observations')
    allobs = obs + [c for c, _, _, _ in can]
    bad = ctx.validate('Trace_Sessions', allobs, env=JVM)
    judge(ctx, allobs, bad, can)
    for o in obs:
        if o['k'] == 'sess' and o['cfg']['hol']:
            for e in o['obs']:
                ctx.note(('c2s', o['cfg']['lo'], o['ds'], o['de'], e['d'], e['s']))
        elif o['k'] == 'clock':
            ctx.note(('c2s-clock', o['kind'], tuple(o['pts'][0]), len(o['pts'])))
    s = next(o for o in obs if o['k'] == 'sess')
    ctx.sample({'c2s_session': {'cfg': {**s['cfg'], 'hol': s['cfg']['hol'][:6] + ['...']}, 'ds': s['ds'], 'de': s['de'], 'obs': s['obs'][:3]}})
    h = next(o for o in obs if o['k'] == 'hist')
    ctx.sample({'c2s_history': h['events'][:5]})


def run(ctx):
    signal.signal(signal.SIGVTALRM, _alarm)
    ctx.rule = ('S2C: (a) every in-domain instant MC_Sessions examines (both midnights, both session bounds +-1 s, the middles of session and gap) '
                'for a seeded 1-in-GenMod sample of (holiday subset x weekend x session pair x day), through trade_date f/p, is_trading, mask/filter, '
                'bounds in every documented spelling; (b) histories of the object machine MC_SessionsObj (defaults, in-place edits, table build, queries) '
                'replayed on real Calendar objects; (c) clock runs of MC_SessionsClock through clock(ts, kind). C2S: random calendars x random sessions '
                '(arbitrary seconds, one-instant sessions, one-second gaps) x 40 instants with sub-second parts, random histories of 40 events, random '
                'clock runs, as_time on integers / digit strings / colon strings - judged by Trace_Sessions. Non-trivial = calendar with holidays and a '
                'session that is not the whole day (sessions); table built then edited then queried (histories); holidays or distinct run (clocks).')
    q = ctx.quick
    _sig.clear(); _reported.clear(); _hung[0] = 0; Registry.n = 0      # the confirming run starts from the same state as the first
    # the TLC runs are independent processes: model checking, the three mechanism models of today's code (expected to
    # break their law) and the generators run side by side
    jobs = [
        ('mc', lambda: ctx.mc('MC_Sessions', 'MC_Sessions_quick.cfg' if q else 'MC_Sessions_thorough.cfg', env=JVM, coverage=False)),
        ('obj', lambda: ctx.mc('MC_SessionsObj', 'MC_SessionsObj_quick.cfg' if q else 'MC_SessionsObj_thorough.cfg', env=JVM)),
        ('clock', lambda: ctx.mc('MC_SessionsClock', 'MC_SessionsClock_quick.cfg' if q else 'MC_SessionsClock_thorough.cfg', env=JVM, coverage=False)),
        ('gen', lambda: ctx.generate('MC_Sessions', 'MC_Sessions_gen_quick.cfg' if q else 'MC_Sessions_gen_thorough.cfg',
                                     env={'X01_SEED': ctx.seed % 1000, **JVM})),
        ('sim', lambda: ctx.generate('MC_SessionsObj', 'MC_SessionsObj_sim.cfg', simulate=40 if q else 400, depth=8,
                                     seed=ctx.seed, workers=1, env=JVM)),
        ('cgen', lambda: ctx.generate('MC_SessionsClock', 'MC_SessionsClock_gen_quick.cfg' if q else 'MC_SessionsClock_gen_thorough.cfg', env=JVM)),
        ('today', lambda: ctx.mc('MC_Sessions', 'MC_Sessions_today.cfg', env=JVM, coverage=False, must_fail='MechTodayIsLaw')),
        ('table', lambda: ctx.mc('MC_SessionsObj', 'MC_SessionsObj_table.cfg', env=JVM, coverage=False, must_fail='TableMechIsLaw')),
        ('ktoday', lambda: ctx.mc('MC_SessionsClock', 'MC_SessionsClock_today.cfg', env=JVM, coverage=False, must_fail='KMechMonotone')),
    ]
    from concurrent.futures import ThreadPoolExecutor
    with ThreadPoolExecutor(max_workers=int(__import__('os').environ.get('X01_PARALLEL', '4'))) as pool:
        futs = [(name, pool.submit(f)) for name, f in jobs]
        res = {name: fu.result() for name, fu in futs}          # a Machinery failure of any run surfaces here
    ctx.tlc_runs.sort(key=lambda r: (r['kind'], r['cmd']))
    for name in ('mc', 'clock'):
        if res[name].distinct != res[name].generated or res[name].distinct % 2:
            raise Machinery('%s: not every behaviour took its Eval step' % name)
    ctx.extra['mechanism_models_of_todays_code'] = ('trade_date with the strict comparisons of the overnight branch violates MechTodayIsLaw; the weekday-intraday '
                                                    'clock with modified-following adjustment violates KMechMonotone; a table-reading is_trading violates '
                                                    'TableMechIsLaw after an in-place edit (all three expected)')
    s2c_sessions(ctx, res['gen'])
    s2c_histories(ctx, res['sim'])
    s2c_clocks(ctx, res['cgen'])
    c2s(ctx)
    ctx.exhaustive = False
    ctx.assumptions += [
        'instants are naive datetimes / Timestamps; holidays are midnight datetimes inside the calendar range; the day asked about, its neighbours and both '
        'trade dates lie inside [t0, t1]',
        'SecondResolution: the law is stated on whole seconds - the sub-second part of an instant is ignored (as the code does); bounds are whole seconds',
        "trade_date is asked with 'f' / 'p' (and the words they abbreviate) only; 'm' and the calendar's own convention are outside the documented domain",
        'module defaults are set through pyg_base._drange.cfg (the dict cfg_read() returned at import), as a PYG_CFG file would; in-place edits write '
        "cal['holidays'] / cal['weekend']",
        'IntNeedsHour: an integer / digit string spells hh, hhmm or hhmmss by magnitude, so 00:mm:ss has no such spelling (zero-padded digit strings like '
        "'0030' are outside the domain)",
        'WeekStart: the weekday on which the week clock ticks is not pinned (any one phase per run); BClockSide: the business-day clock may read a '
        'non-business day as either neighbour; clock origins are not pinned, only differences',
        'fraction / weekday-intraday readings are compared to the nearest millisecond of the day (float readings ~1e-5 s apart at these magnitudes)',
        'small scope: MC windows of 4 (quick) / 6 (thorough) days x 25 / 49 session pairs; object machine over 3-4 holiday sets, 2-3 weekends, 3-4 default sessions',
    ]
