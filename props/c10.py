"""C10 - drange enumerates exactly t0, t0+bump, ... up to t1 for every kind of bump.

TLA+ (spec/Drange.tla on top of spec/Bump.tla) decides which list drange(t0, t1, bump) must return.
This driver renders abstract (t0, t1, bump) into datetimes / ints / timedeltas / period strings,
calls the public drange (every call under a CPU-time watchdog: the property demands termination),
encodes the list as [[ordinal, second, microsecond], ...] (or the exception class, or "timeout")
and compares it with == against what TLC printed (S2C) or hands it to spec/Trace_Drange.tla (C2S).
"""
import datetime, hashlib, json, os, signal, time

# CPU seconds (ITIMER_VIRTUAL) after which a call counts as not terminating.  A correct call takes milliseconds.  (Before the
# direction test of drange was repaired, a wrong-direction '-1s' between endpoints less than a day apart took up to 13 s to come
# back with its accidental ValueError; VERIF_C10_WATCHDOG widens the limit when such a tree is to be examined.)
WATCHDOG_S = float(os.environ.get('VERIF_C10_WATCHDOG', 10))
MAX_TIMEOUTS = 3        # the replay stops after that many calls that did not terminate, or when the calls that took more than 1 s
SLOW_BUDGET_S = {'quick': 60.0, 'thorough': 600.0}      # have used up this much CPU: such a tree is failing or hopelessly slow
MAXLEN = 300000
FIRST, LAST = datetime.datetime(1900, 1, 1).toordinal(), datetime.datetime(2299, 12, 31).toordinal()
MONTH = ('m', 'q', 'y')


class Timeout(BaseException):
    pass


class GaveUp(Exception):
    """too many calls ran into the watchdog: stop calling, judge what was recorded"""


_timeouts = [0, 0.0, 60.0]      # calls that timed out, CPU seconds spent in calls slower than 1 s, budget for the latter


def exhausted():
    return _timeouts[0] >= MAX_TIMEOUTS or _timeouts[1] > _timeouts[2]


def _alarm(signum, frame):
    raise Timeout()


def inst(t):
    return datetime.datetime.fromordinal(t[0]) + datetime.timedelta(seconds=t[1], microseconds=t[2])


def enc_list(r):
    if not isinstance(r, list):
        return ['other', type(r).__name__]
    if len(r) > MAXLEN:
        return ['other', 'list_longer_than_%d' % MAXLEN]
    out = []
    for x in r:
        if not isinstance(x, datetime.datetime) or x.tzinfo is not None:
            return ['other', 'list_of_' + type(x).__name__]
        out.append([x.toordinal(), x.hour * 3600 + x.minute * 60 + x.second, x.microsecond])
    return ['ok', out]


def part_str(n, u, style):
    s = '%d%s' % (n, u.upper() if style == 'u' else u)
    return '+' + s if style == 'p' and n >= 0 else s


def render(bump, form):
    if bump[0] == 'int':
        return bump[1]
    if bump[0] == 'td':
        return datetime.timedelta(days=bump[1][0], seconds=bump[1][1], microseconds=bump[1][2])
    return ''.join(part_str(n, u, form if form in ('u', 'p') else 'l') for n, u in bump[1])


_cal = []


def _vm_bytes():
    with open('/proc/self/statm') as f:
        return int(f.read().split()[0]) * os.sysconf('SC_PAGE_SIZE')


class memory_cap(object):
    """an unbounded list must end in MemoryError (an outcome like any other), not in the OOM killer: while the real call runs the
    address space may grow by at most 3 GB"""
    def __enter__(self):
        import resource
        self.r = resource
        self.old = resource.getrlimit(resource.RLIMIT_AS)
        cap = _vm_bytes() + (3 << 30)
        if self.old[1] != resource.RLIM_INFINITY:
            cap = min(cap, self.old[1])
        try:
            resource.setrlimit(resource.RLIMIT_AS, (cap, self.old[1]))
        except (ValueError, OSError):
            self.old = None

    def __exit__(self, *a):
        if self.old is not None:
            self.r.setrlimit(self.r.RLIMIT_AS, self.old)


def call(t0, t1, bump, form, keep=None):
    """one public call under the watchdog; returns the encoded outcome (and hands the returned object itself to `keep`,
    for histories in which the caller goes on to use - and change - what it was given)"""
    from pyg_base import drange, calendar
    a, z, b = inst(t0), inst(t1), render(bump, form)
    if form == 'cal':
        if not _cal:
            _cal.append(calendar('verif_c10_no_holidays'))
        f = _cal[0].drange
    else:
        f = drange
    return guarded(f, a, z, b, keep)


def guarded(f, a, z, b, keep=None):
    old = signal.signal(signal.SIGVTALRM, _alarm)
    cpu0 = time.process_time()
    try:
        signal.setitimer(signal.ITIMER_VIRTUAL, WATCHDOG_S)
        try:
            with memory_cap():
                r = f(a, z, b)
        finally:
            signal.setitimer(signal.ITIMER_VIRTUAL, 0)
        if keep is not None:
            keep.append(r)
        return enc_list(r)
    except Timeout:
        _timeouts[0] += 1
        return ['timeout']
    except Exception as e:
        return ['exc', type(e).__name__]
    finally:
        signal.setitimer(signal.ITIMER_VIRTUAL, 0)
        signal.signal(signal.SIGVTALRM, old)
        if time.process_time() - cpu0 > 1.0:
            _timeouts[1] += time.process_time() - cpu0


# ---- realisations of the arguments (Drange!RealsOk says which the quantifier admits) --------------
class _DT(datetime.datetime):
    pass


class _TD(datetime.timedelta):
    pass


class _S(str):
    pass


def render_end(t, r):
    """the instant t as the object of realisation r"""
    import numpy as np, pandas as pd
    x = inst(t)
    if r == 'datetime':
        return x
    if r == 'sub':
        return _DT(x.year, x.month, x.day, x.hour, x.minute, x.second, x.microsecond)
    if r == 'ts':
        return pd.Timestamp(x)
    if r == 'date':
        return x.date()
    if r in ('np_D', 'np_s', 'np_us', 'np_ns'):
        return np.datetime64(x.date() if r == 'np_D' else x, r[3:])
    if r == 'int':
        return x.year * 10000 + x.month * 100 + x.day
    fmt = {'str_d': '%Y-%m-%d', 'str_c': '%Y%m%d', 'str_s': '%Y-%m-%d %H:%M:%S', 'str_us': '%Y-%m-%dT%H:%M:%S.%f'}
    return x.strftime(fmt[r])


def render_bump_real(b, r):
    """the abstract bump b as the object of realisation r"""
    import numpy as np, pandas as pd
    if b[0] == 'int':
        if r == 'int':
            return b[1]
        if r == 'array_item':
            return np.arange(b[1], b[1] + 2)[0]
        if r == 'series_item':
            return pd.Series([b[1]])[0]
        return getattr(np, r[3:])(b[1])
    if b[0] == 'td':
        kw = dict(days=b[1][0], seconds=b[1][1], microseconds=b[1][2])
        return pd.Timedelta(**kw) if r == 'pd_Timedelta' else _TD(**kw) if r == 'td_sub' else datetime.timedelta(**kw)
    if r == 'm':
        txt = ''.join(part_str(n, u, 'ul'[i % 2]) for i, (n, u) in enumerate(b[1]))
    else:
        txt = ''.join(part_str(n, u, r if r in ('u', 'p') else 'l') for n, u in b[1])
    return _S(txt) if r == 'str_sub' else np.str_(txt) if r == 'np_str' else txt


_cal_hol = []


def call_real(t0, t1, bump, reals, keep=None):
    from pyg_base import drange, calendar
    via = reals.get('via', 'drange')
    if via == 'cal':
        if not _cal:
            _cal.append(calendar('verif_c10_no_holidays'))
        f = _cal[0].drange
    elif via == 'cal_hol':                                 # (for bumps without a business-day part neither holidays nor weekend matter)
        if not _cal_hol:
            _cal_hol.append(calendar('verif_c10_holidays', holidays=[datetime.datetime(2001, 1, d) for d in (2, 3, 5, 8)] + [datetime.datetime(2001, 2, 1), datetime.datetime(1999, 12, 31)],
                                     weekend=[4, 5]))
        f = _cal_hol[0].drange
    else:
        f = drange
    return guarded(f, render_end(t0, reals['t0']), render_end(t1, reals['t1']), render_bump_real(bump, reals['bump']), keep)


def edit_registry(e):
    """the caller's actions on the calendar registry between calls (DrangeSession!EditReg), through the public API"""
    from pyg_base import calendar, Calendar
    day = lambda os: [datetime.datetime.fromordinal(o) for o in sorted(os)]
    kind = e[0]
    if kind == 'set_holidays':
        calendar(None, holidays=day(e[1]))
    elif kind == 'set_weekend':
        calendar(None, weekend=tuple(sorted(e[1])))
    elif kind == 'set_both':
        calendar(None, holidays=day(e[1]), weekend=sorted(e[2]))
    elif kind == 'register':
        calendar(Calendar(None, holidays=day(e[1]), weekend=sorted(e[2])))
    elif kind == 'add_inplace':
        c = calendar()
        for d in day(e[1]):
            c.holidays[d] = d
    elif kind == 'reset':
        calendar(None, holidays=[], weekend=[5, 6])
    elif kind == 'named':
        calendar('verif_c10_another', holidays=day(e[1]), weekend=sorted(e[2]))
    else:
        raise ValueError(kind)


def mutate(r, how, rng=None):
    """what a caller may do, in place, to a list it was given"""
    if not isinstance(r, list):
        return
    if how == 'append':
        r.append(datetime.datetime(1999, 12, 31))
    elif how == 'pop':
        if r:
            r.pop()
    elif how == 'clear':
        del r[:]
    elif how == 'reverse':
        r.reverse()
    elif how == 'sort_desc':
        r.sort(reverse=True)
    elif how == 'overwrite':
        for i in range(len(r)):
            r[i] = datetime.datetime(1999, 12, 31)


def case_of(t0, t1, bump, form, before=None, reals=None, script=None):
    """stable, matchable description of a failing input (before = what happened earlier in the history)"""
    c = _case_of(t0, t1, bump, form)
    c['history'] = before or []
    c['after_mutation'] = any(h.get('op') == 'mutate_result' for h in before or [])
    if reals is not None:                                 # how the arguments were realised / the whole session, for --replay
        c.update({'t0_real': reals['t0'], 't1_real': reals['t1'], 'bump_real': reals['bump'], 'via': reals.get('via', 'drange'), 'session': True,
                  'after_registry_edit': any(h.get('op') == 'edit' for h in before or []),
                  'after_call_same_bump': any(h.get('op') == 'drange' and h.get('kind') == bump[0] and h.get('bump') == bump[1] for h in before or [])})
        c['script'] = script or []
    return c


def _case_of(t0, t1, bump, form):
    c = {'op': 'drange', 'kind': bump[0], 'form': form, 't0': t0, 't1': t1, 'bump': bump[1],
         'subsecond': bool(t0[2] or t1[2]), 'backward': t1 < t0}
    if bump[0] == 'tenor':
        parts = bump[1]
        c['units'] = ''.join(u for _, u in parts)
        c['single'] = len(parts) == 1
        c['tenor'] = ''.join(part_str(n, u, 'l') for n, u in parts)
        c['negative'] = [n for n, _ in parts if n][0] < 0 if any(n for n, _ in parts) else False
    elif bump[0] == 'int':
        c['negative'] = bump[1] < 0
    else:
        c['negative'] = bump[1][0] < 0
    return c


def observe(t0, t1, bump, form, keep=None, before=None, reals=None):
    if exhausted():
        raise GaveUp()
    if reals is not None:
        o = {'t0': t0, 't1': t1, 'bump': bump, 'form': form, 'reals': reals, 'out': call_real(t0, t1, bump, reals, keep)}
    else:
        o = {'t0': t0, 't1': t1, 'bump': bump, 'form': form, 'out': call(t0, t1, bump, form, keep)}
    if before:
        o['before'] = before
    return o


def judge(ctx, obs, count=True):
    """Trace_Drange names the clause each observation breaks; every rejected line is a violation"""
    if not obs:
        return
    bad = ctx.validate('Trace_Drange', [{k: v for k, v in o.items() if k != 'script'} for o in obs])
    for i, clause in bad:
        o = obs[i - 1]
        if clause == 'domain':
            from harness.core import Machinery
            raise Machinery('Trace_Drange: observation %d is outside the specified domain: %r' % (i, {k: o[k] for k in ('t0', 't1', 'bump')}))
        out = o['out']
        shown = out if out[0] != 'ok' else ['ok', out[1][:4] + (['... %d elements' % len(out[1])] if len(out[1]) > 4 else [])]
        ctx.violation(clause, case_of(o['t0'], o['t1'], o['bump'], o['form'], o.get('before'), o.get('reals'), o.get('script')), {'observed': shown})
    return bad


# ---- S2C ---------------------------------------------------------------------------------------
def has_b(bump):
    """Calendar.drange is claimed for non-b bumps only (it has its own holiday-aware 'b' path)"""
    return bump[0] == 'tenor' and any(u == 'b' for _, u in bump[1])


def forms_for(bump, k):
    if bump[0] != 'tenor':
        return ('call', 'cal')[:1 + k % 2]
    alt = ('u', 'p') if has_b(bump) else ('u', 'p', 'cal')
    return ('l', alt[k % len(alt)])


def is_wholeday_intraday(c):
    """a whole-day bump between endpoints that are not a whole number of days apart (evidence bookkeeping only)"""
    b = c['bump']
    whole = b[0] == 'int' or (b[0] == 'td' and b[1][1:] == [0, 0]) or (b[0] == 'tenor' and len(b[1]) == 1 and b[1][0][1] in 'dw')
    return whole and c['t0'][1:] != c['t1'][1:]


def s2c(ctx, cases):
    suspects, gave_up, nwi = [], False, 0
    # TLC prints in no particular order: fix one, and one that mixes the families (if a tree is so slow that the replay is cut
    # short, every family has been sampled by then)
    cases = sorted(cases, key=lambda c: hashlib.sha1(json.dumps([c['t0'], c['t1'], c['bump']]).encode()).hexdigest())
    for k, c in enumerate(cases):
        try:
            for form in forms_for(c['bump'], k):
                o = observe(c['t0'], c['t1'], c['bump'], form)
                ctx.evals += 1
                if o['out'] not in c['accept']:
                    suspects.append(o)
        except GaveUp:
            gave_up = True
            break
        acc = c['accept'][0]
        if acc[0] == 'exc' or len(acc[1]) >= 2:
            ctx.note(('s2c', repr((c['t0'], c['t1'], c['bump']))))
        nwi += is_wholeday_intraday(c)
        if k % 4999 == 0 or (nwi == 1 and is_wholeday_intraday(c)):
            ctx.sample({'s2c_case': {'t0': c['t0'], 't1': c['t1'], 'bump': c['bump'],
                                     'accept': [a if a[0] != 'ok' else ['ok', a[1][:5]] for a in c['accept']]}})
        ctx.traces += 1
    ctx.extra['s2c_wholeday_bump_endpoints_not_whole_days_apart'] = nwi
    # TLC (Trace_Drange) says which clause of the statement each mismatch breaks
    bad = judge(ctx, suspects) or []
    if len({i for i, _ in bad}) != len(suspects):
        from harness.core import Machinery
        raise Machinery('S2C: %d replayed outcomes differ from what MC_Drange printed but Trace_Drange rejects only %d of them'
                        % (len(suspects), len({i for i, _ in bad})))
    return not gave_up


def s2c_histories(ctx, hists):
    """two calls over one window; the list the first call returned is changed in place in between.  Each call must
    return what TLC printed for it - results are history independent"""
    suspects = []
    hists = sorted(hists, key=lambda h: hashlib.sha1(json.dumps(h, sort_keys=True).encode()).hexdigest())
    for k, h in enumerate(hists):
        first, mut, second = h['hist']
        try:
            keep = []
            f1 = 'call' if first['bump'][0] != 'tenor' else 'l'
            o1 = observe(h['t0'], h['t1'], first['bump'], f1, keep)
            if o1['out'] not in first['accept']:
                suspects.append(o1)
            if keep:
                mutate(keep[0], mut['how'])
            before = [{'op': 'drange', 'kind': first['bump'][0], 'bump': first['bump'][1]}, {'op': 'mutate_result', 'how': mut['how']}]
            f2 = ('call', 'cal')[k % 2] if second['bump'][0] != 'tenor' else ('l', 'u', 'p')[k % 3]
            o2 = observe(h['t0'], h['t1'], second['bump'], f2, None, before)
            ctx.evals += 2
            if o2['out'] not in second['accept']:
                suspects.append(o2)
        except GaveUp:
            break
        ctx.note(('hist', repr((h['t0'], h['t1'], first['bump'], mut['how'], second['bump']))))
        if k % 3999 == 0:
            ctx.sample({'s2c_history': {'t0': h['t0'], 't1': h['t1'], 'hist': [{kk: (vv if kk != 'accept' else [a if a[0] != 'ok' else ['ok', a[1][:3]] for a in vv])
                                                                              for kk, vv in e.items()} for e in h['hist']]}})
        ctx.traces += 1
    bad = judge(ctx, suspects) or []
    if len({i for i, _ in bad}) != len(suspects):
        from harness.core import Machinery
        raise Machinery('S2C histories: %d outcomes differ from what MC_Drange printed but Trace_Drange rejects only %d' % (len(suspects), len({i for i, _ in bad})))


# ---- sessions ----------------------------------------------------------------------------------
def brief(step):
    """a step of a session as it appears in the `before` of later observations (and in known-finding matchers)"""
    if step['op'] == 'call':
        return {'op': 'drange', 'kind': step['bump'][0], 'bump': step['bump'][1]}
    if step['op'] == 'edit':
        return {'op': 'edit', 'edit': step['edit'][0]}
    return {'op': 'mutate_result', 'how': step['how']}


def exec_session(steps, suspects, observations):
    """one session in this process: the calls of the script in order, between them the caller's own actions (edits of the
    default calendar through calendar(), in-place changes of the list the latest call returned).  Every call is compared with
    the outcomes TLC printed for it (the law of its own arguments: a call has no memory); returns the number of calls"""
    before, keep, script, n, dirty = [], [], [], 0, False
    for step in steps:
        script.append({k: v for k, v in step.items() if k != 'accept'})
        if step['op'] == 'call':
            keep = []
            # (the process is older than the session: the first call this process made with the same bump goes in front of the
            # recorded script, so that --replay in a new process can rebuild what a per-bump memo would hold)
            key = json.dumps(step['bump'])
            first = _first_call.setdefault(key, script[-1])
            o = observe(step['t0'], step['t1'], step['bump'], 'real', keep, list(before), step['reals'])
            o['script'] = ([first] if first not in script else []) + list(script)
            n += 1
            observations.append(o)
            if o['out'] not in step['accept']:
                suspects.append(o)
        elif step['op'] == 'edit':
            edit_registry(step['edit'])
            dirty = True
        else:
            if keep:
                mutate(keep[0], step['how'])
        before.append(brief(step))
    if dirty:                                              # the caller puts the default calendar back: the next session starts from
        edit_registry(['reset'])                           # a registry equal to a new process's
    return n


_first_call = {}


def family_of(steps):
    ops = [st['op'] for st in steps]
    if 'edit' in ops:
        return 'edit'
    if 'mutate_result' in ops:
        return 'mutate'
    calls = [st for st in steps if st['op'] == 'call']
    if len(calls) == 1:
        return 'realisation'
    if len(calls) == 2 and [calls[0][k] for k in ('t0', 't1', 'bump')] == [calls[1][k] for k in ('t0', 't1', 'bump')]:
        return 'same_call_twice'
    if len(calls) == 2 and calls[0]['bump'] == calls[1]['bump']:
        return 'same_bump_two_windows'
    if len(calls) == 2:
        return 'same_window_two_bumps'
    return 'long'


def s2c_sessions(ctx, sessions, label, c2s_sample):
    """TLC's scripts (MC_DrangeSession) replayed in this one process, in a fixed mixed order: the process itself is one long
    history, and every call in it must still return what the law says of its own arguments.  Mismatches are classified by
    Trace_Drange; a seeded sample of all observations (thorough: all of them) is validated by Trace_Drange as well (C2S)"""
    sessions = {hashlib.sha1(json.dumps(h, sort_keys=True).encode()).hexdigest(): h for h in sessions}     # (the simulator may print a session twice)
    sessions = [sessions[k] for k in sorted(sessions)]
    suspects, observations, fams, gave_up = [], [], {}, False
    for k, h in enumerate(sessions):
        steps = h['hist']
        try:
            n = exec_session(steps, suspects, observations)
        except GaveUp:
            gave_up = True
            break
        ctx.evals += n
        ctx.traces += 1
        fam = family_of(steps)
        fams[fam] = fams.get(fam, 0) + 1
        ctx.note(('session', hashlib.sha1(json.dumps(steps, sort_keys=True).encode()).hexdigest()))
        if fams[fam] == 3:
            ctx.sample({'s2c_session_' + fam: [{kk: (vv if kk != 'accept' else [a if a[0] != 'ok' else ['ok', a[1][:3]] for a in vv]) for kk, vv in st.items()} for st in steps]}, limit=12)
    edit_registry(['reset'])
    ctx.extra['sessions_' + label] = {'sessions': sum(fams.values()), 'calls': len(observations), 'by_family': fams,
                                      'realisations_seen': {a: sorted({o['reals'][a] for o in observations}) for a in ('t0', 't1', 'bump', 'via')}}
    bad = judge(ctx, suspects) or []
    if len({i for i, _ in bad}) != len(suspects):
        from harness.core import Machinery
        raise Machinery('S2C sessions: %d outcomes differ from what MC_DrangeSession printed but Trace_Drange rejects only %d' % (len(suspects), len({i for i, _ in bad})))
    if observations and not suspects:
        pick = observations if c2s_sample is None else [observations[i] for i in sorted(ctx.rng.sample(range(len(observations)), min(c2s_sample, len(observations))))]
        judge(ctx, pick)
    return not gave_up


# ---- C2S ---------------------------------------------------------------------------------------
def rand_case(rng, big):
    """one (t0, t1, bump, forms, subsecond?) drawn from the families of the quantifier"""
    o = rng.randint(FIRST + 4000, LAST - 4000)
    fam = rng.choice(('day', 'day', 'day', 'bday', 'bday', 'month', 'month', 'intraday', 'intraday', 'td', 'opposed', 'opposed'))
    sgn = rng.choice((1, -1))
    forms = None
    if fam == 'opposed':
        # mixed-sign compound whose LEADING part opposes the net movement sgn ('-1d1m', '1d-1w', '3h-1d'): the direction of a
        # bump is where dt_bump moves t0.  (The 20% flip at the end turns it into one that really points away from t1.)
        kind = rng.choice(('dw', 'bw', 'dm', 'wq', 'my', 'hd', 'nh', 'sn'))
        lead, main = {'dw': ((1, 6, 'd'), (1, 4, 'w')), 'bw': ((1, 2, 'b'), (1, 3, 'w')), 'dm': ((1, 20, 'd'), (1, 6, rng.choice('mq'))),
                      'wq': ((1, 3, 'w'), (1, 4, 'q')), 'my': ((1, 11, 'm'), (1, 3, 'y')), 'hd': ((1, 20, 'h'), (1, 3, 'd')),
                      'nh': ((1, 50, 'n'), (1, 5, 'h')), 'sn': ((1, 45, 's'), (1, 30, 'n'))}[kind]
        parts = [[-sgn * rng.randint(lead[0], lead[1]), lead[2]], [sgn * rng.randint(main[0], main[1]), main[2]]]
        if rng.random() < 0.25 and kind in ('dm', 'wq', 'my'):
            parts.append([rng.choice((1, -1)) * rng.randint(0, 1), 'd'])
        bump = ['tenor', parts]
        if kind in ('dm', 'wq', 'my'):
            while datetime.date.fromordinal(o).day > 28:
                o -= 1
        if kind in ('dw', 'bw', 'dm', 'wq', 'my'):
            t0 = [o, 0, 0]
            t1 = [o + sgn * rng.choice((1, 3, 30, 365, rng.randint(0, 1500 if kind in ('wq', 'my') else 400))), 0, 0]
        else:
            t0 = [o, rng.randrange(86400), 0]
            x = inst(t0) + datetime.timedelta(seconds=sgn * rng.choice((1, 3600, 86400, rng.randint(0, {'hd': 4000000, 'nh': 400000, 'sn': 40000}[kind]))))
            t1 = [x.toordinal(), x.hour * 3600 + x.minute * 60 + x.second, 0]
        if rng.random() < 0.03:
            t1 = list(t0)
        if rng.random() < 0.3:
            bump = flip(bump)
        return t0, t1, bump, forms
    if fam in ('day', 'bday'):
        tod = [0, 0] if rng.random() < 0.7 else [rng.randrange(86400), 0]
        span = rng.choice((0, 1, 2, 5, 7, 30, 31, 365, rng.randint(0, 400), rng.randint(0, 1500 if big else 600)))
        if fam == 'bday':
            bump = ['tenor', [[sgn * rng.choice((1, 1, 1, 2, 3, 4, 5, 6, 10, 21, rng.randint(1, 60))), 'b']]]
            t1 = [o + sgn * span] + tod
        else:
            q = rng.random()
            if q < 0.4:
                k = sgn * rng.choice((1, 1, 2, 3, 7, 10, 30, rng.randint(1, 60)))
                bump = ['int', k]
                t1 = [o + sgn * span] + tod
                forms = 'int3'                                    # int, timedelta(n) and 'nd' on the same endpoints
            elif q < 0.6:
                bump = ['tenor', [[sgn * rng.choice((1, 2, 3, 7, 10, rng.randint(1, 60))), 'd']]]
                t1 = [o + sgn * span, rng.choice((tod[0], rng.randrange(86400))), 0]
            elif q < 0.75:
                bump = ['tenor', [[sgn * rng.choice((1, 2, 3, rng.randint(1, 8))), 'w']]]
                t1 = [o + sgn * span, rng.choice((tod[0], rng.randrange(86400))), 0]
            else:                                                 # whole-day compound, all parts of one sign
                parts = [wd_part(rng, sgn) for _ in range(rng.choice((2, 2, 3)))]
                if not any(n for n, _ in parts):
                    parts[0][0] = sgn
                bump = ['tenor', parts]
                t1 = [o + sgn * span, rng.choice((tod[0], rng.randrange(86400))), 0]
        t0 = [o] + tod
    elif fam == 'month':
        while datetime.date.fromordinal(o).day > 28:
            o -= 1
        t0 = [o, 0, 0]
        t1 = [o + sgn * rng.choice((0, 1, 27, 28, 31, 59, 365, 366, rng.randint(0, 800), rng.randint(0, 4000 if big else 1500))), 0, 0]
        q = rng.random()
        if q < 0.6:
            u = rng.choice(MONTH)
            n = {'m': rng.choice((1, 1, 2, 3, 6, 12, rng.randint(1, 60))), 'q': rng.choice((1, 2, 4, rng.randint(1, 20))), 'y': rng.choice((1, 1, 2, 5))}[u]
            bump = ['tenor', [[sgn * n, u]]]
        elif q < 0.8:                                             # month part and whole-day parts of one sign
            parts = [[sgn * rng.randint(1, 14), rng.choice(MONTH[:2])]] + [wd_part(rng, sgn) for _ in range(rng.choice((1, 2)))]
            rng.shuffle(parts)
            bump = ['tenor', parts]
        else:                                                     # '1y-3m2d' style: the leading month/year part dominates
            parts = [[sgn * rng.randint(1, 3), 'y'], [-sgn * rng.randint(1, 11), 'm'], [rng.choice((1, -1)) * rng.randint(0, 27), 'd']]
            bump = ['tenor', parts if rng.random() < 0.5 else [[sgn * rng.randint(1, 12), 'm'], parts[2]]]
    elif fam == 'intraday':
        t0 = [o, rng.randrange(86400), 0]
        u = rng.choice('hns')
        n = {'h': rng.choice((1, 2, 6, 24, rng.randint(1, 48))), 'n': rng.choice((1, 30, 90, rng.randint(1, 600))), 's': rng.choice((1, 45, 45, 3600, 3600, rng.randint(1, 7200), rng.randint(1, 7200), rng.randint(1, 7200)))}[u]
        step = n * {'h': 3600, 'n': 60, 's': 1}[u]
        span = rng.choice((0, 1, step - 1, step, step + 1, rng.randint(0, step * rng.choice((3, 40, 400 if big else 150)))))
        bump = ['tenor', [[sgn * n, u]]] if rng.random() < 0.8 else ['tenor', [[sgn * n, u], [sgn * rng.randint(0, 59), rng.choice('ns')]]]
        x = inst(t0) + datetime.timedelta(seconds=sgn * span)
        t1 = [x.toordinal(), x.hour * 3600 + x.minute * 60 + x.second, 0]
    else:                                                         # timedelta, also sub-second, any endpoints
        t0 = [o, rng.randrange(86400), rng.choice((0, 0, 1, 999999, rng.randrange(1000000)))]
        td = datetime.timedelta(days=rng.choice((0, 0, 1, rng.randint(0, 40))), seconds=rng.choice((0, 1, 1800, 86399, rng.randrange(86400))),
                                microseconds=rng.choice((0, 0, 500000, rng.randrange(1000000))))
        if not td:
            td = datetime.timedelta(seconds=1)
        tot = td.total_seconds()
        span = rng.choice((0.0, tot, tot * 2.5, tot * rng.randint(0, 300 if big else 100) + rng.random() * tot))
        if tot < 0.01:
            span = min(span, 20.0)
        x = inst(t0) + datetime.timedelta(seconds=sgn * span)
        t1 = [x.toordinal(), x.hour * 3600 + x.minute * 60 + x.second, x.microsecond]
        td = sgn * td
        bump = ['td', [td.days, td.seconds, td.microseconds]]
    if rng.random() < 0.04:
        t1 = list(t0)
    if rng.random() < 0.2:                                        # point the bump away from t1
        bump = flip(bump)
    return t0, t1, bump, forms


def wd_part(rng, sgn):
    """a whole-day part of a compound tenor; business-day parts are never '0b' (which moves a weekend forward whatever the sign)"""
    u = rng.choice('dwb')
    return [sgn * rng.randint(1 if u == 'b' else 0, 9), u]


def flip(bump):
    if bump[0] == 'int':
        return ['int', -bump[1]]
    if bump[0] == 'td':
        td = -datetime.timedelta(days=bump[1][0], seconds=bump[1][1], microseconds=bump[1][2])
        return ['td', [td.days, td.seconds, td.microseconds]]
    return ['tenor', [[-n, u] for n, u in bump[1]]]


def subsecond_cases(rng, n):
    """period strings / ints with sub-second endpoints (a whole number of days / steps apart)"""
    out = []
    for _ in range(n):
        o = rng.randint(FIRST + 400, LAST - 400)
        t0 = [o, rng.randrange(86400), rng.choice((1, 500000, 999999, rng.randrange(1, 1000000)))]
        sgn = rng.choice((1, -1))
        kind = rng.choice(('int', 'd', 'b', 'h', 'n', 's', 'w'))
        k = rng.randint(1, 5)
        if kind in ('int', 'd', 'b', 'w'):
            t1 = [o + sgn * rng.randint(1, 40), t0[1], t0[2]]
            bump = ['int', sgn * k] if kind == 'int' else ['tenor', [[sgn * k, kind]]]
        else:
            step = k * {'h': 3600, 'n': 60, 's': 1}[kind]
            x = inst(t0) + datetime.timedelta(seconds=sgn * step * rng.randint(1, 30))
            t1 = [x.toordinal(), x.hour * 3600 + x.minute * 60 + x.second, x.microsecond]
            bump = ['tenor', [[sgn * k, kind]]]
        out.append((t0, t1, bump, None))
    return out


def enc_inst(x):
    return [x.toordinal(), x.hour * 3600 + x.minute * 60 + x.second, x.microsecond]


def wholeday_cases(rng, n, big):
    """whole-day movements (n days, in every spelling the quantifier admits: int n, timedelta(days=n), 'nd', 'kw') between endpoints
    that have times of day of their own: whole days apart at a time of day other than midnight, NOT whole days apart (another time of
    day, one second / one microsecond either side, midnight), less than a day apart, less than one bump apart.  Returns
    (t0, t1, n) - the spellings are chosen by the caller."""
    out = []
    for _ in range(n):
        o = rng.randint(FIRST + 4000, LAST - 4000)
        t0 = [o, rng.choice((0, rng.randrange(86400), rng.randrange(86400))), rng.choice((0, 0, 0, 1, 999999, rng.randrange(1000000)))]
        sgn = rng.choice((1, -1))
        k = rng.choice((1, 1, 2, 3, 7, 14, rng.randint(1, 40)))
        days = rng.choice((0, 0, 1, k - 1, k, k + 1, 3 * k, rng.randint(0, 60), rng.randint(0, 1500 if big else 500)))
        base = inst(t0) + datetime.timedelta(days=sgn * days)
        shape = rng.choice(('same', 'tod', 'tod', 'tod', 'us', 'sec', 'midnight'))
        if shape == 'same':
            x = base
        elif shape == 'tod':
            x = datetime.datetime.fromordinal(base.toordinal()) + datetime.timedelta(seconds=rng.randrange(86400), microseconds=rng.choice((0, 0, rng.randrange(1000000))))
        elif shape == 'us':
            x = base + datetime.timedelta(microseconds=rng.choice((-1, 1)))
        elif shape == 'sec':
            x = base + datetime.timedelta(seconds=rng.choice((-1, 1, -3600, 3600, -43200, 43200)))
        else:
            x = datetime.datetime.fromordinal(base.toordinal())
        n_days = sgn * k
        if rng.random() < 0.2:                                        # point the bump away from t1
            n_days = -n_days
        out.append((t0, enc_inst(x), n_days))
    return out


def spellings(t0, t1, n):
    """the spellings of "n days" that the quantifier admits between t0 and t1 (int only for endpoints whole days apart)"""
    sp = [(['td', [n, 0, 0]], 'call'), (['tenor', [[n, 'd']]], None)]
    if t0[1:] == t1[1:]:
        sp.insert(0, (['int', n], 'call'))
    if n % 7 == 0:
        sp.append((['tenor', [[n // 7, 'w']]], None))
    return sp


def c2s_wholeday(ctx, obs, n, big):
    for t0, t1, nd in wholeday_cases(ctx.rng, n, big):
        if exhausted():
            break
        for bump, form in spellings(t0, t1, nd):
            obs.append(observe(t0, t1, bump, form or ctx.rng.choice(('l', 'l', 'u', 'p', 'cal'))))
        if ctx.rng.random() < 0.3:                                    # ... and through Calendar.drange
            obs.append(observe(t0, t1, ['td', [nd, 0, 0]], 'cal'))


def c2s(ctx, ncases, nsub, big, nwhole=0):
    obs = []
    cases = [rand_case(ctx.rng, big) for _ in range(ncases)] + subsecond_cases(ctx.rng, nsub)
    for k, (t0, t1, bump, forms) in enumerate(cases):
        if exhausted():
            break
        # every fourth call is the start of a history: the caller changes the list it was given, in place, and asks again
        keep = [] if ctx.rng.random() < 0.25 else None
        if forms == 'int3':
            n = bump[1]
            obs.append(observe(t0, t1, bump, 'call', keep))
            obs.append(observe(t0, t1, ['td', [n, 0, 0]], 'call', keep))
            obs.append(observe(t0, t1, ['tenor', [[n, 'd']]], ctx.rng.choice(('l', 'u', 'p', 'cal')), keep))
        elif bump[0] == 'tenor':
            obs.append(observe(t0, t1, bump, ctx.rng.choice(('l', 'l', 'u', 'p') if has_b(bump) else ('l', 'l', 'u', 'p', 'cal')), keep))
        else:
            obs.append(observe(t0, t1, bump, ctx.rng.choice(('call', 'call', 'cal')), keep))
        if keep:
            how = ctx.rng.choice(('append', 'pop', 'clear', 'reverse', 'sort_desc', 'overwrite'))
            for r in keep:
                mutate(r, how)
            before = [{'op': 'drange', 'kind': bump[0], 'bump': bump[1]}, {'op': 'mutate_result', 'how': how}]
            again = [bump]
            if bump[0] == 'int':
                again += [['int', ctx.rng.choice((1, -1, 2, -2, 7, -7, -bump[1]))], ['td', [bump[1], 0, 0]]]
            elif bump[0] == 'tenor' and len(bump[1]) == 1:
                again.append(['tenor', [[ctx.rng.choice((1, -1, 2, -3)) * (bump[1][0][0] or 1), bump[1][0][1]]]])
            for b2 in again:
                obs.append(observe(t0, t1, b2, 'call' if b2[0] != 'tenor' else 'l', None, before))
    n_old = len(obs)
    c2s_wholeday(ctx, obs, nwhole, big)                               # (after the older families: their random stream is unchanged)
    if len(obs) > n_old:
        w = obs[n_old + (len(obs) - n_old) // 2]
        ctx.sample({'c2s_wholeday_observation': {**w, 'out': w['out'] if w['out'][0] != 'ok' else ['ok', w['out'][1][:5]]}})
    ctx.extra['c2s_wholeday_calls'] = len(obs) - n_old
    ctx.evals += len(obs)
    judge(ctx, obs)
    for o in obs:
        if o['out'][0] == 'exc' or (o['out'][0] == 'ok' and len(o['out'][1]) >= 2):
            ctx.note(('c2s', repr((o['t0'], o['t1'], o['bump']))))
    mid = obs[len(obs) // 2]
    ctx.sample({'c2s_observation': {**mid, 'out': mid['out'] if mid['out'][0] != 'ok' else ['ok', mid['out'][1][:5]]}})
    ctx.extra['c2s'] = {'calls': len(obs), 'elements': sum(len(o['out'][1]) for o in obs if o['out'][0] == 'ok'),
                        'timeouts': sum(1 for o in obs if o['out'][0] == 'timeout'),
                        'rejections': sum(1 for o in obs if o['out'][0] == 'exc')}


def run(ctx):
    ctx.rule = ('MC: the drange machine (one Step per element) over the day / intraday / month case menus: strictly monotone, starts at t0, '
                'within bounds, iterates the bump, int = timedelta = nd (every spelling of a whole-day bump, n / timedelta(n) / nd / kw, gives the same outcome '
                'between ANY endpoints the quantifier admits - times of day of their own, less than a day / less than one bump apart - and the list is '
                't0 + i*n days in closed form), 1b = all weekdays between the endpoints, kb = every k-th, wrong '
                'direction rejected, t0 = t1 gives [t0], termination (liveness under weak fairness). S2C: every case of the TLC menu replayed '
                'through drange (two spellings: lower / upper / signed period strings, Calendar.drange for non-b bumps) == an accepted outcome; '
                'two-call histories over one window (also windows with intraday endpoints) with the first returned list changed in place in between (results are history independent); '
                'mismatches are classified by Trace_Drange. C2S: random start days of 1911-2289, spans up to several years, all bump kinds, 20% '
                'pointing away, plus whole-day movements in every admitted spelling between endpoints with times of day of their own (whole days apart, '
                'off by a time of day / a second / a microsecond, shorter than a day or than one bump), validated by Trace_Drange. Non-trivial = a list of at least 2 elements or a rejection; distinct by (t0, t1, bump). '
                'SESSIONS (DrangeSession.tla: the process around the one-call machine - actions Call, EditCal = the caller edits the default calendar through calendar(), Mutate = the caller '
                'changes a returned list in place): NoMemory / RegistryBlind / ResultOwned = every call returns the law of the values its own arguments denote, whatever the process called before, '
                'whatever calendars it registered (business-day bumps list WEEKDAYS), whatever happened to earlier results; the mechanism variants memo (heading of a compound bump memoised per '
                'bump string), regcal (business days asked of the default calendar), cache (cached list handed out) each violate their clause (must_fail, thorough tier). The universe holds compound bumps '
                'whose heading depends on the start date (1m-30d, -1m30d, 1b-2d, -1b2d, 2b-3d) where the iteration is steady (Drange!Steady; also a family of the one-call model). S2C: TLC prints scripts - every ordered pair of '
                'calls colliding on what a memo could be keyed on (one bump from two windows / both headings / accepted then rejected; one window with two bumps), registry edits (8 forms: new default calendar with holidays / another weekend / both, '
                'a Calendar object registered, holidays added in place, reset, another key) before and between business-day calls, every realisation of each argument (bump: Python int, numpy ints of every width, array / Series items; '
                'timedelta, subclass, pandas Timedelta; period strings lower / upper / mixed / signed / str subclass / numpy str_; t0, t1: datetime, subclass, Timestamp, date, datetime64[D, s, us, ns], yyyymmdd int, four string formats) and the same call twice in two realisations of the bump; '
                'thorough: 800 TLC-simulated sessions of 8 steps - replayed in ONE process in a fixed mixed order, each call == an outcome the law accepts; a seeded sample (2 500 quick / 30 000 thorough; simulated sessions: all) of these observations is also validated by Trace_Drange (which reads neither `before` nor `reals` beyond the domain test).')
    ctx.mc('MC_Drange', 'MC_Drange_quick.cfg' if ctx.quick else 'MC_Drange_thorough.cfg')
    _timeouts[:] = [0, 0.0, SLOW_BUDGET_S['quick' if ctx.quick else 'thorough']]
    ctx.mc('MC_DrangeSession', 'MC_DrangeSession_quick.cfg' if ctx.quick else 'MC_DrangeSession_thorough.cfg')
    if not ctx.quick:
        for cfg, clause in (('memo', 'NoMemory'), ('regcal', 'RegistryBlind'), ('cache', 'ResultOwned')):
            ctx.mc('MC_DrangeSession', 'MC_DrangeSession_%s.cfg' % cfg, must_fail=clause, coverage=False)
    try:
        s2c_histories(ctx, ctx.generate('MC_Drange', 'MC_Drange_genH.cfg'))
        ok = s2c_sessions(ctx, ctx.generate('MC_DrangeSession', 'MC_DrangeSession_gen.cfg' if ctx.quick else 'MC_DrangeSession_gen2.cfg'),
                          'scripts', 2500 if ctx.quick else 30000)
        if ok and not ctx.quick:
            sim = ctx.generate('MC_DrangeSession', 'MC_DrangeSession_sim.cfg', simulate=800, depth=9, seed=ctx.seed + 10, workers=1)
            ok = s2c_sessions(ctx, sim, 'simulated', None)
        if ok and s2c(ctx, ctx.generate('MC_Drange', 'MC_Drange_gen.cfg' if ctx.quick else 'MC_Drange_gen2.cfg')):
            c2s(ctx, *((1500, 60, False, 400) if ctx.quick else (20000, 600, True, 6000)))
    except GaveUp:
        pass
    ctx.extra['slow_calls_cpu_s'] = round(_timeouts[1], 1)
    if exhausted():
        ctx.assumptions.append('the replay was cut short: %d calls ran into the %.0f s CPU-time watchdog, calls slower than 1 s used %.0f s' % (_timeouts[0], WATCHDOG_S, _timeouts[1]))
    ctx.exhaustive = False
    ctx.assumptions += [
        'every real drange call runs under a CPU-time watchdog (ITIMER_VIRTUAL, %.0f s, env VERIF_C10_WATCHDOG); a timeout is reported as a violation of termination. '
        'The replay is cut short after 3 timeouts or when calls slower than 1 s have used 60 s (quick) / 600 s (thorough) of CPU' % WATCHDOG_S,
        'domain as in the quantifier (Drange!CaseInDomain): int and business-day bumps with endpoints a whole number of days apart; month-based '
        'units with midnight endpoints, t0 on a day <= 28 and only whole-day units beside them in compound tenors; zero bumps excluded; '
        'compound tenors of the random driver have parts of one sign, or a dominating leading month/year part, so that every step moves the same way',
        't0 = t1 on a weekend with a business-day bump: both [t0] and [] are accepted (named deviation SinglePointWeekend)',
        'integer bumps are called only between endpoints a whole number of days apart (the quantifier); timedelta(days=n), nd and kw between any endpoints',
        'sessions run in this one process (no isolation between them: the law has no memory, so every call must satisfy it whatever ran before); after a session that edited the default calendar the driver '
        'puts it back with calendar(None, holidays = [], weekend = [5, 6]); a failing call is recorded with its session and the first call the process made with the same bump (for --replay)',
        'compound bumps whose heading depends on the start date are claimed only where every step of the iteration moves towards t1 and month parts meet days <= 28 (Drange!Steady): elsewhere the iteration turns round '
        "(drange(Mon, Sun, '1b-2d') and drange(1 Jan 2001, 15 Mar 2001, '1m-30d') never return today) - not claimed by the statement",
        'realisations (Drange!RealsOk): numpy.timedelta64 is not a timedelta for pyg_base (dt_bump and drange raise TypeError) and is left out; numpy integers as yyyymmdd endpoints are left out (dt raises TypeError; a matter of C04); '
        'bool bumps are not exercised; named restriction UnsignedOnlyToward: an unsigned numpy integer pointing away from t1 raises OverflowError inside numpy instead of ValueError - reported, kept out of the domain; np_ns endpoints 1700-2250 only',
        'small-scope: model checking covers the case menus of MC_Drange.tla (14 start days, spans <= 12 / 40 days, <= 13 / 36 months; whole-day bumps x '
        'intraday endpoints: 4 starts x 5 times of day and +-1 us x day offsets <= 5 / 15); '
        'trace verdicts hold for the calls actually recorded',
    ]


def replay(ctx, body):
    """./check C10 --replay <file>: re-execute one recorded failing call and let Trace_Drange judge it again"""
    c = body['case']
    if c.get('script'):                                    # a session: the steps before the failing call, then the call itself
        suspects, observations = [], []
        exec_session([dict(st, accept=[]) for st in c['script']], suspects, observations)
        o = observations[-1]
        bad = ctx.validate('Trace_Drange', [{k: v for k, v in o.items() if k != 'script'}])
        print('replay C10: session %s -> %s : %s' % (json.dumps(c['script']), o['out'] if o['out'][0] != 'ok' else ['ok', o['out'][1][:6]],
                                                     'VIOLATES ' + bad[0][1] if bad else 'explained by the specification'))
        import shutil
        shutil.rmtree(ctx.tmp, ignore_errors=True)
        return 1 if bad else 0
    o = observe(c['t0'], c['t1'], [c['kind'], c['bump']], c['form'])
    bad = ctx.validate('Trace_Drange', [o])
    shown = o['out'] if o['out'][0] != 'ok' else ['ok', o['out'][1][:6]]
    print('replay C10: drange(%s, %s, %r) [%s] -> %s : %s' % (inst(c['t0']), inst(c['t1']), render([c['kind'], c['bump']], c['form']), c['form'],
                                                             shown, 'VIOLATES ' + bad[0][1] if bad else 'explained by the specification'))
    import shutil
    shutil.rmtree(ctx.tmp, ignore_errors=True)
    return 1 if bad else 0
