"""C15 - tree flatten/rebuild are inverse; tree_update is a non-destructive deep merge.

Python here only renders abstract trees (spec/Tree.tla: leaf = tagged value, branch = ["m", {key: subtree}])
into real nestings of dict / Dict / dictattr, calls the public API, and encodes what came back together
with a deep snapshot of every operand BEFORE and AFTER the call.  S2C compares the encodings with == against
what TLC printed; every S2C mismatch (and a sample of the matches) plus all C2S observations are judged and
named by spec/Trace_Tree.tla."""
import json
from harness.core import Machinery
from harness.x_obslog import Log, judge
from harness.enc import tag, untag

_API = {}


def api():
    if not _API:
        import pyg_base as p
        for n in ('Dict', 'dictattr', 'dictable', 'tree_items', 'tree_keys', 'tree_values', 'items_to_tree', 'tree_update',
                  'tree_getitem', 'tree_get', 'tree_setitem', 'tree_to_table', 'table_to_tree'):
            _API[n] = getattr(p, n)
        _API['classes'] = [dict, p.Dict, p.dictattr]
    return _API


# ---- abstraction / rendering ------------------------------------------------------------------
def norm(j):
    """what TLC printed -> canonical abstract tree (TLC writes the empty branch as ["m", []])"""
    if isinstance(j, list) and len(j) == 2 and j[0] == 'm':
        kids = j[1] if isinstance(j[1], dict) else {}
        return ['m', {k: norm(v) for k, v in kids.items()}]
    return j


def norm_row(r):
    return r if isinstance(r, dict) else {}


def build(a, rng, root=None):
    """abstract tree -> real nested dicts; the class of every branch and the insertion order vary"""
    if a[0] != 'm':
        return untag(a)
    cls = root or rng.choice(api()['classes'])
    keys = list(a[1])
    rng.shuffle(keys)
    d = cls()
    for k in keys:
        dict.__setitem__(d, k, build(a[1][k], rng))
    return d


def enc(x):
    """deep snapshot of a real tree as an abstract tree"""
    if isinstance(x, dict):
        return ['m', {str(k): enc(v) for k, v in dict.items(x)}]
    return tag(x)


def outcome(f):
    try:
        return f()
    except Exception as e:
        return ['exc', type(e).__name__]


def canon(xs):
    return sorted(json.dumps(x, sort_keys=True) for x in xs)


def patstr(pat):
    return '/'.join(('%' + n) if k == 'var' else n for k, n in pat)


def enc_rows(rows):
    return [{str(k): tag(v) for k, v in dict(r).items()} for r in rows]


def real_rows(rows):
    return [{k: untag(v) for k, v in r.items()} for r in rows]


# ---- one observation per public call (or small group of calls on one operand) -----------------
def obs_flatten(t_abs, rng):
    A = api()
    t = build(t_abs, rng)
    before = enc(t)
    items = A['tree_items'](t)
    keys = A['tree_keys'](t)
    values = A['tree_values'](t)
    rebuilt = outcome(lambda: enc(A['items_to_tree'](items)))
    return {'op': 'flatten', 't': before,
            'items': [[list(it[:-1]), tag(it[-1])] for it in items],
            'keys': [list(k) for k in keys], 'values': [tag(v) for v in values],
            'rebuilt': rebuilt, 'after': enc(t)}


GET_FORMS = ('getitem_dotted', 'getitem_list', 'getitem_tuple', 'get_dotted', 'get_list')


def obs_get(t_abs, path, form, rng):
    A = api()
    t = build(t_abs, rng)
    before = enc(t)
    arg = '.'.join(path) if form.endswith('dotted') else (tuple(path) if form.endswith('tuple') else list(path))
    f = A['tree_getitem'] if form.startswith('getitem') else (lambda tree, item: A['tree_get'](tree, item, 'no such path'))
    out = outcome(lambda: enc(f(t, arg)))
    return {'op': 'get', 'form': form, 't': before, 'path': list(path), 'out': out, 'after': enc(t)}


def obs_update(t_abs, u_abs, ign, form, rng):
    A = api()
    t = build(t_abs, rng, root=A['Dict'] if form.startswith('Dict') else None)
    u = build(u_abs, rng)
    bt, bu = enc(t), enc(u)                       # deep snapshots BEFORE the call
    ignore = [untag(x) for x in ign]
    if form == 'tree_update':
        call = (lambda: A['tree_update'](t, u, ignore=ignore)) if ignore or rng.random() < 0.5 else (lambda: A['tree_update'](t, u))
    elif form == 'Dict_add':
        call = lambda: t + u
    else:
        raise ValueError(form)
    out = outcome(lambda: enc(call()))
    return {'op': 'update', 'form': form, 't': bt, 'u': bu, 'ign': ign, 'out': out,
            't_after': enc(t), 'u_after': enc(u)}      # ... and AFTER it


def obs_setitem(t_abs, path, leaf, ign, form, rng):
    A = api()
    t = build(t_abs, rng)
    before = enc(t)
    key = '.'.join(path) if form == 'dotted' else (tuple(path) if form == 'tuple' else list(path))
    ignore = [untag(x) for x in ign]
    r = outcome(lambda: tag(A['tree_setitem'](t, key, untag(leaf), ignore=ignore)))
    o = {'op': 'setitem', 'form': form, 't': before, 'path': list(path), 'leaf': leaf, 'ign': ign, 't_after': enc(t)}
    if r != ['n', 0]:
        o['t_after'] = r
    return o


def _rows_of(t, pat, form):
    A = api()
    if form == 'dictable':
        return list(A['dictable'](t, patstr(pat)))
    return A['tree_to_table'](t, patstr(pat))


def obs_to_table(t_abs, pat, form, rng):
    t = build(t_abs, rng)
    before = enc(t)
    rows = outcome(lambda: enc_rows(_rows_of(t, pat, form)))
    exc = rows[1] if rows[:1] == ['exc'] else ''
    return {'op': 'to_table', 'form': form, 't': before, 'pat': pat, 'rows': [] if exc else rows, 'exc': exc, 'after': enc(t)}


def _table_of(rows, form):
    A = api()
    rr = real_rows(rows)
    return A['dictable'](rr) if form == 'rows_dictable' else rr


def obs_from_table(rows, pat, form):
    A = api()
    table = _table_of(rows, form)
    out = outcome(lambda: enc(A['table_to_tree'](None, patstr(pat), table)))
    return {'op': 'from_table', 'form': form, 'rows': rows, 'pat': pat, 'out': out, 'rows_after': enc_rows(list(table))}


def obs_round_tree(t_abs, pat, rng):
    A = api()
    t = build(t_abs, rng)
    before = enc(t)
    back = outcome(lambda: enc(A['table_to_tree'](None, patstr(pat), A['tree_to_table'](t, patstr(pat)))))
    return {'op': 'round_tree', 't': before, 'pat': pat, 'back': back, 'after': enc(t)}


def obs_round_rows(rows, pat, form):
    A = api()
    table = _table_of(rows, form)
    rows2 = outcome(lambda: enc_rows(A['tree_to_table'](A['table_to_tree'](None, patstr(pat), table), patstr(pat))))
    exc = rows2[1] if rows2[:1] == ['exc'] else ''
    return {'op': 'round_rows', 'form': form, 'rows': rows, 'pat': pat, 'rows2': [] if exc else rows2, 'exc': exc}


# ---- bookkeeping ------------------------------------------------------------------------------
def root_view(t):
    """the root as a caller sees it without looking into nested dicts"""
    return {k: (['branch', 0] if v[0] == 'm' else v) for k, v in t[1].items()} if isinstance(t[1], dict) else t


def fails_update(o, want):
    """names of the fields of an update observation that are not == to what TLC expects"""
    f = []
    if o['out'] != want:
        f.append('out')
    for x in ('u', 't'):
        if o[x + '_after'] != o[x]:
            f.append(x + ('_after_nested' if o[x + '_after'][0] == 'm' and root_view(o[x + '_after']) == root_view(o[x]) else '_after_root'))
    return tuple(f)


CASE_KEYS = ('op', 'form', 't', 'u', 'ign', 'path', 'leaf', 'pat', 'rows')


# ---- S2C: replay of the cases TLC enumerated ---------------------------------------------------
def s2c_single(ctx, log, cases):
    for n, c in enumerate(cases):
        t = norm(c['t'])
        want = canon([[list(p), v] for p, v in c['items']])
        for rep in range(2):
            o = obs_flatten(t, ctx.rng)
            if o['t'] != t:
                raise Machinery('build/enc do not round-trip: %r' % (t,))
            ok = (canon(o['items']) == want and o['rebuilt'] == t and o['after'] == t
                  and o['keys'] == [it[0] for it in o['items']] and o['values'] == [it[1] for it in o['items']])
            log.s2c(o, ok)
        for p, v in c['items']:
            form = GET_FORMS[(n + len(p)) % len(GET_FORMS)]
            for f in (form, 'getitem_list'):
                o = obs_get(t, p, f, ctx.rng)
                log.s2c(o, o['out'] == v and o['after'] == t)
        if len(c['items']) >= 2 and any(len(p) >= 2 for p, _ in c['items']):
            ctx.note(('flatten', json.dumps(t, sort_keys=True)))
        ctx.traces += 1
        if n % 499 == 7:
            ctx.sample({'s2c_flatten': {'t': t, 'expected_items': c['items']}})


def s2c_merge(ctx, log, cases):
    for n, c in enumerate(cases):
        t, u, want = norm(c['t']), norm(c['u']), norm(c['out'])
        forms = ['tree_update'] + (['Dict_add'] if not c['ign'] else [])
        for form in forms:
            o = obs_update(t, u, c['ign'], form, ctx.rng)
            if o['t'] != t or o['u'] != u:
                raise Machinery('build/enc do not round-trip: %r %r' % (t, u))
            log.s2c(o, fails_update(o, want))
        if want != t and want != u:
            ctx.note(('merge', json.dumps([t, u, c['ign']], sort_keys=True)))
        ctx.traces += 1
        if n % 9973 == 4242:
            ctx.sample({'s2c_update': {'t': t, 'u': u, 'ign': c['ign'], 'expected': want}})


def s2c_table(ctx, log, cases):
    for n, c in enumerate(cases):
        t, pat = norm(c['t']), c['pat']
        want = canon([norm_row(r) for r in c['rows']])
        for form in ('tree_to_table', 'dictable'):
            o = obs_to_table(t, pat, form, ctx.rng)
            log.s2c(o, o['exc'] == '' and canon(o['rows']) == want and o['after'] == t)
        if len(pat) >= 2:
            exact = [norm_row(r) for r in c['exact']]
            back = norm(c['back'])
            for form in ('rows_list', 'rows_dictable'):
                if exact or form == 'rows_list':
                    o = obs_from_table(exact, pat, form)
                    log.s2c(o, o['out'] == back and o['rows_after'] == exact)
                    o = obs_round_rows(exact, pat, form)
                    log.s2c(o, o['exc'] == '' and canon(o['rows2']) == canon(exact))
        if c['rows']:
            ctx.note(('table', json.dumps([t, pat], sort_keys=True)))
        ctx.traces += 1
        if n % 4999 == 1234:
            ctx.sample({'s2c_table': {'t': t, 'pattern': patstr(pat), 'expected_rows': c['rows']}})


# ---- C2S: seeded random, larger and stranger inputs --------------------------------------------
KEYS = ['a', 'b', 'c', 'd', 'k1', 'name', 'x', 'Zz']
LEAVES = [["n", 0], ["i", 0], ["i", 1], ["i", -7], ["i", 2147483647], ["s", ""], ["s", "s"], ["s", "a"], ["s", "x y"],
          ["l", []], ["l", [["i", 1]]], ["l", [["i", 1], ["s", "s"]]], ["l", [["l", [["i", 1]]], ["n", 0]]], ["l", [["n", 0]]]]


def rand_tree(rng, depth, keys, leaves, top=True):
    nk = rng.choice([0, 1, 2, 3, 4]) if top else rng.choice([1, 1, 2, 3])
    kids = {}
    for k in rng.sample(keys, min(nk, len(keys))):
        if depth > 1 and rng.random() < 0.55:
            kids[k] = rand_tree(rng, depth - 1, keys, leaves, False)
        else:
            kids[k] = rng.choice(leaves)
    return ['m', kids]


def items_of(t, prefix=()):
    if t[0] != 'm':
        return [(list(prefix), t)]
    return [it for k, v in t[1].items() for it in items_of(v, prefix + (k,))]


def perturb(rng, t, keys, leaves, depth):
    """a second tree that overlaps the first: some of its paths with other leaves, leaves turned into
    branches and branches into leaves, new keys"""
    def go(x, d):
        if x[0] != 'm':
            r = rng.random()
            if r < 0.3:
                return x
            if r < 0.7 or d <= 0:
                return rng.choice(leaves)
            return rand_tree(rng, max(1, d), keys, leaves, False)
        out = {}
        for k, v in x[1].items():
            r = rng.random()
            if r < 0.35:
                continue
            out[k] = rng.choice(leaves) if r < 0.45 else go(v, d - 1)
        for k in rng.sample(keys, rng.choice([0, 0, 1, 2])):
            if k not in out:
                out[k] = rng.choice(leaves) if d <= 0 or rng.random() < 0.6 else rand_tree(rng, max(1, d), keys, leaves, False)
        if not out:
            out[rng.choice(keys)] = rng.choice(leaves)
        return ['m', out]
    u = go(t, depth)
    if rng.random() < 0.05:
        return ['m', {}]
    return u


def rand_pattern(rng, t, keys):
    its = items_of(t)
    n = rng.choice([1, 2, 2, 3, 3, 4, 5])
    base = None
    if its and rng.random() < 0.8:
        p, _ = rng.choice(its)
        base = p
    names = ['x', 'y', 'z', 'w', 'v1']
    rng.shuffle(names)
    nv = rng.choice([1, 1, 2, 2, 3, 4])
    var_pos = set(rng.sample(range(n), min(nv, n)))
    pat = []
    for i in range(n):
        if i in var_pos:
            pat.append(['var', names.pop()])
        else:
            lit = base[i] if base and i < len(base) and rng.random() < 0.85 else rng.choice(keys)
            pat.append(['lit', lit])
    return pat


def c2s(ctx, log, n):
    rng = ctx.rng
    for i in range(n):
        depth = rng.choice([1, 2, 3, 3, 4, 5])
        keys = rng.sample(KEYS, rng.choice([2, 3, 4, 8]))
        leaves = rng.sample(LEAVES, rng.choice([2, 4, len(LEAVES)]))
        t = rand_tree(rng, depth, keys, leaves)
        its = items_of(t)
        log.c2s(obs_flatten(t, rng))
        for p, _ in rng.sample(its, min(3, len(its))):
            log.c2s(obs_get(t, p, rng.choice(GET_FORMS), rng))
        # pairs: the tree with itself, with {}, with overlapping and with independent trees; ignore lists
        others = [t, ['m', {}], perturb(rng, t, keys, leaves, depth), perturb(rng, t, keys, leaves, depth),
                  rand_tree(rng, depth, keys, leaves)]
        for u in others:
            ign = rng.choice([[], [], [["n", 0]], rng.sample(leaves, min(2, len(leaves))), rng.sample(LEAVES, 3)])
            form = rng.choice(['tree_update', 'tree_update', 'Dict_add']) if not ign else 'tree_update'
            o = obs_update(t, u, ign, form, rng)
            log.c2s(o)
            if o['out'] != o['t'] and o['out'] != o['u']:
                ctx.note(('c2s-merge', json.dumps([t, u, ign], sort_keys=True)))
        # tree_setitem on listed paths, above, below and beside them
        for _ in range(3):
            if its and rng.random() < 0.8:
                p, _leaf = rng.choice(its)
                r = rng.random()
                path = p if r < 0.4 else (p + [rng.choice(keys)] if r < 0.6 else (p[:-1] if len(p) > 1 and r < 0.8 else p[:-1] + [rng.choice(keys)]))
            else:
                path = [rng.choice(keys) for _ in range(rng.choice([1, 2, 3]))]
            ign = rng.choice([[], [["n", 0]], rng.sample(leaves, 1)])
            log.c2s(obs_setitem(t, path, rng.choice(leaves), ign, rng.choice(['dotted', 'tuple', 'list']), rng))
        # patterns
        for _ in range(3):
            pat = rand_pattern(rng, t, keys)
            o = obs_to_table(t, pat, rng.choice(['tree_to_table', 'dictable']), rng)
            log.c2s(o)
            if o['rows']:
                ctx.note(('c2s-table', json.dumps([t, pat], sort_keys=True)))
            if len(pat) >= 2:
                log.c2s(obs_round_tree(t, pat, rng))
                # rows with unique paths: one row per distinct path
                rows, seen = [], set()
                for _ in range(rng.choice([0, 1, 2, 4, 7])):
                    r = {}
                    for j, (k, name) in enumerate(pat):
                        if k == 'var':
                            r[name] = ["s", rng.choice(keys)] if j < len(pat) - 1 else rng.choice(LEAVES)
                    key = tuple(r[name][1] if k == 'var' else name for k, name in pat[:-1])
                    if key not in seen:
                        seen.add(key); rows.append(r)
                form = rng.choice(['rows_list', 'rows_dictable']) if rows else 'rows_list'
                log.c2s(obs_from_table(rows, pat, form))
                log.c2s(obs_round_rows(rows, pat, form))
        if i % 97 == 5:
            ctx.sample({'c2s_observation': log.obs[-1]})


def gen(ctx, module, cfg):
    """TLC's workers print the cases in an order that varies from run to run: sort them, so that everything the
    driver derives from the position of a case (class rotation, seeded choices, samples) is reproducible"""
    return sorted(ctx.generate(module, cfg), key=lambda c: json.dumps(c, sort_keys=True))


def run(ctx):
    ctx.rule = ('S2C: every tree / (t, u, ignore) / (t, pattern) of the TLC-enumerated universes is built as a real nesting of '
                'dict/Dict/dictattr (classes and insertion order drawn from the seed) and replayed through tree_items/keys/values, '
                'items_to_tree, tree_getitem/tree_get (3 spellings of the path), tree_update (with and without ignore), Dict + dict, '
                'tree_to_table, dictable(tree, pattern), table_to_tree; the encoded result and the deep snapshots of t and u taken '
                'before and after the call are compared with ==.  C2S: random trees to depth 5 over 8 keys and 14 leaves with '
                'overlapping / conflicting partners, ignore lists, tree_setitem and random patterns (1-4 wildcards), judged by Trace_Tree. '
                'Non-trivial = merge whose result is neither t nor u; flatten of a tree with >= 2 items and a nested path; '
                'pattern with at least one row.  Distinct by abstract input.')
    ctx.mc('MC_Tree', 'MC_Tree_quick.cfg' if ctx.quick else 'MC_Tree_thorough.cfg')
    # the non-destruction clause on a heap model with aliasing: the code's copy.copy of the root is refuted by TLC
    # (design-level counterpart of the violation the replay finds), copying every branch (the repair) is proved
    ctx.mc('MC_TreeHeap', 'MC_TreeHeap_today.cfg', must_fail='OperandsIntact')
    ctx.mc('MC_TreeHeap', 'MC_TreeHeap_repaired.cfg' if ctx.quick else 'MC_TreeHeap_repaired_wide.cfg')
    ctx.extra['mechanism_models'] = ('MC_TreeHeap (dicts as heap objects): copy.copy(root) + in-place insertion violates OperandsIntact '
                                     '(expected, must-fail run); copying every branch satisfies it')
    log = Log(ctx, 1500 if ctx.quick else 20000)
    cases = gen(ctx, 'MC_Tree', 'MC_Tree_gen.cfg' if ctx.quick else 'MC_Tree_gent.cfg')     # all three families in one TLC run
    s2c_single(ctx, log, [c for c in cases if c['op'] == 'items'])
    s2c_merge(ctx, log, [c for c in cases if c['op'] == 'update'])
    cases = [c for c in cases if c['op'] == 'table']
    if ctx.quick:
        cases = [c for i, c in enumerate(cases) if i % 3 == ctx.seed % 3]
    s2c_table(ctx, log, cases)
    c2s(ctx, log, 300 if ctx.quick else 5000)
    judge(ctx, log, 'Trace_Tree', CASE_KEYS)
    ctx.exhaustive = False
    ctx.assumptions += [
        'keys are strings without "." and without a leading "_"; leaves are None/ints/strings/lists (no bool/int/float mixing, so membership in an ignore list is plain equality)',
        'branches are dict, Dict or dictattr (the default `types`); nested branches are non-empty, the root may be {}',
        'patterns have distinct wildcard names; rows handed to table_to_tree have string values at key positions and unique paths',
        'a pattern shorter than the tree matches the KEYS of the branch it ends on (named deviation MatchesBranchKey, the documented behaviour)',
        'small scope: MC/S2C trees have depth <= 2 over 2 keys (plus 48 sampled depth-3 trees, plus 3-key trees for flatten); C2S trees reach depth 5',
    ]


def replay(ctx, body):
    """re-execute one recorded failing case and show what the code does now"""
    c = body['case']
    rng = ctx.rng
    if c['op'] == 'update':
        o = obs_update(c['t'], c['u'], c['ign'], c.get('form', 'tree_update'), rng)
    elif c['op'] == 'flatten':
        o = obs_flatten(c['t'], rng)
    elif c['op'] == 'get':
        o = obs_get(c['t'], c['path'], c['form'], rng)
    elif c['op'] == 'setitem':
        o = obs_setitem(c['t'], c['path'], c['leaf'], c['ign'], c['form'], rng)
    elif c['op'] == 'to_table':
        o = obs_to_table(c['t'], c['pat'], c['form'], rng)
    elif c['op'] == 'from_table':
        o = obs_from_table(c['rows'], c['pat'], c['form'])
    elif c['op'] == 'round_tree':
        o = obs_round_tree(c['t'], c['pat'], rng)
    else:
        o = obs_round_rows(c['rows'], c['pat'], c.get('form', 'rows_list'))
    bad = ctx.validate('Trace_Tree', [o])
    print(json.dumps(o, indent=1))
    print('verdict:', bad[0][1] if bad else 'accepted')
    return 1 if bad else 0
