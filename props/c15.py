"""C15 - tree flatten/rebuild are inverse; tree_update is a non-destructive deep merge.

Python here only renders abstract trees (spec/Tree.tla: leaf = tagged value, branch = ["m", {key: subtree}])
into real nestings of dict / Dict / dictattr, calls the public API, and encodes what came back together
with a deep snapshot of every operand BEFORE and AFTER the call.  S2C compares the encodings with == against
what TLC printed; every S2C mismatch (and a sample of the matches) plus all C2S observations are judged and
named by spec/Trace_Tree.tla."""
import json
from harness.core import Machinery
from harness.x_obslog import Log, judge
from harness.enc import tag, untag

_API = {}


def api():
    if not _API:
        import pyg_base as p
        for n in ('Dict', 'dictattr', 'dictable', 'tree_items', 'tree_keys', 'tree_values', 'items_to_tree', 'tree_update',
                  'tree_getitem', 'tree_get', 'tree_setitem', 'tree_to_table', 'table_to_tree'):
            _API[n] = getattr(p, n)
        _API['classes'] = [dict, p.Dict, p.dictattr]
    return _API


# ---- abstraction / rendering ------------------------------------------------------------------
def norm(j):
    """what TLC printed -> canonical abstract tree (TLC writes the empty branch as ["m", []])"""
    if isinstance(j, list) and len(j) == 2 and j[0] == 'm':
        kids = j[1] if isinstance(j[1], dict) else {}
        return ['m', {k: norm(v) for k, v in kids.items()}]
    return j


def norm_row(r):
    return r if isinstance(r, dict) else {}


def build(a, rng, root=None):
    """abstract tree -> real nested dicts; the class of every branch and the insertion order vary"""
    if a[0] != 'm':
        return untag(a)
    cls = root or rng.choice(api()['classes'])
    keys = list(a[1])
    rng.shuffle(keys)
    d = cls()
    for k in keys:
        dict.__setitem__(d, k, build(a[1][k], rng))
    return d


def enc(x):
    """deep snapshot of a real tree as an abstract tree"""
    if isinstance(x, dict):
        return ['m', {str(k): enc(v) for k, v in dict.items(x)}]
    return tag(x)


# ---- operands with aliasing: a heap of dict objects (spec/Tree.tla, "Trees as DAGs") -----------------
def norm_objs(objs):
    """what TLC printed -> list of nodes {key: leaf | ["ref", j]} (TLC writes the empty node as [])"""
    return [dict(n) if isinstance(n, dict) else {} for n in objs]


def build_heap(objs, rng, roots=()):
    """abstract heap -> real dict objects, object j built once and hung wherever a cell says ["ref", j];
    roots: {index: class} for objects whose class the call form fixes"""
    roots = dict(roots)
    real = [None] * len(objs)
    for i in reversed(range(len(objs))):
        d = (roots.get(i + 1) or rng.choice(api()['classes']))()
        keys = list(objs[i])
        rng.shuffle(keys)
        for k in keys:
            c = objs[i][k]
            dict.__setitem__(d, k, real[c[1] - 1] if c[0] == 'ref' else untag(c))
        real[i] = d
    return real


def enc_heap(real):
    """every object of the heap as it is now; a nested dict is named by IDENTITY: ["ref", j] when it is object j,
    ["new", snapshot] when it is none of the objects of the heap"""
    ix = {id(d): j + 1 for j, d in enumerate(real)}
    return [{str(k): ((['ref', ix[id(v)]] if id(v) in ix else ['new', enc(v)]) if isinstance(v, dict) else tag(v))
             for k, v in dict.items(d)} for d in real]


def unfold(objs, i):
    """the tree an object stands for (used to pick paths and patterns for an operand, never to judge)"""
    return ['m', {k: (unfold(objs, c[1]) if c[0] == 'ref' else c) for k, c in objs[i - 1].items()}]


def obs_hflatten(objs, rt, rng):
    A = api()
    real = build_heap(objs, rng)
    t = real[rt - 1]
    before = enc_heap(real)
    items = A['tree_items'](t)
    keys = A['tree_keys'](t)
    values = A['tree_values'](t)
    rebuilt = outcome(lambda: enc(A['items_to_tree'](items)))
    return {'op': 'hflatten', 'objs': before, 'rt': rt,
            'items': [[list(it[:-1]), tag(it[-1])] for it in items],
            'keys': [list(k) for k in keys], 'values': [tag(v) for v in values],
            'rebuilt': rebuilt, 'objs_after': enc_heap(real)}


def obs_hget(objs, rt, path, form, rng):
    A = api()
    real = build_heap(objs, rng)
    t = real[rt - 1]
    before = enc_heap(real)
    arg = '.'.join(path) if form.endswith('dotted') else (tuple(path) if form.endswith('tuple') else list(path))
    f = A['tree_getitem'] if form.startswith('getitem') else (lambda tree, item: A['tree_get'](tree, item, 'no such path'))
    out = outcome(lambda: enc(f(t, arg)))
    return {'op': 'hget', 'form': form, 'objs': before, 'rt': rt, 'path': list(path), 'out': out, 'objs_after': enc_heap(real),
            'path_after': path_after(arg, path)}


def obs_hupdate(objs, rt, ru, ign, form, rng):
    """tree_update(t, u) / t + u where t and u are objects of ONE heap: u may be t itself, a branch of t (or t a
    branch of u), or share branches with t; every object is encoded again afterwards"""
    A = api()
    real = build_heap(objs, rng, roots={rt: A['Dict']} if form.startswith('Dict') else ())
    t, u = real[rt - 1], real[ru - 1]
    before = enc_heap(real)
    ignore = [untag(x) for x in ign]
    if form == 'tree_update':
        call = (lambda: A['tree_update'](t, u, ignore=ignore)) if ignore or rng.random() < 0.5 else (lambda: A['tree_update'](t, u))
    elif form == 'Dict_add':
        call = lambda: t + u
    else:
        raise ValueError(form)
    out = outcome(lambda: enc(call()))
    return {'op': 'hupdate', 'form': form, 'objs': before, 'rt': rt, 'ru': ru, 'ign': ign, 'out': out, 'objs_after': enc_heap(real)}


def obs_hto_table(objs, rt, pat, form, rng):
    real = build_heap(objs, rng)
    t = real[rt - 1]
    before = enc_heap(real)
    rows = outcome(lambda: enc_rows(_rows_of(t, pat, form)))
    exc = rows[1] if rows[:1] == ['exc'] else ''
    return {'op': 'hto_table', 'form': form, 'objs': before, 'rt': rt, 'pat': pat, 'rows': [] if exc else rows, 'exc': exc,
            'objs_after': enc_heap(real)}


def run_hist(objs, steps, rng):
    """a history on ONE heap of real objects that outlive the calls: `steps` gives the kinds and arguments (edit: the caller
    writes obj[key] = leaf / another object of the heap; update / items: public calls on objects of the heap); returns the
    observation: every call with its outcome and the whole heap encoded again after it"""
    A = api()
    real = build_heap(objs, rng)
    arg_keys = {'edit': ('kind', 'obj', 'key', 'cell'), 'update': ('kind', 'rt', 'ru', 'ign'), 'items': ('kind', 'rt')}
    o = {'op': 'hhist', 'objs': enc_heap(real), 'hist': [{k: s[k] for k in arg_keys[s['kind']]} for s in steps], 'steps': []}
    for s in steps:
        if s['kind'] == 'edit':
            c = s['cell']
            dict.__setitem__(real[s['obj'] - 1], s['key'], real[c[1] - 1] if c[0] == 'ref' else untag(c))
            o['steps'].append({'kind': 'edit', 'obj': s['obj'], 'key': s['key'], 'cell': c})
        elif s['kind'] == 'update':
            t, u = real[s['rt'] - 1], real[s['ru'] - 1]
            ignore = [untag(x) for x in s['ign']]
            form = 'Dict_add' if type(t) is A['Dict'] and not ignore and rng.random() < 0.5 else 'tree_update'
            call = (lambda: t + u) if form == 'Dict_add' else (lambda: A['tree_update'](t, u, ignore=ignore))
            out = outcome(lambda: enc(call()))
            o['steps'].append({'kind': 'update', 'form': form, 'rt': s['rt'], 'ru': s['ru'], 'ign': s['ign'], 'out': out, 'objs_after': enc_heap(real)})
        else:
            t = real[s['rt'] - 1]
            items = A['tree_items'](t)
            keys = A['tree_keys'](t)
            values = A['tree_values'](t)
            rebuilt = outcome(lambda: enc(A['items_to_tree'](items)))
            o['steps'].append({'kind': 'items', 'rt': s['rt'], 'items': [[list(it[:-1]), tag(it[-1])] for it in items],
                               'keys': [list(k) for k in keys], 'values': [tag(v) for v in values], 'rebuilt': rebuilt,
                               'objs_after': enc_heap(real)})
    return o


# ---- sessions (spec/Tree.tla, "SESSIONS"): the caller's dicts, path objects and table objects outlive the calls ------------
def norm_cell(c):
    """what TLC printed -> a cell: tagged leaf | ["ref", j] | ["m", {key: cell}] (an inline nested dict)"""
    if c[0] == 'm':
        return ['m', {k: norm_cell(v) for k, v in (c[1].items() if isinstance(c[1], dict) else ())}]
    return c


def norm_state(st):
    return {'objs': [{k: norm_cell(v) for k, v in (n.items() if isinstance(n, dict) else ())} for n in st['objs']],
            'paths': [{'kind': q['kind'], 'keys': list(q['keys'])} for q in st['paths']],
            'tabs': [{'kind': tb['kind'], 'rows': [norm_row(r) for r in tb['rows']]} for tb in st['tabs']]}


def build_sheap(objs, rng):
    """abstract heap -> real dict objects; a cell ["ref", j] is THE object j, a cell ["m", ..] a nested dict of its own"""
    real = [None] * len(objs)

    def cell(c):
        if c[0] == 'ref':
            return real[c[1] - 1]
        if c[0] == 'm':
            return node(c[1])
        return untag(c)

    def node(n):
        d = rng.choice(api()['classes'])()
        keys = list(n)
        rng.shuffle(keys)
        for k in keys:
            dict.__setitem__(d, k, cell(n[k]))
        return d
    for i in reversed(range(len(objs))):
        real[i] = node(objs[i])
    return real, cell


def enc_sheap(real):
    """every object of the caller's heap as it is now; a nested dict is named by IDENTITY (["ref", j]) when it is object j of
    the heap - at every depth - and written out inline (["m", ..]) when it is nobody else's"""
    ix = {}
    for j, d in enumerate(real):
        ix.setdefault(id(d), j + 1)

    def cell(v):
        if isinstance(v, dict):
            return ['ref', ix[id(v)]] if id(v) in ix else ['m', {str(k): cell(x) for k, x in dict.items(v)}]
        return tag(v)
    return [{str(k): cell(x) for k, x in dict.items(d)} for d in real], cell


def build_path(q):
    return list(q['keys']) if q['kind'] == 'list' else (tuple(q['keys']) if q['kind'] == 'tuple' else '.'.join(q['keys']))


def enc_path(p):
    if isinstance(p, str):
        return {'kind': 'dotted', 'keys': p.split('.') if p else []}
    return {'kind': 'list' if isinstance(p, list) else 'tuple', 'keys': [str(k) for k in p]}


def build_table(tb):
    rr = real_rows(tb['rows'])
    return rr[0] if tb['kind'] == 'dict' else (api()['dictable'](rr) if tb['kind'] == 'dictable' else rr)


def enc_table(t):
    if isinstance(t, api()['dictable']):
        return {'kind': 'dictable', 'rows': enc_rows(list(t))}
    if isinstance(t, dict):
        return {'kind': 'dict', 'rows': enc_rows([t])}
    return {'kind': 'list', 'rows': enc_rows(t)}


def sunfold(objs, i):
    """the tree an object of a session heap stands for (used to pick arguments, never to judge)"""
    def cell(c):
        if c[0] == 'ref':
            return sunfold(objs, c[1])
        if c[0] == 'm':
            return ['m', {k: cell(v) for k, v in c[1].items()}]
        return c
    return ['m', {k: cell(c) for k, c in objs[i - 1].items()}]


def run_sess(init, calls, rng):
    """a session on ONE set of real objects: dicts (heap), path objects, table objects.  After every step all of them are
    encoded again; the result of tree_update / Dict + dict / table_to_tree joins the heap as a new object"""
    A = api()
    real, mk = build_sheap(init['objs'], rng)
    paths = [build_path(q) for q in init['paths']]
    tabs = [build_table(tb) for tb in init['tabs']]

    def state():
        return {'objs': enc_sheap(real)[0], 'paths': [enc_path(p) for p in paths], 'tabs': [enc_table(t) for t in tabs]}
    st0 = state()
    o = {'op': 'sess', 'objs': st0['objs'], 'paths': st0['paths'], 'tabs': st0['tabs'], 'calls': [], 'steps': []}
    for k in range(len(calls) if isinstance(calls, list) else 99):
        c = calls[k] if isinstance(calls, list) else calls(k, state())      # (a chooser sees the encoded state, to stay in the domain)
        if c is None:
            break
        o['calls'].append(c)
        step = {'call': c}
        kind = c['kind']
        cell = enc_sheap(real)[1]                      # results are encoded against the heap as it is BEFORE they join it
        if kind == 'get':
            t, p = real[c['rt'] - 1], paths[c['p'] - 1]
            f = A['tree_getitem'] if c['fn'] == 'getitem' else (lambda tree, item: A['tree_get'](tree, item, 'no such path'))
            step['out'] = outcome(lambda: cell(f(t, p)))
        elif kind == 'setitem':
            t, p = real[c['rt'] - 1], paths[c['p'] - 1]
            ignore = [untag(x) for x in c['ign']]
            step['out'] = outcome(lambda: tag(A['tree_setitem'](t, p, untag(c['leaf']), ignore=ignore) if ignore or rng.random() < 0.5
                                              else A['tree_setitem'](t, p, untag(c['leaf']))))
        elif kind == 'update':
            t, u = real[c['rt'] - 1], real[c['ru'] - 1]
            ignore = [untag(x) for x in c['ign']]
            form = 'Dict_add' if type(t) is A['Dict'] and not ignore and rng.random() < 0.5 else 'tree_update'
            step['form'] = form
            res = []
            step['out'] = outcome(lambda: cell(res.append((t + u) if form == 'Dict_add' else A['tree_update'](t, u, ignore=ignore)) or res[0]))
            real += res[:1]
        elif kind == 'from_table':
            tb = tabs[c['tb'] - 1]
            res = []
            step['out'] = outcome(lambda: cell(res.append(A['table_to_tree'](None, patstr(c['pat']), tb)) or res[0]))
            real += res[:1]
        elif kind == 'items':
            t = real[c['rt'] - 1]
            items = A['tree_items'](t)
            keys = A['tree_keys'](t)
            values = A['tree_values'](t)
            lists = [list(it) for it in items]                         # the items spelled as lists: caller-owned, mutable
            step.update({'rebuilt': outcome(lambda: cell(A['items_to_tree'](items))),
                         'rebuilt_lists': outcome(lambda: cell(A['items_to_tree'](lists))),
                         'items': [[list(it[:-1]), tag(it[-1])] for it in items],
                         'keys': [list(k) for k in keys], 'values': [tag(v) for v in values],
                         'lists_after': [[['k', str(k)] for k in it[:-1]] + [tag(x) for x in it[-1:]] for it in lists]})
        elif kind == 'to_table':
            t = real[c['rt'] - 1]
            form = rng.choice(['tree_to_table', 'dictable'])
            rows = outcome(lambda: enc_rows(_rows_of(t, c['pat'], form)))
            exc = rows[1] if rows[:1] == ['exc'] else ''
            step.update({'form': form, 'rows': [] if exc else rows, 'exc': exc})
        elif kind == 'edit':                                            # the caller's own writes
            dict.__setitem__(real[c['obj'] - 1], c['key'], mk(c['cell']))
        elif kind == 'setpath':
            paths[c['p'] - 1][:] = list(c['keys'])
        elif kind == 'setrow':
            tb = tabs[c['tb'] - 1]
            (tb if isinstance(tb, dict) else tb[c['row'] - 1])[c['var']] = untag(c['val'])
        else:
            raise ValueError(kind)
        step['after'] = state()
        o['steps'].append(step)
        if step.get('out', [''])[:1] == ['exc']:
            break                                                       # nothing sensible can follow a call that raised
    return o


def sess_fails(want, got):
    """names of the fields of a replayed session that are not == to what TLC printed, step by step"""
    fails = []
    for k, w in enumerate(want):
        if k >= len(got):
            break
        g, kind = got[k], w['call']['kind']
        bad = []
        if kind in ('get', 'setitem'):
            bad += ['out'] if g['out'] != w['out'] else []
        elif kind in ('update', 'from_table'):
            bad += ['out'] if g['out'] != norm_cell(w['out']) else []
        elif kind == 'items':
            t = norm_cell(w['out']['t'])
            items = [[list(q), v] for q, v in w['out']['items']]
            if not (canon(g['items']) == canon(items) and g['keys'] == [it[0] for it in g['items']] and g['values'] == [it[1] for it in g['items']]
                    and g['rebuilt'] == t and g['rebuilt_lists'] == t):
                bad.append('out')
            if g['lists_after'] != [[['k', k_] for k_ in it[0]] + [it[1]] for it in g['items']]:
                bad.append('items_argument')
        elif kind == 'to_table':
            bad += ['out'] if g['exc'] or canon(g['rows']) != canon([norm_row(r) for r in w['out']]) else []
        after = norm_state(w['after'])
        bad += [x for x in ('objs', 'paths', 'tabs') if g['after'][x] != after[x]]
        fails += ['step%d_%s_%s' % (k + 1, kind, x) for x in bad]
    return tuple(fails)


def s2c_sess(ctx, log, cases):
    """sessions TLC enumerated: every call must return what the law says about its arguments as they are at that moment, and
    after every step every object of the caller (dicts by identity, path objects, table objects) must be what TLC printed"""
    for n, c in enumerate(cases):
        init = norm_state(c)
        calls = [st['call'] for st in c['steps']]
        o = run_sess(init, calls, ctx.rng)
        if {k: o[k] for k in ('objs', 'paths', 'tabs')} != init:
            raise Machinery('session objects do not round-trip: %r' % (init,))
        log.s2c(o, sess_fails(c['steps'], o['steps']))
        ctx.note(('sess', json.dumps([init, calls], sort_keys=True)))
        ctx.traces += 1
        if n % 3001 == 1700:
            ctx.sample({'s2c_session': {'objs': init['objs'], 'paths': init['paths'], 'tabs': init['tabs'], 'calls': calls}})


def outcome(f):
    try:
        return f()
    except Exception as e:
        return ['exc', type(e).__name__]


def canon(xs):
    return sorted(json.dumps(x, sort_keys=True) for x in xs)


def patstr(pat):
    return '/'.join(('%' + n) if k == 'var' else n for k, n in pat)


def enc_rows(rows):
    return [{str(k): tag(v) for k, v in dict(r).items()} for r in rows]


def real_rows(rows):
    return [{k: untag(v) for k, v in r.items()} for r in rows]


# ---- one observation per public call (or small group of calls on one operand) -----------------
def obs_flatten(t_abs, rng):
    A = api()
    t = build(t_abs, rng)
    before = enc(t)
    items = A['tree_items'](t)
    keys = A['tree_keys'](t)
    values = A['tree_values'](t)
    rebuilt = outcome(lambda: enc(A['items_to_tree'](items)))
    return {'op': 'flatten', 't': before,
            'items': [[list(it[:-1]), tag(it[-1])] for it in items],
            'keys': [list(k) for k in keys], 'values': [tag(v) for v in values],
            'rebuilt': rebuilt, 'after': enc(t)}


GET_FORMS = ('getitem_dotted', 'getitem_list', 'getitem_tuple', 'get_dotted', 'get_list')


def path_after(arg, path):
    """the path object handed to the call, encoded again afterwards (a string cannot change: it is logged as the path it spelled)"""
    return list(path) if isinstance(arg, str) else [str(k) for k in arg]


def obs_get(t_abs, path, form, rng):
    A = api()
    t = build(t_abs, rng)
    before = enc(t)
    arg = '.'.join(path) if form.endswith('dotted') else (tuple(path) if form.endswith('tuple') else list(path))
    f = A['tree_getitem'] if form.startswith('getitem') else (lambda tree, item: A['tree_get'](tree, item, 'no such path'))
    out = outcome(lambda: enc(f(t, arg)))
    return {'op': 'get', 'form': form, 't': before, 'path': list(path), 'out': out, 'after': enc(t), 'path_after': path_after(arg, path)}


def obs_update(t_abs, u_abs, ign, form, rng):
    A = api()
    t = build(t_abs, rng, root=A['Dict'] if form.startswith('Dict') else None)
    u = build(u_abs, rng)
    bt, bu = enc(t), enc(u)                       # deep snapshots BEFORE the call
    ignore = [untag(x) for x in ign]
    if form == 'tree_update':
        call = (lambda: A['tree_update'](t, u, ignore=ignore)) if ignore or rng.random() < 0.5 else (lambda: A['tree_update'](t, u))
    elif form == 'Dict_add':
        call = lambda: t + u
    else:
        raise ValueError(form)
    out = outcome(lambda: enc(call()))
    return {'op': 'update', 'form': form, 't': bt, 'u': bu, 'ign': ign, 'out': out,
            't_after': enc(t), 'u_after': enc(u)}      # ... and AFTER it


def obs_setitem(t_abs, path, leaf, ign, form, rng):
    A = api()
    t = build(t_abs, rng)
    before = enc(t)
    key = '.'.join(path) if form == 'dotted' else (tuple(path) if form == 'tuple' else list(path))
    ignore = [untag(x) for x in ign]
    r = outcome(lambda: tag(A['tree_setitem'](t, key, untag(leaf), ignore=ignore)))
    o = {'op': 'setitem', 'form': form, 't': before, 'path': list(path), 'leaf': leaf, 'ign': ign, 't_after': enc(t),
         'path_after': path_after(key, path)}
    if r != ['n', 0]:
        o['t_after'] = r
    return o


def _rows_of(t, pat, form):
    A = api()
    if form == 'dictable':
        return list(A['dictable'](t, patstr(pat)))
    return A['tree_to_table'](t, patstr(pat))


def obs_to_table(t_abs, pat, form, rng):
    t = build(t_abs, rng)
    before = enc(t)
    rows = outcome(lambda: enc_rows(_rows_of(t, pat, form)))
    exc = rows[1] if rows[:1] == ['exc'] else ''
    return {'op': 'to_table', 'form': form, 't': before, 'pat': pat, 'rows': [] if exc else rows, 'exc': exc, 'after': enc(t)}


def _table_of(rows, form):
    """the spellings of the table argument: a list of row dicts, a dictable of rows, ONE row as a dict"""
    A = api()
    rr = real_rows(rows)
    return A['dictable'](rr) if form == 'rows_dictable' else (rr[0] if form == 'row_dict' else rr)


def _rows_now(table):
    return enc_rows([table] if isinstance(table, dict) and not isinstance(table, api()['dictable']) else list(table))


def obs_from_table(rows, pat, form):
    A = api()
    table = _table_of(rows, form)
    out = outcome(lambda: enc(A['table_to_tree'](None, patstr(pat), table)))
    return {'op': 'from_table', 'form': form, 'rows': rows, 'pat': pat, 'out': out, 'rows_after': _rows_now(table)}


def obs_round_tree(t_abs, pat, rng):
    A = api()
    t = build(t_abs, rng)
    before = enc(t)
    back = outcome(lambda: enc(A['table_to_tree'](None, patstr(pat), A['tree_to_table'](t, patstr(pat)))))
    return {'op': 'round_tree', 't': before, 'pat': pat, 'back': back, 'after': enc(t)}


def obs_round_rows(rows, pat, form):
    A = api()
    table = _table_of(rows, form)
    rows2 = outcome(lambda: enc_rows(A['tree_to_table'](A['table_to_tree'](None, patstr(pat), table), patstr(pat))))
    exc = rows2[1] if rows2[:1] == ['exc'] else ''
    return {'op': 'round_rows', 'form': form, 'rows': rows, 'pat': pat, 'rows2': [] if exc else rows2, 'exc': exc}


# ---- bookkeeping ------------------------------------------------------------------------------
def root_view(t):
    """the root as a caller sees it without looking into nested dicts"""
    return {k: (['branch', 0] if v[0] == 'm' else v) for k, v in t[1].items()} if isinstance(t[1], dict) else t


def fails_update(o, want):
    """names of the fields of an update observation that are not == to what TLC expects"""
    f = []
    if o['out'] != want:
        f.append('out')
    for x in ('u', 't'):
        if o[x + '_after'] != o[x]:
            f.append(x + ('_after_nested' if o[x + '_after'][0] == 'm' and root_view(o[x + '_after']) == root_view(o[x]) else '_after_root'))
    return tuple(f)


CASE_KEYS = ('op', 'form', 't', 'u', 'ign', 'path', 'leaf', 'pat', 'rows', 'objs', 'rt', 'ru', 'hist', 'paths', 'tabs', 'calls')


# ---- S2C: replay of the cases TLC enumerated ---------------------------------------------------
def s2c_single(ctx, log, cases):
    for n, c in enumerate(cases):
        t = norm(c['t'])
        want = canon([[list(p), v] for p, v in c['items']])
        for rep in range(2):
            o = obs_flatten(t, ctx.rng)
            if o['t'] != t:
                raise Machinery('build/enc do not round-trip: %r' % (t,))
            ok = (canon(o['items']) == want and o['rebuilt'] == t and o['after'] == t
                  and o['keys'] == [it[0] for it in o['items']] and o['values'] == [it[1] for it in o['items']])
            log.s2c(o, ok)
        for p, v in c['items']:
            form = GET_FORMS[(n + len(p)) % len(GET_FORMS)]
            if form.endswith('dotted') and list(p) not in c['spellable']:      # 'a.b.c' spells a path of dot-free keys only (the spec says which)
                form = 'getitem_tuple'
            for f in (form, 'getitem_list'):
                o = obs_get(t, p, f, ctx.rng)
                log.s2c(o, o['out'] == v and o['after'] == t and o['path_after'] == list(p))
        if len(c['items']) >= 2 and any(len(p) >= 2 for p, _ in c['items']):
            ctx.note(('flatten', json.dumps(t, sort_keys=True)))
        ctx.traces += 1
        if n % 499 == 7:
            ctx.sample({'s2c_flatten': {'t': t, 'expected_items': c['items']}})


def s2c_merge(ctx, log, cases):
    for n, c in enumerate(cases):
        t, u, want = norm(c['t']), norm(c['u']), norm(c['out'])
        forms = ['tree_update'] + (['Dict_add'] if not c['ign'] else [])
        for form in forms:
            o = obs_update(t, u, c['ign'], form, ctx.rng)
            if o['t'] != t or o['u'] != u:
                raise Machinery('build/enc do not round-trip: %r %r' % (t, u))
            log.s2c(o, fails_update(o, want))
        for k, sg in enumerate(c['single']):                    # the same update as one tree_setitem on t (in place by design)
            form = ('tuple', 'list', 'dotted')[(n + k) % 3]
            if form == 'dotted' and not sg['spellable']:
                form = 'tuple'
            o = obs_setitem(t, sg['path'], sg['leaf'], c['ign'], form, ctx.rng)
            log.s2c(o, o['t_after'] == want and o['path_after'] == list(sg['path']))
        if want != t and want != u:
            ctx.note(('merge', json.dumps([t, u, c['ign']], sort_keys=True)))
        ctx.traces += 1
        if n % 9973 == 4242:
            ctx.sample({'s2c_update': {'t': t, 'u': u, 'ign': c['ign'], 'expected': want}})


def s2c_heap(ctx, log, cases):
    """operands with aliasing: TLC enumerated the heaps and printed what the law says about the unfolded trees"""
    for n, c in enumerate(cases):
        objs = norm_objs(c['objs'])
        if c['op'] == 'hitems':
            t = norm(c['t'])
            want = canon([[list(p), v] for p, v in c['items']])
            o = obs_hflatten(objs, c['rt'], ctx.rng)
            if o['objs'] != objs:
                raise Machinery('build_heap/enc_heap do not round-trip: %r' % (objs,))
            ok = (canon(o['items']) == want and o['rebuilt'] == t and o['objs_after'] == objs
                  and o['keys'] == [it[0] for it in o['items']] and o['values'] == [it[1] for it in o['items']])
            log.s2c(o, ok)
            for k, (p, v) in enumerate(c['items']):
                o = obs_hget(objs, c['rt'], p, GET_FORMS[(n + k) % len(GET_FORMS)], ctx.rng)
                log.s2c(o, o['out'] == v and o['objs_after'] == objs and o['path_after'] == list(p))
        else:
            want = norm(c['out'])
            for form in ['tree_update'] + (['Dict_add'] if not c['ign'] else []):
                o = obs_hupdate(objs, c['rt'], c['ru'], c['ign'], form, ctx.rng)
                if o['objs'] != objs:
                    raise Machinery('build_heap/enc_heap do not round-trip: %r' % (objs,))
                log.s2c(o, tuple(f for f, bad in (('out', o['out'] != want), ('objs_after', o['objs_after'] != objs)) if bad))
        if c['shared']:
            ctx.note(('heap', c['op'], json.dumps([objs, c['rt'], c.get('ru'), c.get('ign')], sort_keys=True)))
        ctx.traces += 1
        if n % 3001 == 1500:
            ctx.sample({'s2c_aliasing': {k: c[k] for k in ('op', 'objs', 'rt', 'ru', 'ign', 'out', 'items') if k in c}})


def s2c_hist(ctx, log, cases):
    """histories TLC enumerated (call, edit(s) by the caller, call - on the same objects): every call must give what the law
    says about the operands as they are at that moment, and leave the heap as it is"""
    for n, c in enumerate(cases):
        objs = norm_objs(c['objs'])
        o = run_hist(objs, c['steps'], ctx.rng)
        if o['objs'] != objs:
            raise Machinery('build_heap/enc_heap do not round-trip: %r' % (objs,))
        fails = []
        for k, (w, g) in enumerate(zip(c['steps'], o['steps'])):
            if w['kind'] == 'update':
                ok = g['out'] == norm(w['out']) and g['objs_after'] == norm_objs(w['objs_after'])
            elif w['kind'] == 'items':
                ok = (canon(g['items']) == canon([[list(p), v] for p, v in w['items']]) and g['rebuilt'] == norm(w['t'])
                      and g['keys'] == [it[0] for it in g['items']] and g['values'] == [it[1] for it in g['items']]
                      and g['objs_after'] == norm_objs(w['objs_after']))
            else:
                ok = True
            if not ok:
                fails.append('step%d_%s' % (k + 1, w['kind']))
        log.s2c(o, tuple(fails))
        ctx.note(('hist', json.dumps(c, sort_keys=True)))
        ctx.traces += 1
        if n % 2003 == 1000:
            ctx.sample({'s2c_history': c})


def s2c_table(ctx, log, cases):
    for n, c in enumerate(cases):
        t, pat = norm(c['t']), c['pat']
        want = canon([norm_row(r) for r in c['rows']])
        for form in ('tree_to_table', 'dictable'):
            o = obs_to_table(t, pat, form, ctx.rng)
            log.s2c(o, o['exc'] == '' and canon(o['rows']) == want and o['after'] == t)
        if len(pat) >= 2:
            exact = [norm_row(r) for r in c['exact']]
            back = norm(c['back'])
            for form in ('rows_list', 'rows_dictable', 'row_dict'):
                if (exact or form == 'rows_list') and (form != 'row_dict' or len(exact) == 1):
                    o = obs_from_table(exact, pat, form)
                    log.s2c(o, o['out'] == back and o['rows_after'] == exact)
                    o = obs_round_rows(exact, pat, form)
                    log.s2c(o, o['exc'] == '' and canon(o['rows2']) == canon(exact))
        if c['rows']:
            ctx.note(('table', json.dumps([t, pat], sort_keys=True)))
        ctx.traces += 1
        if n % 4999 == 1234:
            ctx.sample({'s2c_table': {'t': t, 'pattern': patstr(pat), 'expected_rows': c['rows']}})


# ---- C2S: seeded random, larger and stranger inputs --------------------------------------------
KEYS = ['a', 'b', 'c', 'd', 'k1', 'name', 'x', 'Zz']
# the key alphabet: keys are arbitrary strings.  Keys with dots (whose split may be a path of the tree), the empty key,
# keys that are prefixes / concatenations of other keys, names of methods and attributes of dict / dictattr / Dict
STRANGE = ['a.b', 'a.b.c', 'b.a', 'a.a', '.a', 'a.', '.', '', 'ab', 'keys', 'items', 'copy', 'update', 'get', 'values',
           '_x', '__class__', '__dict__', 'a b', '0', 'None']


def spellable(path):
    """'a.b.c' spells a path only when none of its keys contains a dot"""
    return all('.' not in k for k in path)


def get_form(rng, path):
    f = rng.choice(GET_FORMS)
    return f if spellable(path) or not f.endswith('dotted') else f.replace('dotted', 'list')


def hangs_twice(objs, roots):
    """bookkeeping only: some object is referenced from two places (or is a root and referenced, or is both roots)"""
    where = list(roots) + [c[1] for n in objs for c in n.values() if c[0] == 'ref']
    return len(set(where)) < len(where)


def rand_heap(rng, keys, leaves):
    """a random DAG of dict objects with two roots (1 = t, ru = u): references point to later objects and prefer a
    few of them, so that the same object hangs in several places; unreachable objects are dropped"""
    n = rng.choice([2, 3, 3, 4, 5, 6])
    objs = []
    for i in range(1, n + 1):
        later = list(range(i + 1, n + 1))
        fav = rng.sample(later, min(2, len(later)))
        node = {}
        for k in rng.sample(keys, min(len(keys), rng.choice([1, 2, 2, 3]))):
            node[k] = ['ref', rng.choice(fav)] if fav and rng.random() < 0.6 else rng.choice(leaves)
        objs.append(node)
    ru = rng.choice([1, 1] + list(range(2, n + 1)))
    seen, stack = set(), [1, ru]
    while stack:
        i = stack.pop()
        if i not in seen:
            seen.add(i)
            stack += [c[1] for c in objs[i - 1].values() if c[0] == 'ref']
    order = sorted(seen)
    new = {old: j + 1 for j, old in enumerate(order)}
    objs = [{k: (['ref', new[c[1]]] if c[0] == 'ref' else c) for k, c in objs[old - 1].items()} for old in order]
    return objs, 1, new[ru]
LEAVES = [["n", 0], ["i", 0], ["i", 1], ["i", -7], ["i", 2147483647], ["s", ""], ["s", "s"], ["s", "a"], ["s", "x y"],
          ["l", []], ["l", [["i", 1]]], ["l", [["i", 1], ["s", "s"]]], ["l", [["l", [["i", 1]]], ["n", 0]]], ["l", [["n", 0]]]]


def rand_tree(rng, depth, keys, leaves, top=True):
    nk = rng.choice([0, 1, 2, 3, 4]) if top else rng.choice([1, 1, 2, 3])
    kids = {}
    for k in rng.sample(keys, min(nk, len(keys))):
        if depth > 1 and rng.random() < 0.55:
            kids[k] = rand_tree(rng, depth - 1, keys, leaves, False)
        else:
            kids[k] = rng.choice(leaves)
    return ['m', kids]


def items_of(t, prefix=()):
    if t[0] != 'm':
        return [(list(prefix), t)]
    return [it for k, v in t[1].items() for it in items_of(v, prefix + (k,))]


def perturb(rng, t, keys, leaves, depth):
    """a second tree that overlaps the first: some of its paths with other leaves, leaves turned into
    branches and branches into leaves, new keys"""
    def go(x, d):
        if x[0] != 'm':
            r = rng.random()
            if r < 0.3:
                return x
            if r < 0.7 or d <= 0:
                return rng.choice(leaves)
            return rand_tree(rng, max(1, d), keys, leaves, False)
        out = {}
        for k, v in x[1].items():
            r = rng.random()
            if r < 0.35:
                continue
            out[k] = rng.choice(leaves) if r < 0.45 else go(v, d - 1)
        for k in rng.sample(keys, rng.choice([0, 0, 1, 2])):
            if k not in out:
                out[k] = rng.choice(leaves) if d <= 0 or rng.random() < 0.6 else rand_tree(rng, max(1, d), keys, leaves, False)
        if not out:
            out[rng.choice(keys)] = rng.choice(leaves)
        return ['m', out]
    u = go(t, depth)
    if rng.random() < 0.05:
        return ['m', {}]
    return u


def rand_pattern(rng, t, keys):
    its = items_of(t)
    n = rng.choice([1, 2, 2, 3, 3, 4, 5])
    base = None
    if its and rng.random() < 0.8:
        p, _ = rng.choice(its)
        base = p
    names = ['x', 'y', 'z', 'w', 'v1']
    rng.shuffle(names)
    nv = rng.choice([1, 1, 2, 2, 3, 4])
    var_pos = set(rng.sample(range(n), min(nv, n)))
    pat = []
    for i in range(n):
        if i in var_pos:
            pat.append(['var', names.pop()])
        else:
            lit = base[i] if base and i < len(base) and rng.random() < 0.85 else rng.choice(keys)
            pat.append(['lit', lit])
    return pat


def no_ref_on_walk(node, keys):
    for k in keys:
        if k not in node:
            return True
        c = node[k]
        if c[0] == 'ref':
            return False
        if c[0] != 'm':
            return True
        node = c[1]
    return True


def rand_sess(rng, keys, leaves):
    """a random world (heap with shared and inline branches and maybe an empty dict, 4 path objects, 3 table objects) and a
    chooser of 3-7 steps that looks at the encoded state only to stay inside the domain (listed paths, unique row paths)"""
    objs, rt, ru = rand_heap(rng, keys, leaves)
    for n in objs:
        for k in list(n):
            if n[k][0] != 'ref' and rng.random() < 0.2:
                n[k] = rand_tree(rng, 2, keys, leaves, False)
    if rng.random() < 0.3:
        objs.append({})
    listed = [q for i in range(1, len(objs) + 1) for q, _ in items_of(sunfold(objs, i))]

    def kind_for(q):
        return rng.choice(['list', 'list', 'tuple', 'dotted'] if spellable(q) and all(q) else ['list', 'list', 'tuple'])
    paths = []
    for _ in range(4):
        q = rng.choice(listed) if listed and rng.random() < 0.85 else [rng.choice(keys) for _ in range(rng.choice([1, 2]))]
        paths.append({'kind': kind_for(q), 'keys': list(q)})
    # tables for one pattern that ends in a wildcard (the leaf)
    n = rng.choice([2, 2, 3, 4])
    names = ['x', 'y', 'z', 'w']
    pat = [['var', names[i]] if i == n - 1 or rng.random() < 0.6 else ['lit', rng.choice(keys)] for i in range(n)]
    lastvar = pat[-1][1]

    def rand_rows(m):
        rows, seen = [], set()
        for _ in range(m * 3):
            r = {name: (["s", rng.choice(keys)] if name != lastvar else rng.choice(LEAVES)) for k, name in pat if k == 'var'}
            key = tuple(r[name][1] if k == 'var' else name for k, name in pat[:-1])
            if key not in seen and len(rows) < m:
                seen.add(key); rows.append(r)
        return rows
    tabs = [{'kind': 'dict', 'rows': rand_rows(1)}, {'kind': 'list', 'rows': rand_rows(rng.choice([1, 2, 3]))},
            {'kind': rng.choice(['dictable', 'list']), 'rows': rand_rows(rng.choice([1, 2]))}]
    init = {'objs': objs, 'paths': paths, 'tabs': tabs}
    nsteps = rng.choice([3, 4, 5, 6, 7])

    def choose(k, st):
        if k >= nsteps:
            return None
        objs, m = st['objs'], len(st['objs'])
        for _ in range(20):
            kind = rng.choice(['get', 'get', 'get', 'setitem', 'setitem', 'update', 'update', 'items', 'to_table', 'from_table',
                               'edit', 'setpath', 'setrow'] if k else ['get', 'get', 'setitem', 'update', 'update', 'items', 'to_table', 'from_table'])
            rt = rng.randrange(1, m + 1)
            T = sunfold(objs, rt)
            its = [q for q, _ in items_of(T)] if T[1] else []
            if kind == 'get':
                ps = [j + 1 for j, q in enumerate(st['paths']) if q['keys'] in its]
                if ps:
                    return {'kind': 'get', 'fn': rng.choice(['getitem', 'get']), 'rt': rt, 'p': rng.choice(ps)}
            elif kind == 'setitem':
                ps = [j + 1 for j, q in enumerate(st['paths']) if q['keys'] and no_ref_on_walk(objs[rt - 1], q['keys'][:-1])]
                if ps:
                    return {'kind': 'setitem', 'rt': rt, 'p': rng.choice(ps), 'leaf': rng.choice(leaves), 'ign': rng.choice([[], [], [["n", 0]], rng.sample(leaves, 1)])}
            elif kind == 'update':
                return {'kind': 'update', 'rt': rt, 'ru': rng.choice([rt, rng.randrange(1, m + 1), m]), 'ign': rng.choice([[], [], [], [["n", 0]]])}
            elif kind == 'items':
                return {'kind': 'items', 'rt': rt}
            elif kind == 'to_table':
                return {'kind': 'to_table', 'rt': rt, 'pat': rand_pattern(rng, T, keys)}
            elif kind == 'from_table':
                tb = rng.randrange(1, len(st['tabs']) + 1)
                rows = st['tabs'][tb - 1]['rows']
                sig = [tuple(r[name][1] if kk == 'var' else name for kk, name in pat[:-1]) for r in rows]
                if len(set(sig)) == len(sig) and len(set(json.dumps(r, sort_keys=True) for r in rows)) == len(rows):
                    return {'kind': 'from_table', 'tb': tb, 'pat': pat}
            elif kind == 'edit':
                later = [x for x in range(rt + 1, m + 1) if objs[x - 1]]
                cell = ['ref', rng.choice(later)] if later and rng.random() < 0.25 else rng.choice(leaves)
                return {'kind': 'edit', 'obj': rt, 'key': rng.choice(list(objs[rt - 1]) + keys), 'cell': cell}
            elif kind == 'setpath':
                ps = [j + 1 for j, q in enumerate(st['paths']) if q['kind'] == 'list']
                if ps:
                    q = rng.choice(its) if its and rng.random() < 0.8 else [rng.choice(keys)]
                    return {'kind': 'setpath', 'p': rng.choice(ps), 'keys': list(q)}
            elif kind == 'setrow':
                tbs = [j + 1 for j, t_ in enumerate(st['tabs']) if t_['kind'] in ('dict', 'list') and t_['rows']]
                if tbs:
                    tb = rng.choice(tbs)
                    return {'kind': 'setrow', 'tb': tb, 'row': rng.randrange(1, len(st['tabs'][tb - 1]['rows']) + 1), 'var': lastvar, 'val': rng.choice(LEAVES)}
        return None
    return init, choose


def c2s(ctx, log, n):
    rng = ctx.rng
    for i in range(n):
        depth = rng.choice([1, 2, 3, 3, 4, 5])
        keys = rng.sample(KEYS, rng.choice([2, 3, 4, 8]))
        leaves = rng.sample(LEAVES, rng.choice([2, 4, len(LEAVES)]))
        if i % 3 == 1:                                    # a third of the trees over the strange part of the key alphabet
            keys = rng.sample(STRANGE, rng.choice([2, 3, 5])) + rng.sample(['a', 'b'], rng.choice([1, 2]))
        t = rand_tree(rng, depth, keys, leaves)
        its = items_of(t)
        log.c2s(obs_flatten(t, rng))
        for p, _ in rng.sample(its, min(3, len(its))):
            log.c2s(obs_get(t, p, get_form(rng, p), rng))
        # pairs: the tree with itself, with {}, with overlapping and with independent trees; ignore lists
        others = [t, ['m', {}], perturb(rng, t, keys, leaves, depth), perturb(rng, t, keys, leaves, depth),
                  rand_tree(rng, depth, keys, leaves)]
        for u in others:
            ign = rng.choice([[], [], [["n", 0]], rng.sample(leaves, min(2, len(leaves))), rng.sample(LEAVES, 3)])
            form = rng.choice(['tree_update', 'tree_update', 'Dict_add']) if not ign else 'tree_update'
            o = obs_update(t, u, ign, form, rng)
            log.c2s(o)
            if o['out'] != o['t'] and o['out'] != o['u']:
                ctx.note(('c2s-merge', json.dumps([t, u, ign], sort_keys=True)))
        # tree_setitem on listed paths, above, below and beside them
        for _ in range(3):
            if its and rng.random() < 0.8:
                p, _leaf = rng.choice(its)
                r = rng.random()
                path = p if r < 0.4 else (p + [rng.choice(keys)] if r < 0.6 else (p[:-1] if len(p) > 1 and r < 0.8 else p[:-1] + [rng.choice(keys)]))
            else:
                path = [rng.choice(keys) for _ in range(rng.choice([1, 2, 3]))]
            ign = rng.choice([[], [["n", 0]], rng.sample(leaves, 1)])
            log.c2s(obs_setitem(t, path, rng.choice(leaves), ign, rng.choice(['dotted', 'tuple', 'list'] if spellable(path) else ['tuple', 'list']), rng))
        # patterns
        for _ in range(3):
            pat = rand_pattern(rng, t, keys)
            o = obs_to_table(t, pat, rng.choice(['tree_to_table', 'dictable']), rng)
            log.c2s(o)
            if o['rows']:
                ctx.note(('c2s-table', json.dumps([t, pat], sort_keys=True)))
            if len(pat) >= 2:
                log.c2s(obs_round_tree(t, pat, rng))
                # rows with unique paths: one row per distinct path
                rows, seen = [], set()
                for _ in range(rng.choice([0, 1, 2, 4, 7])):
                    r = {}
                    for j, (k, name) in enumerate(pat):
                        if k == 'var':
                            r[name] = ["s", rng.choice(keys)] if j < len(pat) - 1 else rng.choice(LEAVES)
                    key = tuple(r[name][1] if k == 'var' else name for k, name in pat[:-1])
                    if key not in seen:
                        seen.add(key); rows.append(r)
                form = rng.choice(['rows_list', 'rows_dictable'] + (['row_dict', 'row_dict'] if len(rows) == 1 else [])) if rows else 'rows_list'
                log.c2s(obs_from_table(rows, pat, form))
                log.c2s(obs_round_rows(rows, pat, form))
        # operands with aliasing: one heap, t = object 1, u = any object (t itself, a branch of t, a tree sharing branches with t)
        for _ in range(2):
            objs, rt, ru = rand_heap(rng, keys, leaves)
            log.c2s(obs_hflatten(objs, rt, rng))
            hits = items_of(unfold(objs, rt))
            for p, _ in rng.sample(hits, min(2, len(hits))):
                log.c2s(obs_hget(objs, rt, p, get_form(rng, p), rng))
            for a, b in ((rt, ru), (ru, rt), (rt, rt)):
                ign = rng.choice([[], [], [["n", 0]], rng.sample(leaves, min(2, len(leaves)))])
                o = obs_hupdate(objs, a, b, ign, rng.choice(['tree_update', 'Dict_add']) if not ign else 'tree_update', rng)
                log.c2s(o)
                if hangs_twice(objs, (a, b)):
                    ctx.note(('c2s-heap', json.dumps([objs, a, b, ign], sort_keys=True)))
            log.c2s(obs_hto_table(objs, rt, rand_pattern(rng, unfold(objs, rt), keys), rng.choice(['tree_to_table', 'dictable']), rng))
            # a history on the same objects: calls, edits by the caller in between, calls again
            steps = []
            m = len(objs)
            for _ in range(rng.choice([3, 4, 5, 6])):
                r = rng.random()
                if steps and r < 0.45:
                    j = rng.randrange(1, m + 1)
                    later = [x for x in range(j + 1, m + 1)]
                    cell = ['ref', rng.choice(later)] if later and rng.random() < 0.25 else rng.choice(leaves)
                    steps.append({'kind': 'edit', 'obj': j, 'key': rng.choice(list(objs[j - 1]) + keys), 'cell': cell})
                elif r < 0.85:
                    a, b = rng.choice([(rt, ru), (rt, ru), (ru, rt), (rt, rt), (rng.randrange(1, m + 1), rng.randrange(1, m + 1))])
                    steps.append({'kind': 'update', 'rt': a, 'ru': b, 'ign': rng.choice([[], [], [], [["n", 0]]])})
                else:
                    steps.append({'kind': 'items', 'rt': rng.choice([rt, ru])})
            log.c2s(run_hist(objs, steps, rng))
        # a session: dicts, path objects and table objects that outlive the calls; results join the heap and are edited in place
        for _ in range(2):
            init, choose = rand_sess(rng, keys, leaves)
            o = run_sess(init, choose, rng)
            log.c2s(o)
            ctx.note(('c2s-sess', json.dumps([init, o['calls']], sort_keys=True)))
        if i % 97 == 5:
            ctx.sample({'c2s_observation': log.obs[-1]})


def gen(ctx, module, cfg):
    """TLC's workers print the cases in an order that varies from run to run: sort them, so that everything the
    driver derives from the position of a case (class rotation, seeded choices, samples) is reproducible"""
    return sorted(ctx.generate(module, cfg), key=lambda c: json.dumps(c, sort_keys=True))


def run(ctx):
    ctx.rule = ('S2C: every tree / (t, u, ignore) / (t, pattern) of the TLC-enumerated universes is built as a real nesting of '
                'dict/Dict/dictattr (classes and insertion order drawn from the seed) and replayed through tree_items/keys/values, '
                'items_to_tree, tree_getitem/tree_get (3 spellings of the path), tree_update (with and without ignore), Dict + dict, '
                'tree_to_table, dictable(tree, pattern), table_to_tree; the encoded result and the deep snapshots of t and u taken '
                'before and after the call are compared with ==.  C2S: random trees to depth 5 over 8 keys and 14 leaves with '
                'overlapping / conflicting partners, ignore lists, tree_setitem and random patterns (1-4 wildcards), judged by Trace_Tree. '
                'Key alphabet: the TLC universes include trees over "a", "ab", "a.ab" (a dotted key beside the path a -> ab it would spell), '
                '"" and "keys"; an update with a single item is also replayed as tree_setitem(t, path, leaf, ignore); the dotted spelling of a '
                'path is used only where the spec says it spells the path.  C2S draws a third of its trees over 21 strange keys (dots, empty, '
                'prefixes, method / dunder names).  '
                'Aliasing: MC_TreeHeap enumerates operands as DAGs of dict OBJECTS (the same object under two keys / at two depths / in t and '
                'in u, u is t, u a branch of t and the reverse); the driver builds exactly that object graph, the law is applied to the '
                'unfolded trees and every object of the heap is encoded again (references by identity) after the call and compared with ==.  '
                'Histories: MC_TreeHist enumerates call ; edit by the caller ; call on the SAME objects (tree_update / Dict + dict / '
                'tree_items..), each call compared with the law on what the operands hold at that moment.  C2S: random heaps (<= 6 objects) '
                'and random histories (3-6 steps) on them, judged by Trace_Tree (hflatten/hget/hupdate/hto_table/hhist).  '
                'Sessions: MC_TreeSess enumerates what a caller who KEEPS its objects does: a heap of dicts (shared, inline and empty ones), one path '
                'object of each kind (list / tuple / dotted string) spelling the same path, table objects (ONE row as a dict / list of dicts / dictable, '
                'leaves 1, [], [1], [1, None]); two steps (thorough: wider worlds, simulated 6-step sessions) out of tree_getitem / tree_get / tree_setitem / '
                'tree_update / Dict + dict / tree_items.. + items_to_tree (items as tuples and as lists) / tree_to_table / table_to_tree and the '
                'caller\'s own writes (d[k] = v, path[:] = keys, row[var] = v); the result of a merge / table_to_tree joins the heap and is edited in '
                'place by the next step.  After EVERY step all the caller\'s objects are encoded again (dicts by identity at every depth, path and '
                'table objects by value) and compared with == against the state TLC printed; C2S: random sessions of 3-7 steps judged by Trace_Tree (sess).  '
                'Single-call lookups / tree_setitem also log the path object after the call; table_to_tree is also replayed with ONE row as a dict.  '
                'Non-trivial = merge whose result is neither t nor u; flatten of a tree with >= 2 items and a nested path; '
                'pattern with at least one row; heap in which some object hangs in two places; every history; every session.  Distinct by abstract input.')
    ctx.mc('MC_Tree', 'MC_Tree_quick.cfg' if ctx.quick else 'MC_Tree_thorough.cfg')
    # the non-destruction clause on a heap model with aliasing: the code's copy.copy of the root is refuted by TLC
    # (design-level counterpart of the violation the replay finds), copying every branch (the repair) is proved
    ctx.mc('MC_TreeHeap', 'MC_TreeHeap_today.cfg', must_fail='OperandsIntactAtReturn')
    ctx.mc('MC_TreeHeap', 'MC_TreeHeap_repaired.cfg' if ctx.quick else 'MC_TreeHeap_repaired_wide.cfg')
    if not ctx.quick:                      # the other design-level counterparts (must-fail mechanism models) run in the thorough tier
        ctx.mc('MC_TreeHeap', 'MC_TreeHeap_once.cfg', must_fail='ResultIsMerge')
        ctx.mc('MC_Tree', 'MC_Tree_eafp.cfg', must_fail='EAFPLookupIsMerge')
        ctx.mc('MC_TreeHist', 'MC_TreeHist_cached.cfg', must_fail='CallsAreMerges')
    ctx.extra['mechanism_models'] = ('MC_TreeHeap (operands = DAGs of dict objects, u may be t / a branch of t / share branches with t): '
                                     'copy.copy(root) + in-place insertion violates OperandsIntact and a walk that skips objects it has seen '
                                     'violates ResultIsMerge (thorough) (expected, must-fail runs); copying every branch + walking the unfolding satisfies both.  '
                                     'MC_TreeSess (thorough): tree_getitem that consumes a list path with pop(0) violates PoolsUntouched, tree_update that returns `tree` itself for an update without items violates ResultsIndependent (a later write to the result reaches the operand), table_to_tree that reads one dict as a dict of columns violates CallsAreLaw (must-fail runs; the code as it is satisfies all three).  '
                                     'MC_Tree/EAFPLookupIsMerge (thorough): _tree_setitem with one dictattr lookup res[key] resolves a missing '
                                     'dotted key as a path and is refuted (must-fail run); MC_TreeHist/CallsAreMerges (thorough): a memo of the last flattened update keyed on object identity is refuted over histories call ; edit ; call')
    # sessions: the caller's dicts, path objects and table objects outlive the calls (law against the code's loops, and the
    # three seeded mechanisms - consumed list path, result that IS the operand, one dict read as columns - refuted)
    ctx.mc('MC_TreeSess', 'MC_TreeSess_quick.cfg' if ctx.quick else 'MC_TreeSess_thorough.cfg')
    if not ctx.quick:
        ctx.mc('MC_TreeSess', 'MC_TreeSess_poppath.cfg', must_fail='PoolsUntouched')
        ctx.mc('MC_TreeSess', 'MC_TreeSess_selfresult.cfg', must_fail='ResultsIndependent')
        ctx.mc('MC_TreeSess', 'MC_TreeSess_columns.cfg', must_fail='CallsAreLaw')
    log = Log(ctx, 1500 if ctx.quick else 20000)
    cases = gen(ctx, 'MC_Tree', 'MC_Tree_gen.cfg' if ctx.quick else 'MC_Tree_gent.cfg')     # all three families in one TLC run
    s2c_single(ctx, log, [c for c in cases if c['op'] == 'items'])
    s2c_merge(ctx, log, [c for c in cases if c['op'] == 'update'])
    cases = [c for c in cases if c['op'] == 'table']
    if ctx.quick:
        cases = [c for i, c in enumerate(cases) if i % 3 == ctx.seed % 3]
    s2c_table(ctx, log, cases)
    s2c_heap(ctx, log, gen(ctx, 'MC_TreeHeap', 'MC_TreeHeap_gen.cfg' if ctx.quick else 'MC_TreeHeap_gent.cfg'))
    # histories: the same operand objects handed to consecutive calls and edited by their owner in between (the law - no call has
    # a memory - is checked on the mechanism model in the same TLC run that enumerates the histories)
    s2c_hist(ctx, log, gen(ctx, 'MC_TreeHist', 'MC_TreeHist_gen.cfg' if ctx.quick else 'MC_TreeHist_gent.cfg'))
    s2c_sess(ctx, log, gen(ctx, 'MC_TreeSess', 'MC_TreeSess_gen.cfg' if ctx.quick else 'MC_TreeSess_gent.cfg'))
    if not ctx.quick:                      # longer sessions (6 steps), simulated by TLC
        s2c_sess(ctx, log, sorted(ctx.generate('MC_TreeSess', 'MC_TreeSess_sim.cfg', simulate=2000, depth=7, seed=ctx.seed + 1),
                                  key=lambda c: json.dumps(c, sort_keys=True)))
    c2s(ctx, log, 300 if ctx.quick else 5000)
    judge(ctx, log, 'Trace_Tree', CASE_KEYS)
    ctx.exhaustive = False
    ctx.assumptions += [
        'keys are arbitrary strings (dots, empty, leading "_", names of dict methods included) except that keys used as literal parts of a pattern contain no "/" and no leading "%" (the pattern syntax); '
        'the dotted spelling "a.b.c" of a path is used only for paths whose keys contain no "." (it spells no other path); '
        'leaves are None/ints/strings/lists (no bool/int/float mixing, so membership in an ignore list is plain equality)',
        'aliasing: operand heaps are acyclic (a dict that contains itself is not a finite tree); the law is stated on the unfolded trees; "not modified" is read per object, identities of nested dicts included; '
        'tree_setitem (in place by design) is not replayed on operands with aliasing - the statement does not say what it does to a shared branch',
        'histories: between two calls the caller writes obj[key] = leaf or obj[key] = another dict of the heap; calls are tree_update / Dict + dict / tree_items+keys+values+items_to_tree',
        'branches are dict, Dict or dictattr (the default `types`); nested branches are non-empty, the root may be {}',
        'sessions: a result (tree_update / Dict + dict / table_to_tree(None, ..)) must be a tree of its own at every depth - no dict of a result is a dict the caller '
        'already had - also when nothing was merged; list LEAVES are shared between operand and result (the code copies branches, not leaves; the statement does not say) '
        'and are never edited in place; tree_setitem is replayed with a caller-owned path object on any dict of the heap as long as the walk does not pass through a '
        'reference to another of the caller\'s dicts; a session starts with a public call; a table given as ONE dict is one row (never a dict of columns)',
        'patterns have distinct wildcard names; rows handed to table_to_tree have string values at key positions and unique paths',
        'a pattern shorter than the tree matches the KEYS of the branch it ends on (named deviation MatchesBranchKey, the documented behaviour)',
        'small scope: MC/S2C trees have depth <= 2 over 2 keys (plus 48 sampled depth-3 trees, plus 3-key trees for flatten, plus 63 (thorough 215) trees to depth 3 over dotted keys and 15 over ""/"keys"); '
        'S2C heaps have <= 3 (thorough 4) objects over 2 keys, S2C histories 2 objects and 3 (thorough 4) steps; C2S trees reach depth 5, C2S heaps 6 objects; '
        'S2C sessions: 12 worlds (thorough ~150), 2 steps (thorough also simulated sessions of 6 steps), C2S sessions 3-7 steps on heaps of <= 7 objects',
    ]


def replay(ctx, body):
    """re-execute one recorded failing case and show what the code does now"""
    c = body['case']
    rng = ctx.rng
    if c['op'] == 'update':
        o = obs_update(c['t'], c['u'], c['ign'], c.get('form', 'tree_update'), rng)
    elif c['op'] == 'flatten':
        o = obs_flatten(c['t'], rng)
    elif c['op'] == 'get':
        o = obs_get(c['t'], c['path'], c['form'], rng)
    elif c['op'] == 'setitem':
        o = obs_setitem(c['t'], c['path'], c['leaf'], c['ign'], c['form'], rng)
    elif c['op'] == 'to_table':
        o = obs_to_table(c['t'], c['pat'], c['form'], rng)
    elif c['op'] == 'from_table':
        o = obs_from_table(c['rows'], c['pat'], c['form'])
    elif c['op'] == 'round_tree':
        o = obs_round_tree(c['t'], c['pat'], rng)
    elif c['op'] == 'hflatten':
        o = obs_hflatten(c['objs'], c['rt'], rng)
    elif c['op'] == 'hget':
        o = obs_hget(c['objs'], c['rt'], c['path'], c['form'], rng)
    elif c['op'] == 'hupdate':
        o = obs_hupdate(c['objs'], c['rt'], c['ru'], c['ign'], c.get('form', 'tree_update'), rng)
    elif c['op'] == 'hto_table':
        o = obs_hto_table(c['objs'], c['rt'], c['pat'], c['form'], rng)
    elif c['op'] == 'hhist':
        o = run_hist(c['objs'], c['hist'], rng)
    elif c['op'] == 'sess':
        o = run_sess({k: c[k] for k in ('objs', 'paths', 'tabs')}, list(c['calls']), rng)
    else:
        o = obs_round_rows(c['rows'], c['pat'], c.get('form', 'rows_list'))
    bad = ctx.validate('Trace_Tree', [o])
    print(json.dumps(o, indent=1))
    print('verdict:', bad[0][1] if bad else 'accepted')
    return 1 if bad else 0
