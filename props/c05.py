"""C05 - Calendar business-day arithmetic agrees with day-by-day counting; the registry calendar(key)
reflects the holidays a key was last registered with.

Python here only renders abstract inputs (ordinals, holiday lists, weekend lists) into real Calendar
objects and datetimes, calls the public API, and encodes what came back.  Every expectation is printed
by TLC (MC_Calendar / MC_CalendarReg generators) or decided by TLC (Trace_Calendar)."""
import datetime, os, signal
import numpy as np

from harness.core import Machinery
from harness import tlc

JVM = {'JAVA_TOOL_OPTIONS': '-Xss32m'}     # deep (but finite) recursion of the day-by-day operators
CPU_LIMIT = 3.0       # virtual CPU seconds for one public call (calls take < 1 ms when they terminate)
PER_SIG = 25          # violations listed per (clause, op); further ones of the same kind are only counted
MAX_HUNG = 20         # stop replaying after this many calls that did not terminate (the verdict is settled)
_sig = {}
_hung = [0]


class Collector(object):
    """what a replay worker process collects instead of writing into ctx (merged by the parent, in order)"""
    def __init__(self):
        self.viol, self.notes, self.samples, self.assumptions = [], [], [], []
        self.evals = self.traces = 0
        self.extra = {}

    def violation(self, clause, case, detail=None):
        self.viol.append((clause, case, detail))

    def note(self, key):
        self.notes.append(key)

    def sample(self, x, limit=5):
        if len(self.samples) < limit:
            self.samples.append(x)


def nproc():
    return max(1, min(16, int(os.environ.get('VERIF_TLC_WORKERS', 16)), os.cpu_count() or 1))


def _worker(args):
    fn, chunk, k0 = args
    signal.signal(signal.SIGVTALRM, _alarm)
    saved = (dict(_sig), _hung[0], set(_reported))
    _sig.clear(); _hung[0] = 0; _reported.clear()
    col = Collector()
    try:
        fn(col, chunk, k0)
    finally:                               # (matters only when the chunk is run in the parent process itself)
        _sig.clear(); _sig.update(saved[0]); _hung[0] = saved[1]; _reported.clear(); _reported.update(saved[2])
    return col


def spread(ctx, fn, items):
    """fn(collector, chunk, index of its first item) over contiguous chunks of `items` in forked worker processes
    (each has its own pyg_base registry); what they collected is merged into ctx in the order of the items, so the
    outcome does not depend on the number of processes"""
    import multiprocessing
    import pyg_base                    # (before the fork: the workers inherit the imported library)
    n = nproc()
    size = max(1, -(-len(items) // (4 * n)))
    jobs = [(fn, items[i:i + size], i) for i in range(0, len(items), size)]
    if n == 1 or len(jobs) == 1:
        cols = [_worker(j) for j in jobs]
        signal.signal(signal.SIGVTALRM, _alarm)
    else:
        with multiprocessing.get_context('fork').Pool(n) as pool:
            cols = pool.map(_worker, jobs, chunksize=1)
    for col in cols:
        ctx.evals += col.evals; ctx.traces += col.traces
        for clause, case, detail in col.viol:
            record(ctx, clause, case, detail)
        for k in col.notes:
            ctx.note(k)
        for x in col.samples:
            ctx.sample(x)
        for a in col.assumptions:
            if a not in ctx.assumptions:
                ctx.assumptions.append(a)
        for k, v in col.extra.items():
            ctx.extra[k] = ctx.extra.get(k, 0) + v


def record(ctx, clause, case, detail):
    """ctx.violation, listing at most PER_SIG cases of one kind so that one defect cannot crowd out another"""
    if isinstance(detail, dict) and isinstance(detail.get('observed'), dict) and detail['observed'].get('cls') == 'DidNotTerminate':
        _hung[0] += 1
    k = (clause, case.get('op'))
    _sig[k] = _sig.get(k, 0) + 1
    if _sig[k] <= PER_SIG:
        ctx.violation(clause, case, detail)
    else:
        ctx.extra['further_violations_not_listed'] = ctx.extra.get('further_violations_not_listed', 0) + 1


def settled(ctx):
    return _hung[0] >= MAX_HUNG


class _Timeout(BaseException):
    pass


def _alarm(signum, frame):
    raise _Timeout()


def D(o):
    return datetime.datetime.fromordinal(o)


def R(o, r):
    """the day with ordinal o carried by the realisation r the specification names (Calendar.tla, Reals)"""
    d = datetime.datetime.fromordinal(o)
    if r == 'dt':
        return d
    if r == 'tod':
        return d.replace(hour=1 + o % 23, minute=30)
    if r == 'date':
        return d.date()
    import pandas as pd
    if r == 'ts':
        return pd.Timestamp(d)
    if r == 'tstod':
        return pd.Timestamp(d) + pd.Timedelta(days=1) - pd.Timedelta(microseconds=1)
    raise Machinery('unknown realisation %r' % (r,))


def _midnight(x):
    return isinstance(x, datetime.datetime) and x.tzinfo is None and (x.hour, x.minute, x.second, x.microsecond) == (0, 0, 0, 0)


def enc(x):
    """concrete result -> sequence of integers (the spec's answer format), or a description of what it is instead"""
    if isinstance(x, (bool, np.bool_)):
        return {'kind': 'val', 'v': [1 if x else 0]}
    if isinstance(x, (int, np.integer)):
        return {'kind': 'val', 'v': [int(x)]}
    if _midnight(x):
        return {'kind': 'val', 'v': [x.toordinal()]}
    if isinstance(x, list) and all(_midnight(d) for d in x):
        return {'kind': 'val', 'v': [d.toordinal() for d in x]}
    return {'kind': 'other', 'repr': repr(x)[:120], 'type': type(x).__name__}


def _call(cal, q):
    op, t, n, u, a = q['op'], q['t'], q['n'], q['u'], q['a']
    r = q.get('r', 'dt')
    D = lambda o: R(o, r)
    adj = () if a == '' else (a,)
    kadj = {} if a == '' else {'adj': a}
    if op == 'is_bday':
        return cal.is_bday(D(t))
    if op == 'is_holiday':
        return cal.is_holiday(D(t))
    if op == 'adjust':
        return cal.adjust(D(t), *adj)
    if op == 'add':
        return cal.add(D(t), n, *adj) if (t + n) % 2 else cal.add(D(t), n, **kadj)
    if op == 'dt_bump':
        return cal.dt_bump(D(t), ('+%db' % n) if (n > 0 and t % 2) else ('%db' % n), **kadj)
    if op == 'bump0':
        return cal.dt_bump(D(t), '+0b' if n >= 0 else '-0b', *adj)
    if op == 'bdays':
        return cal.bdays(D(t), D(u), *adj)
    if op == 'drange':
        return cal.drange(D(t), D(u), '1b')
    if op == 'clock_diff':
        return int(cal.clock(D(u))) - int(cal.clock(D(t)))
    if op == 'add_inv':
        return cal.add(cal.add(D(t), n, *adj), -n, *adj)
    if op == 'bdays_add':
        return cal.bdays(D(t), cal.add(D(t), n, *adj), *adj)
    if op == 'add_twice':
        return cal.add(cal.add(D(t), n, *adj), n, *adj)
    if op == 'add_split':
        s = 1 if n > 0 else -1
        return cal.add(cal.add(D(t), n - s, **kadj), s, *adj)
    raise Machinery('unknown query %r' % (q,))


def ask(cal, q):
    """one query through the public API, under a CPU-time watchdog; returns the encoded outcome"""
    signal.setitimer(signal.ITIMER_VIRTUAL, CPU_LIMIT)
    try:
        return enc(_call(cal, q))
    except Machinery:
        raise
    except _Timeout:
        return {'kind': 'exc', 'cls': 'DidNotTerminate'}
    except Exception as e:
        return {'kind': 'exc', 'cls': type(e).__name__}
    finally:
        signal.setitimer(signal.ITIMER_VIRTUAL, 0)


def holidays_of(cal):
    """what a calendar says its holidays are (the dates it lists), as sorted ordinals"""
    try:
        return {'kind': 'val', 'v': sorted(d.toordinal() for d in cal.holidays)}
    except Exception as e:
        return {'kind': 'exc', 'cls': type(e).__name__}


class Registry(object):
    """fresh keys for one history / calendar, and removal of what was registered under them"""
    n = 0

    def __init__(self):
        Registry.n += 1
        self.prefix = 'verif-c05-%d-' % Registry.n
        self.used = set()

    def key(self, k):
        self.used.add(self.prefix + str(k))
        return self.prefix + str(k)

    def clean(self):
        from pyg_base._drange import calendars
        for k in self.used:
            calendars.pop(k, None)


def make(cfg, key, how, reg=None):
    """a real calendar for an abstract configuration: 'class' = Calendar(...); 'registry' = calendar(key, ...)
    (modified following only); 'object' = Calendar(...) handed to calendar(obj) and fetched back by key"""
    from pyg_base import Calendar, calendar
    hol = [D(o) for o in cfg['hol']]
    wk = list(cfg['wk'])
    if how == 'registry':
        calendar(key, hol, wk, D(cfg['lo']), D(cfg['hi']))
        return calendar(key)
    cal = Calendar(key, hol, wk, D(cfg['lo']), D(cfg['hi']), cfg['adj'])
    if how == 'object':
        calendar(cal)
        return calendar(key)
    return cal


def qdict(op, t, n, u, a, r='dt'):
    return {'op': op, 't': t, 'n': n, 'u': u, 'a': a, 'r': r}


def case_of(cfg, q, **more):
    c = {'op': q['op'], 'adj': q['a'] or cfg['adj'], 'weekend': cfg['wk'], 'path': 'table' if abs(q['n']) > 1 else 'loop',
         'n': q['n'], 't': q['t'], 'u': q['u'], 'explicit_adj': q['a'] != '', 'r': q.get('r', 'dt'), 'cfg': cfg}
    c.update(more)
    return c


# ---- S2C 1: arithmetic cases enumerated by TLC --------------------------------------------------
def s2c_arith(ctx, lines, k0=0):
    for k, line in enumerate(lines, k0):
        if settled(ctx):
            ctx.assumptions.append('arithmetic replay stopped early: calls did not terminate')
            return
        cfg, t = line['cfg'], line['t']
        reg = Registry()
        try:
            how = 'class' if k % 3 else ('registry' if cfg['adj'] == 'm' else 'object')
            try:
                cal = make(cfg, reg.key('x'), how)
            except Exception as e:
                record(ctx, 'construct', {'op': 'construct', 'kind': 's2c', 'how': how, 'cfg': cfg}, {'observed': type(e).__name__})
                continue
            # one session on the one calendar object: the cases, then (the table built) the questions of phase 2
            for phase, cases in ((1, line['cases']), (2, line['after'])):
                for op, n, u, a, want, refuse, r in cases:
                    q = qdict(op, t, n, u, a, r)
                    out = ask(cal, q)
                    ctx.evals += 1
                    if not (any(out == {'kind': 'val', 'v': w} for w in want) or any(out == {'kind': 'exc', 'cls': x} for x in refuse)):
                        record(ctx, op, case_of(cfg, q, how=how, kind='s2c', phase=phase, beyond=bool(refuse)),
                               {'expected_one_of': want, 'or_refusal': refuse, 'observed': out})
                        if out.get('cls') == 'DidNotTerminate':
                            break
            after = holidays_of(cal)
            if after != {'kind': 'val', 'v': cfg['hol']}:
                record(ctx, 'registry_reflects_holidays', {'op': 'fetch', 'kind': 's2c', 'how': how, 'cfg': cfg},
                              {'expected': cfg['hol'], 'observed': after})
        finally:
            reg.clean()
        if cfg['hol']:
            ctx.note(('arith', tuple(cfg['hol']), tuple(cfg['wk']), cfg['adj'], cfg['lo'], cfg['hi'], t))
        if cfg['hol'] and (cfg['hol'][0] == cfg['lo'] or cfg['hol'][-1] == cfg['hi']):
            ctx.note(('arith-end', tuple(cfg['hol']), tuple(cfg['wk']), cfg['adj'], cfg['lo'], cfg['hi'], t))
        if k % 499 == 0:
            ctx.sample({'s2c_arith': {'cfg': cfg, 't': t, 'cases': line['cases'][:6]}})
        ctx.traces += 1


def check_families(lines):
    """vacuity guard on what TLC enumerated (counting only): the families the blind spots were in are all there"""
    fam = {'end_first': 0, 'end_last': 0, 'single_day': 0, 'backwards': 0, 'passed_adj_table': 0, 'passed_adj_loop': 0,
           'beyond_before_first': 0, 'beyond_after_last': 0, 'stamp_after_table': 0, 'real_tod': 0, 'real_ts': 0, 'real_tstod': 0, 'real_date': 0}
    for line in lines:
        cfg, t = line['cfg'], line['t']
        if cfg['hol']:
            fam['end_first'] += cfg['hol'][0] == cfg['lo']
            fam['end_last'] += cfg['hol'][-1] == cfg['hi']
        fam['stamp_after_table'] += len(line['after'])
        for op, n, u, a, want, refuse, r in line['cases']:
            if r != 'dt':
                fam['real_' + r] += 1
            if op == 'add' and refuse:
                fam['beyond_before_first' if n < 0 else 'beyond_after_last'] += abs(n) > 1
            if op == 'drange':
                fam['single_day'] += u == t
                fam['backwards'] += u < t
            elif op == 'add' and a not in ('', cfg['adj']):
                fam['passed_adj_table' if abs(n) > 1 else 'passed_adj_loop'] += 1
    if not all(fam.values()):
        raise Machinery('the arithmetic generator left a family of cases empty: %r' % (fam,))
    return fam


# ---- S2C 2: histories of the registry machine ------------------------------------------------------
_reported = set()
_spell = [0]


def given(p):
    """the parameters a registration gives, as keyword arguments (what is not given is not passed at all)"""
    kw = {}
    if p['hol']:
        kw['holidays'] = [D(o) for o in p['hol'][0]]
    if p['wk']:
        kw['weekend'] = list(p['wk'][0])
    if p['lo']:
        kw['t0'] = D(p['lo'][0])
    if p['hi']:
        kw['t1'] = D(p['hi'][0])
    return kw


def spelled(f, first, kw, **more):
    """f(first, ...) with the leading given parameters passed positionally in every other call"""
    _spell[0] += 1
    args = [first]
    kw = dict(kw)
    if _spell[0] % 2:
        for name in ('holidays', 'weekend', 't0', 't1'):
            if name not in kw:
                break
            args.append(kw.pop(name))
    return f(*args, **kw, **more)


def do_event(ev, heap, reg):
    """one event of a registry history through the public API; returns the encoded outcome.
    heap: (object, key) in the order the specification allocates objects"""
    from pyg_base import Calendar, calendar
    op = ev['op']
    if op in ('Register', 'reg'):
        key = reg.key(ev['k'])
        heap.append((spelled(calendar, key, given(ev['p'])), key))
        return holidays_of(calendar(key))
    if op in ('Construct', 'con'):
        key = reg.key(ev['k'])
        cal = spelled(Calendar, key, given(ev['p']), adj=ev['adj'])
        heap.append((cal, key))
        return holidays_of(cal)
    if op in ('RegisterObject', 'rego'):
        obj, key = heap[ev['o'] - 1]
        calendar(obj)
        return holidays_of(calendar(key))
    if op in ('RegisterObjectWith', 'regw'):
        obj, key = heap[ev['o'] - 1]
        heap.append((spelled(calendar, obj, given(ev['p'])), key))
        return holidays_of(calendar(key))
    if op in ('Fetch', 'fetch'):
        return holidays_of(calendar(reg.key(ev['k'])))
    # the caller's own actions on a handle it holds
    if op in ('SetAdj', 'setadj'):
        obj, key = heap[ev['o'] - 1]
        _spell[0] += 1
        if _spell[0] % 2:
            obj.adj = ev['adj']
        else:
            obj['adj'] = ev['adj']
        return {'kind': 'val', 'v': obj.adj}
    if op in ('Copy', 'copy'):
        import copy
        obj, key = heap[ev['o'] - 1]
        _spell[0] += 1
        heap.append(((Calendar(obj) if _spell[0] % 3 == 0 else obj.copy() if _spell[0] % 3 == 1 else copy.copy(obj)), key))
        return holidays_of(heap[-1][0])
    if op in ('CopyKey', 'copyk'):
        key = reg.key(ev['k'])
        heap.append((Calendar(calendar(key)), key))
        return holidays_of(heap[-1][0])
    if op in ('CopyWith', 'copyw'):
        obj, key = heap[ev['o'] - 1]
        heap.append((obj(adj=ev['adj']), key))
        return holidays_of(heap[-1][0])
    if op in ('Query', 'q'):
        return ask(calendar(reg.key(ev['k'])), ev['q'])
    if op in ('QueryObj', 'qo'):
        return ask(heap[ev['o'] - 1][0], ev['q'])
    raise Machinery('unknown event %r' % (ev,))


def perform(ev, heap, reg):
    try:
        return do_event(ev, heap, reg)
    except Machinery:
        raise
    except Exception as e:
        return {'kind': 'exc', 'cls': type(e).__name__}


def _strip(ev):
    return {k: v for k, v in ev.items() if k != 'want'}


def history_case(ev, hist, i):
    """stable, matchable description of a failing step: `history` = the events up to and including the failing one"""
    evs = hist[:i + 1]
    case = {'op': ev['op'], 'kind': 'history', 'step': i + 1, 'ops': [e['op'] for e in evs], 'history': evs}
    p = ev.get('p')
    if p:
        case.update({'holidays_empty': p['hol'] == [[]], 'weekend_empty': p['wk'] == [[]], 'given': sorted(k for k in p if p[k])})
    else:
        case['holidays_empty'] = False
    regs = [e for e in evs if e.get('p')]
    case['weekend_changed'] = any(e['p']['wk'] for e in regs[1:])
    case['range_changed'] = any(e['p']['lo'] or e['p']['hi'] for e in regs[1:])
    case['caller_edits'] = sorted(set(e['op'] for e in evs if e['op'].lower() in ('setadj', 'copy', 'copyk', 'copykey', 'copyw', 'copywith')))
    if 'q' in ev:
        q = ev['q']
        case.update({'query': q['op'], 'n': q['n'], 'path': 'table' if abs(q['n']) > 1 else 'loop', 'explicit_adj': q['a'] != '',
                     'r': q.get('r', 'dt'), 'beyond': bool(ev.get('refuse'))})
    return case


def judge_event(ctx, ev, got, hist, i):
    if 'q' in ev:
        ok = any(got == {'kind': 'val', 'v': w} for w in ev['want']) or any(got == {'kind': 'exc', 'cls': x} for x in ev.get('refuse', ()))
        clause = 'registry_query_' + ev['q']['op']
    else:
        ok = got == {'kind': 'val', 'v': ev['want']}
        clause = 'caller_sets_adj' if ev['op'] == 'SetAdj' else 'registry_reflects_holidays'
    if not ok:
        case = history_case(ev, hist, i)
        if repr(case['history']) not in _reported:          # the same failing history is reported once
            _reported.add(repr(case['history']))
            record(ctx, clause, case, {'expected': ev['want'], 'observed': got})
    return ok


def replay_history(ctx, hist, finals=()):
    """the history step by step; then - on the state it reached - every final question TLC printed for it"""
    reg = Registry()
    heap = []
    ok = True
    try:
        for i, ev in enumerate(hist):
            got = perform(ev, heap, reg)
            ctx.evals += 1
            ok = judge_event(ctx, ev, got, hist, i) and ok      # (the rest of the history is still asked: one defect, all its symptoms)
            if got.get('cls') == 'DidNotTerminate':
                return False
        for ev in finals:
            got = perform(ev, heap, reg)
            ctx.evals += 1
            ok = judge_event(ctx, ev, got, list(hist) + [ev], len(hist)) and ok
            if got.get('cls') == 'DidNotTerminate':
                break
        return ok
    finally:
        reg.clean()


def flatten(hist):
    """AskAll(o) / AskAllKey(k) written out as the questions they consist of, in the order TLC printed them"""
    res = []
    for ev in hist:
        if ev['op'] == 'AskAll':
            res += [{'op': 'QueryObj', 'o': ev['o'], 'q': x['q'], 'want': x['want'], 'refuse': x['refuse']} for x in ev['qs']]
        elif ev['op'] == 'AskAllKey':
            res += [{'op': 'Query', 'k': ev['k'], 'q': x['q'], 'want': x['want'], 'refuse': x['refuse']} for x in ev['qs']]
        else:
            res.append(ev)
    return res


EDITS = ('SetAdj', 'Copy', 'CopyKey', 'CopyWith')


def s2c_registry(ctx, emitted, k0=0):
    for k, e in enumerate(emitted, k0):
        if settled(ctx):
            ctx.assumptions.append('history replay stopped early: calls did not terminate')
            return
        brief = repr([{x: v for x, v in ev.items() if x != 'qs'} for ev in e['hist']])
        hist = flatten(e['hist'])
        fin = e['finals']
        finals = list(fin['fetch']) + list(fin['query']) + list(fin['queryobj'])
        replay_history(ctx, hist, finals)
        ctx.traces += 1
        ops = [ev['op'] for ev in hist]
        if sum(o.startswith('Register') for o in ops) >= 2 and finals:
            ctx.note(('hist', brief))
        # a caller's edit after questions were answered, and questions after it
        asked = [i for i, o in enumerate(ops) if o in ('Query', 'QueryObj')]
        if asked and any(o in EDITS for o in ops[asked[0]:]) and finals:
            ctx.note(('hist-edit-after-ask', brief))
            ctx.extra['histories_with_caller_edit_after_questions'] = ctx.extra.get('histories_with_caller_edit_after_questions', 0) + 1
        nb = sum(bool(ev.get('refuse')) for ev in hist + finals)
        ns = sum(ev['q'].get('r', 'dt') != 'dt' for ev in hist + finals if 'q' in ev)
        ctx.extra['history_questions_beyond_range'] = ctx.extra.get('history_questions_beyond_range', 0) + nb
        ctx.extra['history_questions_other_realisation'] = ctx.extra.get('history_questions_other_realisation', 0) + ns
        regs = [ev for ev in hist if ev.get('p')]
        for ev in regs[1:]:
            p = ev['p']
            for name, hit in (('empty-holidays', p['hol'] == [[]]), ('empty-weekend', p['wk'] == [[]]), ('weekend-change', bool(p['wk'])),
                              ('only-t0', bool(p['lo']) and not (p['hol'] or p['wk'] or p['hi'])),
                              ('only-t1', bool(p['hi']) and not (p['hol'] or p['wk'] or p['lo'])),
                              ('by-object', ev['op'] == 'RegisterObjectWith')):
                if hit:
                    ctx.note(('hist-' + name, brief))
        if k % 299 == 0:
            ctx.sample({'s2c_registry_history': [{x: (v if x != 'qs' else '%d questions, e.g. %r' % (len(v), v[:2])) for x, v in ev.items()} for ev in e['hist']],
                        'finals': len(finals), 'first_finals': finals[:3]})


def dedup(emitted):
    seen, res = set(), []
    for e in emitted:
        r = repr(e['hist'])
        if r not in seen:
            seen.add(r)
            res.append(e)
    return res


def simulate_histories(ctx, runs, num, depth, cfg='MC_CalendarReg_sim.cfg', seed0=0):
    """`runs` independent single-worker TLC simulations (seeded, hence reproducible) side by side"""
    from concurrent.futures import ThreadPoolExecutor
    kws = [dict(simulate=num, depth=depth + 1, seed=ctx.seed * 101 + seed0 + i + 1, workers=1, heap='1g', env=JVM) for i in range(runs)]
    par = max(1, min(runs, nproc()))
    cap = os.environ.pop('VERIF_TLC_WORKERS', None)     # (it would override workers=1; a simulation is reproducible with one worker only)
    try:
        with ThreadPoolExecutor(par) as ex:
            rs = list(ex.map(lambda kw: tlc.run('MC_CalendarReg', cfg, **kw), kws))
    except tlc.TLCError as e:
        raise Machinery(str(e))
    finally:
        if cap is not None:
            os.environ['VERIF_TLC_WORKERS'] = cap
    emitted = []
    for r in rs:
        if r.violated:
            raise Machinery('generator MC_CalendarReg/%s violated %s' % (cfg, r.violated))
        ctx.states += r.distinct; ctx.transitions += r.generated
        ctx.tlc_runs.append({'kind': 'S2C-generate', 'cmd': r.cmd, 'generated': r.generated, 'distinct': r.distinct,
                             'wall_s': round(r.wall, 1), 'emitted': len(r.emitted)})
        emitted += r.emitted
    emitted = dedup(emitted)
    if not emitted:
        raise Machinery('generator MC_CalendarReg/%s emitted nothing' % cfg)
    return emitted


# ---- C2S: random realistic calendars, validated by Trace_Calendar ----------------------------------
WEEKENDS = [[5, 6], [4, 5], [6], []]
REALS = ['dt', 'dt', 'dt', 'tod', 'tod', 'ts', 'tstod', 'date']       # how the day of a question is carried into the call
MARGIN = 130      # holiday-free days at both ends of the range: > 40 business days whatever the weekend


def month_ends(lo, hi):
    """ordinals of the last day of each month inside lo..hi (input rendering only)"""
    res = []
    d = D(lo)
    y, m = d.year, d.month
    while True:
        y2, m2 = (y + 1, 1) if m == 12 else (y, m + 1)
        last = datetime.date(y2, m2, 1).toordinal() - 1
        if last > hi:
            return res
        if last >= lo:
            res.append(last)
        y, m = y2, m2


def rand_calendar(rng, edge=False):
    """edge: a tight range - holidays anywhere in it, often on its first / last day, which is often a weekend day"""
    lo = datetime.date(rng.randrange(1990, 2035), rng.randrange(1, 13), rng.randrange(1, 29)).toordinal()
    hi = lo + (rng.choice([730, 731, 700, 760]) if not edge else rng.choice([45, 90, 200, 366]))
    margin = 0 if edge else MARGIN
    a, b = lo + margin, hi - margin
    density = rng.choice([0.0, 0.02, 0.05, 0.1, 0.2, 0.3, 0.4]) if not edge else rng.choice([0.02, 0.05, 0.1, 0.2, 0.3])
    hol = set()
    ends = month_ends(a + 12, b - 12)
    if density > 0:
        # runs across month ends (and whatever weekend falls there)
        for e in (rng.sample(ends, rng.randrange(1, min(6, len(ends)) + 1)) if ends else ()):
            before, after = rng.randrange(0, 6), rng.randrange(0, 6)
            hol.update(range(e - before + 1, e + after + 1))
        target = density * (b - a + 1)
        while len(hol) < target:
            s = rng.randrange(a, b + 1)
            run = rng.choice([1, 1, 1, 1, 2, 2, 3, 4, 5, 7, 10])
            hol.update(x for x in range(s, s + run) if a <= x <= b)
    if edge:
        for end, step in ((lo, 1), (hi, -1)):
            r = rng.random()
            if r < 0.5:
                hol.add(end)
            if r < 0.2:
                hol.add(end + step)
            if 0.4 < r < 0.6:
                hol.add(end + 2 * step)
    cfg = {'hol': sorted(hol), 'wk': rng.choice(WEEKENDS), 'adj': rng.choice(['f', 'p', 'm']), 'lo': lo, 'hi': hi}
    return cfg, ends


def rand_queries(rng, cfg, ends, nq, edge=False):
    margin = 0 if edge else MARGIN
    a, b = cfg['lo'] + margin, cfg['hi'] - margin
    hol = cfg['hol']

    def day():
        r = rng.random()
        if edge and r < 0.5:
            return rng.choice([a + rng.randrange(0, 4), b - rng.randrange(0, 4)])
        if r < 0.35 and hol:
            return min(b, max(a, rng.choice(hol) + rng.randrange(-2, 3)))
        if r < 0.55 and ends:
            return min(b, max(a, rng.choice(ends) + rng.randrange(-3, 4)))
        return rng.randrange(a, b + 1)

    def n():
        if edge:
            return rng.choice([-5, -3, -2, -2, -1, -1, 0, 1, 1, 2, 2, 3, 5, rng.randrange(-12, 13)])
        return rng.choice([-40, -21, -10, -5, -3, -2, -2, -1, -1, 0, 1, 1, 2, 2, 3, 5, 10, 21, 40, rng.randrange(-40, 41), rng.randrange(-40, 41)])

    def adj():
        return rng.choice(['', '', 'f', 'p', 'm'])

    def one():
        op = rng.choice(['is_bday', 'is_holiday', 'adjust', 'adjust', 'add', 'add', 'add', 'add', 'dt_bump', 'dt_bump', 'bump0',
                         'bdays', 'bdays_add', 'add_inv', 'add_twice', 'add_split', 'drange', 'drange', 'clock_diff', 'fetch'])
        t = day()
        if op == 'fetch':
            return (qdict('fetch', 0, 0, 0, ''))
        elif op in ('is_bday', 'is_holiday'):
            return (qdict(op, t, 0, 0, ''))
        elif op == 'adjust':
            return (qdict(op, t, 0, 0, adj()))
        elif op in ('add', 'add_inv', 'bdays_add', 'dt_bump'):
            return (qdict(op, t, n(), 0, adj()))
        elif op == 'add_split':
            return (qdict(op, t, n() or 2, 0, adj()))
        elif op == 'bump0':
            return (qdict(op, t, rng.choice([-1, 1]), 0, adj()))
        elif op == 'add_twice':
            return (qdict(op, t, rng.choice([-1, 1]), 0, adj()))
        elif op == 'bdays':
            u = min(b, max(a, t + rng.choice([0, 1, 3, 7, 30, 90, -1, -5, -40, rng.randrange(-200, 201)])))
            return (qdict(op, t, 0, u, adj()))
        elif op == 'drange':   # forwards, single-day, both ends adjusting to one day, backwards
            u = min(b, max(a, t + rng.choice([0, 0, 1, 2, 5, 9, 31, 62, -1, -2, -4, rng.randrange(0, 120)])))
            return (qdict(op, t, 0, u, ''))
        else:  # clock_diff
            u = min(b, t + rng.choice([0, 1, 2, 5, 9, 31, 62, rng.randrange(0, 120)]))
            if rng.random() < 0.4:
                t, u = u, t
            return (qdict(op, t, 0, u, ''))

    qs = []
    for _ in range(nq):
        q = one()
        if q['op'] != 'fetch':
            q['r'] = rng.choice(REALS)
        qs.append(q)
    return qs


def observe_calendar(rng, cfg, qs, edge):
    """make the calendar through the registry (sometimes over a decoy that was registered and populated
    under the same key before), put the queries to calendar(key), log the outcomes"""
    from pyg_base import Calendar, calendar
    reg = Registry()
    key = reg.key('c')
    try:
        decoy = rng.random() < 0.5
        if decoy:
            a, b = (cfg['lo'] + MARGIN, cfg['hi'] - MARGIN) if not edge else (cfg['lo'], cfg['hi'])
            other = sorted(set(rng.randrange(a, b + 1) for _ in range(rng.choice([0, 5, 40]))))
            wk = list(rng.choice(WEEKENDS))
            try:
                d = calendar(key, [D(o) for o in other], wk, D(cfg['lo']), D(cfg['hi']))
                ask(d, qdict('add', a, 5, 0, ''))             # builds the decoy's table
            except Exception:
                pass                                          # the decoy is only a disturbance; the real calendar is judged
        how = 'registry' if (cfg['adj'] == 'm' and rng.random() < 0.6) else 'object'
        events = []
        # warm: the object first carries ANOTHER convention and answers questions about the days to come under it (a
        # disturbance like the decoy); then the caller sets the convention of the configuration and registers the object
        warm = how == 'object' and rng.random() < 0.5
        base = {'cfg': cfg, 'how': how, 'decoy': decoy, 'warm': warm, 'edge': 1 if edge else 0}
        try:
            if warm:
                cal = make(dict(cfg, adj=rng.choice([x for x in 'fpm' if x != cfg['adj']])), key, 'class')
                for q in qs[:40]:
                    if q['op'] != 'fetch':
                        ask(cal, dict(q, a=''))
                if rng.random() < 0.5:
                    cal = Calendar(cal)
                cal.adj = cfg['adj']
                calendar(cal)
            else:
                make(cfg, key, how)
        except Exception as e:
            return dict(base, qs=[{'q': qdict('fetch', 0, 0, 0, ''), 'out': {'kind': 'exc', 'cls': type(e).__name__}}])
        hung = 0
        for q in qs:
            cal = calendar(key)
            out = holidays_of(cal) if q['op'] == 'fetch' else ask(cal, q)
            events.append({'q': q, 'out': out})
            hung += out.get('cls') == 'DidNotTerminate'
            if hung >= 2:
                break
        events.append({'q': qdict('fetch', 0, 0, 0, ''), 'out': holidays_of(calendar(key))})   # the operand after the calls
        return dict(base, qs=events)
    finally:
        reg.clean()


# ---- C2S 2: random histories of the registry on real calendars ---------------------------------------
def rand_history(rng, nev):
    """a random history in the vocabulary of Trace_Calendar (events without outcomes).  Every holiday lies in the
    innermost of the ranges used, so that whatever is given / inherited the holidays are inside the range; the only
    bookkeeping is which handles have a range of 400 years (those are asked loop-path questions only - an economy)"""
    L0 = datetime.date(rng.randrange(1990, 2035), rng.randrange(1, 13), rng.randrange(1, 29)).toordinal()
    H0 = L0 + rng.choice([200, 366, 500])
    L1, H1 = L0 + rng.randrange(0, 40), H0 - rng.randrange(0, 40)        # the innermost range L1..H1
    los, his = [L0, L1], [H0, H1]

    def holset():
        r = rng.random()
        if r < 0.2:
            return []
        hol = set()
        for _ in range(rng.choice([1, 2, 4, 8, 20])):
            s = rng.randrange(L1, H1 + 1)
            hol.update(x for x in range(s, s + rng.choice([1, 1, 1, 2, 3, 5])) if L1 <= x <= H1)
        for e in month_ends(L1 + 3, H1 - 3)[:rng.randrange(0, 3)]:
            hol.update(range(e - rng.randrange(0, 4), e + rng.randrange(1, 4)))
        if rng.random() < 0.4:
            hol.add(H1)
        if rng.random() < 0.4:
            hol.add(L1)
        return sorted(hol)

    pools = [holset() for _ in range(3)]
    hot = sorted(set(d for h in pools for d in h))                       # days whose status changes between registrations

    def params(must, derive):
        while True:
            p = {'hol': [], 'wk': [], 'lo': [], 'hi': []}
            if rng.random() < 0.55:
                p['hol'] = [rng.choice(pools + [[]])]
            if rng.random() < 0.45:
                p['wk'] = [list(rng.choice(WEEKENDS))]
            r = rng.random()
            if r < (0.25 if derive else 0.75):
                p['lo'], p['hi'] = [rng.choice(los)], [rng.choice(his)]
            elif r < (0.4 if derive else 0.82):
                p['lo'] = [rng.choice(los)]
            elif r < (0.55 if derive else 0.9):
                p['hi'] = [rng.choice(his)]
            if not must or any(p.values()):
                return p

    def day():
        r = rng.random()
        if r < 0.5 and hot:
            return min(H1, max(L1, rng.choice(hot) + rng.randrange(-2, 3)))
        if r < 0.65:
            return rng.choice([L1 + rng.randrange(0, 3), H1 - rng.randrange(0, 3)])
        return rng.randrange(L1, H1 + 1)

    def query(wide):
        q = query0(wide)
        q['r'] = rng.choice(REALS)
        return q

    def query0(wide):
        a = rng.choice(['', '', 'f', 'p', 'm', 'f', 'p'])
        t = day()
        if wide:        # a handle whose range has 400 years: loop path only
            op = rng.choice(['is_bday', 'adjust', 'add', 'add', 'add_twice', 'bump0', 'dt_bump'])
            return qdict(op, t, rng.choice([-1, 1]) if op in ('add_twice', 'bump0') else rng.choice([-1, 0, 1]) if op in ('add', 'dt_bump') else 0, 0,
                         '' if op == 'is_bday' else a)
        op = rng.choice(['is_bday', 'is_bday', 'adjust', 'add', 'add', 'add', 'dt_bump', 'bdays', 'bdays_add', 'add_split', 'add_inv', 'drange', 'add_twice'])
        if op == 'is_bday':
            return qdict(op, t, 0, 0, '')
        if op == 'adjust':
            return qdict(op, t, 0, 0, a)
        if op in ('add', 'dt_bump', 'bdays_add', 'add_inv'):
            return qdict(op, t, rng.choice([-12, -5, -3, -2, -2, -1, 0, 1, 2, 2, 3, 5, 12]), 0, a)
        if op == 'add_split':
            return qdict(op, t, rng.choice([-4, -3, -2, 2, 3, 4]), 0, a)
        if op == 'add_twice':
            return qdict(op, t, rng.choice([-1, 1]), 0, a)
        u = min(H1, max(L1, t + rng.choice([0, 1, 3, 8, 30, -1, -3])))
        return qdict(op, t, 0, u, a if op == 'bdays' else '')

    evs, heap, reg = [], [], {}      # heap: [key, has t0, has t1, loose]; reg: key -> position of the handle now registered
    for _ in range(nev):
        r = rng.random()
        k = rng.choice(['a', 'a', 'b', 'c'])
        loose = [i + 1 for i, h in enumerate(heap) if h[3]]
        if not heap or r < 0.18:
            p = params(True, False)
            heap.append([k, bool(p['lo']), bool(p['hi']), False]); reg[k] = len(heap)
            evs.append({'op': 'reg', 'k': k, 'p': p})
        elif r < 0.27:
            p = params(False, False)
            heap.append([k, bool(p['lo']), bool(p['hi']), True])
            evs.append({'op': 'con', 'k': k, 'p': p, 'adj': rng.choice(['f', 'p', 'm'])})
        elif r < 0.31:
            o = rng.randrange(len(heap)) + 1
            reg[heap[o - 1][0]] = o
            heap[o - 1][3] = False
            evs.append({'op': 'rego', 'o': o})
        elif r < 0.44:
            o = rng.choice([rng.randrange(len(heap)) + 1] + list(reg.values()))
            p = params(True, True)
            src = heap[o - 1]
            heap.append([src[0], src[1] or bool(p['lo']), src[2] or bool(p['hi']), False]); reg[src[0]] = len(heap)
            evs.append({'op': 'regw', 'o': o, 'p': p})
        elif r < 0.47 and reg:
            evs.append({'op': 'fetch', 'k': rng.choice(sorted(reg))})
        # the caller's own actions on a loose handle: another convention, a copy, a copy with another convention
        elif r < 0.55 and loose:
            evs.append({'op': 'setadj', 'o': rng.choice(loose), 'adj': rng.choice(['f', 'p', 'm'])})
        elif r < 0.58 and loose:
            o = rng.choice(loose)
            heap.append(heap[o - 1][:3] + [True])
            evs.append({'op': 'copy', 'o': o})
        elif r < 0.61 and loose:
            o = rng.choice(loose)
            heap.append(heap[o - 1][:3] + [True])
            evs.append({'op': 'copyw', 'o': o, 'adj': rng.choice(['f', 'p', 'm'])})
        elif r < 0.65 and reg:
            k = rng.choice(sorted(reg))
            heap.append(heap[reg[k] - 1][:3] + [True])
            evs.append({'op': 'copyk', 'k': k})
        elif r < 0.84 and reg:
            k = rng.choice(sorted(reg))
            h = heap[reg[k] - 1]
            evs.append({'op': 'q', 'k': k, 'q': query(not (h[1] and h[2]))})
        else:
            o = rng.choice(loose) if loose and rng.random() < 0.8 else rng.randrange(len(heap)) + 1
            h = heap[o - 1]
            evs.append({'op': 'qo', 'o': o, 'q': query(not (h[1] and h[2]))})
    for k in sorted(reg):
        evs.append({'op': 'fetch', 'k': k})                            # the operands after the calls
    return evs


def observe_history(evs):
    reg = Registry()
    heap = []
    out = []
    try:
        for ev in evs:
            got = perform(ev, heap, reg)
            out.append(dict(ev, out=got))
            if got.get('cls') == 'DidNotTerminate':
                break
        return {'kind': 'hist', 'evs': out}
    finally:
        reg.clean()


def judge(ctx, obs, bad):
    for line, clause in bad:
        o = obs[line - 1]
        name, _, pos = clause.partition(':')
        if name in ('out_of_domain', 'bad_config', 'spec_monthno') or name.startswith('bad_history'):
            raise Machinery('the C2S driver left the claimed domain, or the specification failed its self-check: line %d %s' % (line, clause))
        if 'evs' in o:
            i = int(pos) - 1
            ev = o['evs'][i]
            hist = [{k: v for k, v in e.items() if k != 'out'} for e in o['evs'][:i + 1]]
            case = history_case(hist[-1], hist, i)
            case['kind'] = 'c2s_history'
            record(ctx, name, case, {'observed': ev['out'], 'position': int(pos)})
            continue
        e = o['qs'][int(pos) - 1]
        if name == 'registry_reflects_holidays':
            case = {'op': 'fetch', 'kind': 'c2s', 'how': o['how'], 'decoy': o['decoy'], 'warm': o.get('warm', False), 'cfg': o['cfg'], 'edge': o['edge']}
        else:
            case = case_of(o['cfg'], e['q'], how=o['how'], decoy=o['decoy'], warm=o.get('warm', False), kind='c2s', edge=o['edge'],
                           asked_before=int(pos) - 1)
        record(ctx, name, case, {'observed': e['out'], 'position': int(pos)})


def _observe_chunk(col, specs, k0):
    import random
    col.obs = []
    for kind, seed, n in specs:
        rng = random.Random(seed)
        if kind == 'hist':
            col.obs.append(observe_history(rand_history(rng, n)))
        else:
            cfg, ends = rand_calendar(rng, edge=(kind == 'edge'))
            col.obs.append(observe_calendar(rng, cfg, rand_queries(rng, cfg, ends, n, edge=(kind == 'edge')), kind == 'edge'))


def c2s(ctx, ncal, nq, nedge, nhist, nev):
    """every observation is made from its own seed (drawn here, in order), so the log does not depend on how the
    work is spread over processes"""
    specs = [('cal', ctx.rng.randrange(1 << 30), nq) for _ in range(ncal)] + [('edge', ctx.rng.randrange(1 << 30), nq // 2) for _ in range(nedge)] \
        + [('hist', ctx.rng.randrange(1 << 30), nev) for _ in range(nhist)]
    import multiprocessing
    import pyg_base                    # (before the fork: the workers inherit the imported library)
    n = nproc()
    size = max(1, -(-len(specs) // (4 * n)))
    jobs = [(_observe_chunk, specs[i:i + size], i) for i in range(0, len(specs), size)]
    if n == 1:
        cols = [_worker(j) for j in jobs]
        signal.signal(signal.SIGVTALRM, _alarm)
    else:
        with multiprocessing.get_context('fork').Pool(n) as pool:
            cols = pool.map(_worker, jobs, chunksize=1)
    obs = [o for col in cols for o in col.obs]
    nqs = sum(len(o.get('qs', o.get('evs', ()))) for o in obs)
    ctx.evals += nqs
    bad = ctx.validate('Trace_Calendar', obs, env=JVM)
    judge(ctx, obs, bad)
    for o in obs:
        if 'evs' in o:
            regs = [e for e in o['evs'] if e.get('p')]
            if len(regs) >= 2:
                ctx.note(('c2s-hist', repr(o['evs'])))
            continue
        if o['cfg']['hol']:
            for e in o['qs']:
                q = e['q']
                ctx.note(('c2s', o['cfg']['lo'], tuple(o['cfg']['wk']), o['cfg']['adj'], q['op'], q['t'], q['n'], q['u'], q['a']))
    o = obs[ncal // 2] if ncal else None
    if o:
        ctx.sample({'c2s_calendar': {'cfg': {**o['cfg'], 'hol': o['cfg']['hol'][:8] + ['...']}, 'how': o['how'], 'decoy': o['decoy'],
                                     'queries': o['qs'][:5]}})
    if nhist:
        ctx.sample({'c2s_history': obs[-1]['evs'][:8]})
    return obs


def replay(ctx, body):
    """./check C05 --replay <file>: re-execute one recorded violation (history: against the expectations TLC
    printed; recorded history / arithmetic: put to fresh calendars and judged again by Trace_Calendar)"""
    signal.signal(signal.SIGVTALRM, _alarm)
    case = body['case']
    if case.get('kind') == 'history':
        replay_history(ctx, case['history'])
    elif case.get('kind') == 'c2s_history':
        obs = [observe_history(case['history'])]
        judge(ctx, obs, ctx.validate('Trace_Calendar', obs, env=JVM))
    else:
        cfg = case['cfg']
        q = qdict('fetch', 0, 0, 0, '') if case['op'] == 'fetch' else qdict(case['op'], case['t'], case['n'], case['u'],
                                                                         case['adj'] if case.get('explicit_adj') else '', case.get('r', 'dt'))
        if case.get('warm') or case.get('asked_before') or case.get('phase') == 2:
            print('NOTE: this case was observed on a calendar object that had answered other questions before (warm / asked_before / phase 2); '
                  'the single-case replay puts it to a fresh object')
        reg = Registry()
        try:
            how = case.get('how', 'class')
            cal = make(cfg, reg.key('r'), how)
            out = holidays_of(cal) if q['op'] == 'fetch' else ask(cal, q)
        finally:
            reg.clean()
        obs = [{'cfg': cfg, 'how': how, 'decoy': False, 'edge': case.get('edge', 0), 'qs': [{'q': q, 'out': out}]}]
        judge(ctx, obs, ctx.validate('Trace_Calendar', obs, env=JVM))
    for v in ctx.violations:
        print('STILL FAILS clause=%s detail=%s' % (v['clause'], str(v['detail'])[:300]))
    if not ctx.violations:
        print('no longer fails')
    import shutil
    shutil.rmtree(ctx.tmp, ignore_errors=True)
    return 1 if ctx.violations else 0


def run(ctx):
    signal.signal(signal.SIGVTALRM, _alarm)
    _sig.clear(); _hung[0] = 0; _reported.clear()      # every run (also the confirming re-run in the same process) counts from zero
    ctx.rule = ('S2C: (a) every in-domain query MC_Calendar enumerates for a seeded 1-in-GenMod sample of the configurations of each family '
                '(all holiday subsets of a window across a weekend and a month end x 4 weekends x f/p/m x ranges that are wide, tight, or begin / end '
                'exactly on the window so that the first / last day is a holiday or a weekend day) x every day - incl. single-day and backward '
                'dranges and a passed adj on both paths of add - replayed on real Calendar objects (made by the class, by calendar(key, ...) or '
                'by calendar(obj)); every line is a session on ONE object: the cases (the day carried by a midnight datetime, a datetime with a time '
                'of day, a pandas Timestamp, a datetime.date - named by TLC; questions that leave the range included: the answer by counting or a '
                'refusal), then - the table built - phase 2: the table-free questions again under another realisation; '
                '(b) histories of the registry machine MC_CalendarReg (every subset of holidays / weekend / t0 / t1 given, '
                'not given or given empty, by key and by object, old handles registered again; the caller\'s own actions obj.adj = a, Calendar(obj) / '
                'obj.copy(), obj(adj = a), Calendar(calendar(k)); AskAll = every question of the menu put to one object) replayed through '
                'calendar(...)/Calendar(...): all sessions "construct ; ask all ; edit ; edit" enumerated breadth first, and random histories, each '
                'followed by every final question TLC printed for the state reached (law: an answer depends on the configuration the object has '
                'NOW - no memory of earlier answers, copies independent). C2S: random 2-year calendars (holiday density 0-40 %, runs '
                'across month ends and weekends; half of the object-made ones first answer the same days under another convention, then get their '
                'adj set), queries with n in -40..40 under random realisations; tight calendars asked at and beyond their ends (refusal or the day '
                'by counting); random histories of re-registrations, adj edits and copies on real calendars; all validated by Trace_Calendar by '
                'counting on ordinals. '
                'Non-trivial = the calendar has at least one holiday (arith: distinct (configuration, day); C2S: distinct query); '
                'history: at least two registrations and a final question.')
    q = ctx.quick
    seed = {'C05_SEED': ctx.seed % 1000, **JVM}
    # MC_Calendar has the single action Eval (one step per initial state), so TLC's expression coverage - which doubles
    # its run time - has nothing to say about vacuity there; that every behaviour took its step is checked on the counts
    r = ctx.mc('MC_Calendar', 'MC_Calendar_quick.cfg' if q else 'MC_Calendar_thorough.cfg', env=seed, coverage=False)
    if r.distinct != r.generated or r.distinct % 2:
        raise Machinery('MC_Calendar: not every (configuration, day) was evaluated')
    ctx.mc('MC_CalendarReg', 'MC_CalendarReg_quick.cfg' if q else 'MC_CalendarReg_thorough.cfg', env=JVM)
    if not q:
        ctx.mc('MC_Calendar', 'MC_Calendar_thorough2.cfg', env=seed, coverage=False)
        ctx.mc('MC_CalendarReg', 'MC_CalendarReg_thorough2.cfg', env=JVM)
    lines = ctx.generate('MC_Calendar', 'MC_Calendar_gen_quick.cfg' if q else 'MC_Calendar_gen_thorough.cfg', env=seed)
    ctx.extra['arith_families'] = check_families(lines)
    spread(ctx, s2c_arith, lines)
    # sessions enumerated breadth first: Calendar(...) ; every question ; the caller's edit ; a second edit ; every question of every object
    ses = ctx.generate('MC_CalendarReg', 'MC_CalendarReg_ses.cfg' if q else 'MC_CalendarReg_ses_thorough.cfg', env=JVM)
    ctx.extra['sessions'] = len(ses)
    spread(ctx, s2c_registry, ses)
    spread(ctx, s2c_registry, simulate_histories(ctx, 4, 300 if q else 2000, 7))
    if not q:       # longer sessions
        spread(ctx, s2c_registry, simulate_histories(ctx, 4, 700, 10, cfg='MC_CalendarReg_sim_thorough.cfg', seed0=50))
    for fam in ('histories_with_caller_edit_after_questions', 'history_questions_beyond_range', 'history_questions_other_realisation'):
        if not ctx.extra.get(fam):
            raise Machinery('the history generators left a family of cases empty: %s' % fam)
    c2s(ctx, 160 if q else 1600, 150, 60 if q else 600, 150 if q else 1500, 24)
    ctx.exhaustive = False
    ctx.assumptions += [
        'holidays are given as midnight datetimes inside the calendar range; days asked about are carried by a datetime (midnight or with a '
        'time of day), a pandas Timestamp or a datetime.date (strings, ints, numpy datetime64 are not put to is_bday/adjust/add: the unchanged '
        'code has no weekday()/month for them)',
        'RefusalBeyondRange: where the adjusted day, an intermediate day or the result of a posed question leaves [t0, t1] the call may raise '
        'KeyError / IndexError / ValueError; an answer, if given, must be the day by counting (only weekends are skipped outside the range)',
        'the caller edits only the adj of a handle it holds outside the registry (Calendar(...), a copy); in-place edits of holidays / weekend / '
        't0 / t1 of a calendar object, and of the lists passed to calendar(...), are not modelled',
        'claimed domain (an answer is owed): the day asked about, the adjusted day and the result lie inside [t0, t1] (C2S: 130 holiday-free days '
        'at both ends, or - tight calendars and histories - Trace_Calendar judges posed questions beyond the range as answer-or-refusal)',
        'is_holiday is not pinned by the statement (accepted as "not a business day" or "a listed holiday"); bdays(t, u) and clock '
        'differences are judged only where the end points named by the statement are business days',
        '"registered with" is read literally: calendar(key, ...) registers what the call gives and the documented defaults for the rest; '
        'calendar(obj, ...) derives from obj (given replaces, not given is kept); the convention of a derived calendar is not pinned',
        'calendar(key) on a key that was never registered is not asked; handles kept from earlier registrations are not queried '
        '(but may be registered again with calendar(handle)); calendars with the default 400-year range are asked loop-path questions only',
        'small scope: MC windows of 7 (quick: a seeded sample (MCMod / GenMod in the cfgs) of 9 families = 3 month ends x 3 kinds of range) / 10 (thorough: exhaustive; '
        'all 18 families of 7-day windows: 1 in 3) days, n in -8..8; registry MC with <= 2 (quick) / 3 (thorough, one key) objects',
        'drange is asked with bump 1b only (forwards, single-day and backwards)',
    ]
