"""C05 - Calendar business-day arithmetic agrees with day-by-day counting; the registry calendar(key)
reflects the holidays a key was last registered with.

Python here only renders abstract inputs (ordinals, holiday lists, weekend lists) into real Calendar
objects and datetimes, calls the public API, and encodes what came back.  Every expectation is printed
by TLC (MC_Calendar / MC_CalendarReg generators) or decided by TLC (Trace_Calendar)."""
import datetime, os, signal
import numpy as np

from harness.core import Machinery
from harness import tlc

JVM = {'JAVA_TOOL_OPTIONS': '-Xss32m'}     # deep (but finite) recursion of the day-by-day operators
CPU_LIMIT = 3.0       # virtual CPU seconds for one public call (calls take < 1 ms when they terminate)
PER_SIG = 25          # violations listed per (clause, op); further ones of the same kind are only counted
MAX_HUNG = 20         # stop replaying after this many calls that did not terminate (the verdict is settled)
_sig = {}
_hung = [0]


class Collector(object):
    """what a replay worker process collects instead of writing into ctx (merged by the parent, in order)"""
    def __init__(self):
        self.viol, self.notes, self.samples, self.assumptions = [], [], [], []
        self.evals = self.traces = 0
        self.extra = {}

    def violation(self, clause, case, detail=None):
        self.viol.append((clause, case, detail))

    def note(self, key):
        self.notes.append(key)

    def sample(self, x, limit=5):
        if len(self.samples) < limit:
            self.samples.append(x)


def nproc():
    return max(1, min(16, int(os.environ.get('VERIF_TLC_WORKERS', 16)), os.cpu_count() or 1))


def _worker(args):
    fn, chunk, k0 = args
    signal.signal(signal.SIGVTALRM, _alarm)
    _sig.clear(); _hung[0] = 0; _reported.clear()
    col = Collector()
    fn(col, chunk, k0)
    return col


def spread(ctx, fn, items):
    """fn(collector, chunk, index of its first item) over contiguous chunks of `items` in forked worker processes
    (each has its own pyg_base registry); what they collected is merged into ctx in the order of the items, so the
    outcome does not depend on the number of processes"""
    import multiprocessing
    n = nproc()
    size = max(1, -(-len(items) // (4 * n)))
    jobs = [(fn, items[i:i + size], i) for i in range(0, len(items), size)]
    if n == 1 or len(jobs) == 1:
        cols = [_worker(j) for j in jobs]
        signal.signal(signal.SIGVTALRM, _alarm)
    else:
        with multiprocessing.get_context('fork').Pool(n) as pool:
            cols = pool.map(_worker, jobs, chunksize=1)
    for col in cols:
        ctx.evals += col.evals; ctx.traces += col.traces
        for clause, case, detail in col.viol:
            record(ctx, clause, case, detail)
        for k in col.notes:
            ctx.note(k)
        for x in col.samples:
            ctx.sample(x)
        for a in col.assumptions:
            if a not in ctx.assumptions:
                ctx.assumptions.append(a)


def record(ctx, clause, case, detail):
    """ctx.violation, listing at most PER_SIG cases of one kind so that one defect cannot crowd out another"""
    if isinstance(detail, dict) and isinstance(detail.get('observed'), dict) and detail['observed'].get('cls') == 'DidNotTerminate':
        _hung[0] += 1
    k = (clause, case.get('op'))
    _sig[k] = _sig.get(k, 0) + 1
    if _sig[k] <= PER_SIG:
        ctx.violation(clause, case, detail)
    else:
        ctx.extra['further_violations_not_listed'] = ctx.extra.get('further_violations_not_listed', 0) + 1


def settled(ctx):
    return _hung[0] >= MAX_HUNG


class _Timeout(BaseException):
    pass


def _alarm(signum, frame):
    raise _Timeout()


def D(o):
    return datetime.datetime.fromordinal(o)


def _midnight(x):
    return isinstance(x, datetime.datetime) and x.tzinfo is None and (x.hour, x.minute, x.second, x.microsecond) == (0, 0, 0, 0)


def enc(x):
    """concrete result -> sequence of integers (the spec's answer format), or a description of what it is instead"""
    if isinstance(x, (bool, np.bool_)):
        return {'kind': 'val', 'v': [1 if x else 0]}
    if isinstance(x, (int, np.integer)):
        return {'kind': 'val', 'v': [int(x)]}
    if _midnight(x):
        return {'kind': 'val', 'v': [x.toordinal()]}
    if isinstance(x, list) and all(_midnight(d) for d in x):
        return {'kind': 'val', 'v': [d.toordinal() for d in x]}
    return {'kind': 'other', 'repr': repr(x)[:120], 'type': type(x).__name__}


def _call(cal, q):
    op, t, n, u, a = q['op'], q['t'], q['n'], q['u'], q['a']
    adj = () if a == '' else (a,)
    kadj = {} if a == '' else {'adj': a}
    if op == 'is_bday':
        return cal.is_bday(D(t))
    if op == 'is_holiday':
        return cal.is_holiday(D(t))
    if op == 'adjust':
        return cal.adjust(D(t), *adj)
    if op == 'add':
        return cal.add(D(t), n, *adj) if (t + n) % 2 else cal.add(D(t), n, **kadj)
    if op == 'dt_bump':
        return cal.dt_bump(D(t), ('+%db' % n) if (n > 0 and t % 2) else ('%db' % n), **kadj)
    if op == 'bump0':
        return cal.dt_bump(D(t), '+0b' if n >= 0 else '-0b', *adj)
    if op == 'bdays':
        return cal.bdays(D(t), D(u), *adj)
    if op == 'drange':
        return cal.drange(D(t), D(u), '1b')
    if op == 'clock_diff':
        return int(cal.clock(D(u))) - int(cal.clock(D(t)))
    if op == 'add_inv':
        return cal.add(cal.add(D(t), n, *adj), -n, *adj)
    if op == 'bdays_add':
        return cal.bdays(D(t), cal.add(D(t), n, *adj), *adj)
    if op == 'add_twice':
        return cal.add(cal.add(D(t), n, *adj), n, *adj)
    if op == 'add_split':
        s = 1 if n > 0 else -1
        return cal.add(cal.add(D(t), n - s, **kadj), s, *adj)
    raise Machinery('unknown query %r' % (q,))


def ask(cal, q):
    """one query through the public API, under a CPU-time watchdog; returns the encoded outcome"""
    signal.setitimer(signal.ITIMER_VIRTUAL, CPU_LIMIT)
    try:
        return enc(_call(cal, q))
    except Machinery:
        raise
    except _Timeout:
        return {'kind': 'exc', 'cls': 'DidNotTerminate'}
    except Exception as e:
        return {'kind': 'exc', 'cls': type(e).__name__}
    finally:
        signal.setitimer(signal.ITIMER_VIRTUAL, 0)


def holidays_of(cal):
    """what a calendar says its holidays are (the dates it lists), as sorted ordinals"""
    try:
        return {'kind': 'val', 'v': sorted(d.toordinal() for d in cal.holidays)}
    except Exception as e:
        return {'kind': 'exc', 'cls': type(e).__name__}


class Registry(object):
    """fresh keys for one history / calendar, and removal of what was registered under them"""
    n = 0

    def __init__(self):
        Registry.n += 1
        self.prefix = 'verif-c05-%d-' % Registry.n
        self.used = set()

    def key(self, k):
        self.used.add(self.prefix + str(k))
        return self.prefix + str(k)

    def clean(self):
        from pyg_base._drange import calendars
        for k in self.used:
            calendars.pop(k, None)


def make(cfg, key, how, reg=None):
    """a real calendar for an abstract configuration: 'class' = Calendar(...); 'registry' = calendar(key, ...)
    (modified following only); 'object' = Calendar(...) handed to calendar(obj) and fetched back by key"""
    from pyg_base import Calendar, calendar
    hol = [D(o) for o in cfg['hol']]
    wk = list(cfg['wk'])
    if how == 'registry':
        calendar(key, hol, wk, D(cfg['lo']), D(cfg['hi']))
        return calendar(key)
    cal = Calendar(key, hol, wk, D(cfg['lo']), D(cfg['hi']), cfg['adj'])
    if how == 'object':
        calendar(cal)
        return calendar(key)
    return cal


def qdict(op, t, n, u, a):
    return {'op': op, 't': t, 'n': n, 'u': u, 'a': a}


def case_of(cfg, q, **more):
    c = {'op': q['op'], 'adj': q['a'] or cfg['adj'], 'weekend': cfg['wk'], 'path': 'table' if abs(q['n']) > 1 else 'loop',
         'n': q['n'], 't': q['t'], 'u': q['u'], 'explicit_adj': q['a'] != '', 'cfg': cfg}
    c.update(more)
    return c


# ---- S2C 1: arithmetic cases enumerated by TLC --------------------------------------------------
def s2c_arith(ctx, lines):
    k = 0
    for line in lines:
        if settled(ctx):
            ctx.assumptions.append('arithmetic replay stopped early: %d calls did not terminate' % _hung[0])
            return
        cfg, t = line['cfg'], line['t']
        reg = Registry()
        try:
            how = 'class' if k % 3 else ('registry' if cfg['adj'] == 'm' else 'object')
            try:
                cal = make(cfg, reg.key('x'), how)
            except Exception as e:
                record(ctx, 'construct', {'op': 'construct', 'kind': 's2c', 'how': how, 'cfg': cfg}, {'observed': type(e).__name__})
                continue
            for op, n, u, a, want in line['cases']:
                q = qdict(op, t, n, u, a)
                out = ask(cal, q)
                ctx.evals += 1
                if not any(out == {'kind': 'val', 'v': w} for w in want):
                    record(ctx, op, case_of(cfg, q, how=how, kind='s2c'), {'expected_one_of': want, 'observed': out})
                    if out.get('cls') == 'DidNotTerminate':
                        break
            after = holidays_of(cal)
            if after != {'kind': 'val', 'v': cfg['hol']}:
                record(ctx, 'registry_reflects_holidays', {'op': 'fetch', 'kind': 's2c', 'how': how, 'cfg': cfg},
                              {'expected': cfg['hol'], 'observed': after})
        finally:
            reg.clean()
        if cfg['hol']:
            ctx.note(('arith', tuple(cfg['hol']), tuple(cfg['wk']), cfg['adj'], cfg['lo'], t))
        if k % 499 == 0:
            ctx.sample({'s2c_arith': {'cfg': cfg, 't': t, 'cases': line['cases'][:6]}})
        ctx.traces += 1
        k += 1


# ---- S2C 2: histories of the registry machine ------------------------------------------------------
_reported = set()


REG_E = datetime.date(2000, 1, 31).toordinal()      # the menu calendars of MC_CalendarReg range over E - 25 .. E + 27
REG_LO, REG_HI = REG_E - 25, REG_E + 27


def do_event(ev, heap, reg):
    """one event of a registry history through the public API; returns the encoded outcome"""
    from pyg_base import Calendar, calendar
    op = ev['op']
    if op == 'Register':
        cal = calendar(reg.key(ev['k']), [D(o) for o in ev['hol']], list(ev['wk']), D(REG_LO), D(REG_HI))
        heap.append(cal)
        return holidays_of(cal)
    if op == 'Construct':
        cal = Calendar(reg.key(ev['k']), [D(o) for o in ev['hol']], list(ev['wk']), D(REG_LO), D(REG_HI), ev['adj'])
        heap.append(cal)
        return holidays_of(cal)
    if op == 'RegisterObject':
        obj = heap[ev['o'] - 1]
        calendar(obj)
        return holidays_of(calendar(obj.key))
    if op == 'RegisterObjectWith':
        obj = heap[ev['o'] - 1]
        heap.append(calendar(obj, holidays=[D(o) for o in ev['hol']]))
        return holidays_of(calendar(obj.key))
    if op == 'Fetch':
        return holidays_of(calendar(reg.key(ev['k'])))
    if op == 'Query':
        return ask(calendar(reg.key(ev['k'])), ev['q'])
    if op == 'QueryObj':
        return ask(heap[ev['o'] - 1], ev['q'])
    raise Machinery('unknown event %r' % (ev,))


def replay_history(ctx, hist):
    reg = Registry()
    heap = []            # real objects in the order the specification allocates them
    try:
        for i, ev in enumerate(hist):
            try:
                got = do_event(ev, heap, reg)
            except Machinery:
                raise
            except Exception as e:
                got = {'kind': 'exc', 'cls': type(e).__name__}
            ctx.evals += 1
            if 'q' in ev:
                ok = any(got == {'kind': 'val', 'v': w} for w in ev['want'])
                clause = 'registry_query_' + ev['q']['op']
            else:
                ok = got == {'kind': 'val', 'v': ev['want']}
                clause = 'registry_reflects_holidays'
            if not ok:
                case = {'op': ev['op'], 'kind': 'history', 'step': i + 1, 'ops': [e['op'] for e in hist[:i + 1]],
                        'holidays_empty': ev.get('hol') == [], 'history': hist[:i + 1]}
                if 'q' in ev:
                    case.update({'query': ev['q']['op'], 'n': ev['q']['n'], 'path': 'table' if abs(ev['q']['n']) > 1 else 'loop'})
                if repr(case['history']) not in _reported:          # the same failing history is reported once
                    _reported.add(repr(case['history']))
                    record(ctx, clause, case, {'expected': ev['want'], 'observed': got})
                return False
        return True
    finally:
        reg.clean()


def s2c_registry(ctx, emitted):
    """TLC's simulator prints, for every random behaviour, all complete histories that share its first
    Depth - 1 steps (the last step is exhaustive over the enabled actions); all of them are replayed"""
    seen = set()
    k = 0
    for e in emitted:
        hist = e['hist']
        if repr(hist) in seen:
            continue
        seen.add(repr(hist))
        if settled(ctx):
            ctx.assumptions.append('history replay stopped early: %d calls did not terminate' % _hung[0])
            return
        replay_history(ctx, hist)
        ctx.traces += 1
        ops = [ev['op'] for ev in hist]
        if sum(o.startswith('Register') for o in ops) >= 2 and any(o == 'Query' for o in ops):
            ctx.note(('hist', repr(hist)))
        if k % 999 == 0:
            ctx.sample({'s2c_registry_history': hist})
        k += 1


# ---- C2S: random realistic calendars, validated by Trace_Calendar ----------------------------------
WEEKENDS = [[5, 6], [4, 5], [6], []]
MARGIN = 130      # holiday-free days at both ends of the range: > 40 business days whatever the weekend


def month_ends(lo, hi):
    """ordinals of the last day of each month inside lo..hi (input rendering only)"""
    res = []
    d = D(lo)
    y, m = d.year, d.month
    while True:
        y2, m2 = (y + 1, 1) if m == 12 else (y, m + 1)
        last = datetime.date(y2, m2, 1).toordinal() - 1
        if last > hi:
            return res
        if last >= lo:
            res.append(last)
        y, m = y2, m2


def rand_calendar(rng):
    lo = datetime.date(rng.randrange(1990, 2035), rng.randrange(1, 13), rng.randrange(1, 29)).toordinal()
    hi = lo + rng.choice([730, 731, 700, 760])
    a, b = lo + MARGIN, hi - MARGIN
    density = rng.choice([0.0, 0.02, 0.05, 0.1, 0.2, 0.3, 0.4])
    hol = set()
    ends = month_ends(a + 12, b - 12)
    if density > 0:
        # runs across month ends (and whatever weekend falls there)
        for e in rng.sample(ends, rng.randrange(1, min(6, len(ends)) + 1)):
            before, after = rng.randrange(0, 6), rng.randrange(0, 6)
            hol.update(range(e - before + 1, e + after + 1))
        target = density * (b - a + 1)
        while len(hol) < target:
            s = rng.randrange(a, b + 1)
            run = rng.choice([1, 1, 1, 1, 2, 2, 3, 4, 5, 7, 10])
            hol.update(x for x in range(s, s + run) if a <= x <= b)
    cfg = {'hol': sorted(hol), 'wk': rng.choice(WEEKENDS), 'adj': rng.choice(['f', 'p', 'm']), 'lo': lo, 'hi': hi}
    return cfg, ends


def rand_queries(rng, cfg, ends, nq):
    a, b = cfg['lo'] + MARGIN, cfg['hi'] - MARGIN
    hol = cfg['hol']

    def day():
        r = rng.random()
        if r < 0.35 and hol:
            return min(b, max(a, rng.choice(hol) + rng.randrange(-2, 3)))
        if r < 0.55 and ends:
            return min(b, max(a, rng.choice(ends) + rng.randrange(-3, 4)))
        return rng.randrange(a, b + 1)

    def n():
        return rng.choice([-40, -21, -10, -5, -3, -2, -2, -1, -1, 0, 1, 1, 2, 2, 3, 5, 10, 21, 40, rng.randrange(-40, 41), rng.randrange(-40, 41)])

    def adj():
        return rng.choice(['', '', '', 'f', 'p', 'm'])

    qs = []
    for _ in range(nq):
        op = rng.choice(['is_bday', 'is_holiday', 'adjust', 'adjust', 'add', 'add', 'add', 'add', 'dt_bump', 'dt_bump', 'bump0',
                         'bdays', 'bdays_add', 'add_inv', 'add_twice', 'drange', 'clock_diff', 'fetch'])
        t = day()
        if op == 'fetch':
            qs.append(qdict('fetch', 0, 0, 0, ''))
        elif op in ('is_bday', 'is_holiday'):
            qs.append(qdict(op, t, 0, 0, ''))
        elif op == 'adjust':
            qs.append(qdict(op, t, 0, 0, adj()))
        elif op in ('add', 'add_inv', 'bdays_add'):
            qs.append(qdict(op, t, n(), 0, adj()))
        elif op == 'dt_bump':
            qs.append(qdict(op, t, n(), 0, ''))
        elif op == 'bump0':
            qs.append(qdict(op, t, rng.choice([-1, 1]), 0, ''))
        elif op == 'add_twice':
            qs.append(qdict(op, t, rng.choice([-1, 1]), 0, adj()))
        elif op == 'bdays':
            u = min(b, max(a, t + rng.choice([0, 1, 3, 7, 30, 90, -1, -5, -40, rng.randrange(-200, 201)])))
            qs.append(qdict(op, t, 0, u, adj()))
        else:  # drange (forward only), clock_diff
            u = min(b, t + rng.choice([0, 1, 2, 5, 9, 31, 62, rng.randrange(0, 120)]))
            if op == 'clock_diff' and rng.random() < 0.4:
                t, u = u, t
            qs.append(qdict(op, t, 0, u, ''))
    return qs


def observe_calendar(rng, cfg, qs, i):
    """make the calendar through the registry (sometimes over a decoy that was registered and populated
    under the same key before), put the queries to calendar(key), log the outcomes"""
    from pyg_base import Calendar, calendar
    reg = Registry()
    key = reg.key('c')
    try:
        decoy = rng.random() < 0.5
        if decoy:
            a, b = cfg['lo'] + MARGIN, cfg['hi'] - MARGIN
            other = sorted(set(rng.randrange(a, b + 1) for _ in range(rng.choice([0, 5, 40]))))
            wk = list(rng.choice(WEEKENDS))
            try:
                d = calendar(key, [D(o) for o in other], wk, D(cfg['lo']), D(cfg['hi']))
                ask(d, qdict('add', a, 5, 0, ''))             # builds the decoy's table
            except Exception:
                pass                                          # the decoy is only a disturbance; the real calendar is judged
        how = 'registry' if (cfg['adj'] == 'm' and rng.random() < 0.6) else 'object'
        events = []
        try:
            make(cfg, key, how)
        except Exception as e:
            return {'cfg': cfg, 'how': how, 'decoy': decoy,
                    'qs': [{'q': qdict('fetch', 0, 0, 0, ''), 'out': {'kind': 'exc', 'cls': type(e).__name__}}]}
        hung = 0
        for q in qs:
            cal = calendar(key)
            out = holidays_of(cal) if q['op'] == 'fetch' else ask(cal, q)
            events.append({'q': q, 'out': out})
            hung += out.get('cls') == 'DidNotTerminate'
            if hung >= 2:
                break
        events.append({'q': qdict('fetch', 0, 0, 0, ''), 'out': holidays_of(calendar(key))})   # the operand after the calls
        return {'cfg': cfg, 'how': how, 'decoy': decoy, 'qs': events}
    finally:
        reg.clean()


def judge(ctx, obs, bad):
    for line, clause in bad:
        o = obs[line - 1]
        name, _, pos = clause.partition(':')
        if name in ('out_of_domain', 'bad_config', 'spec_monthno'):
            raise Machinery('the C2S driver left the claimed domain, or the specification failed its self-check: line %d %s' % (line, clause))
        e = o['qs'][int(pos) - 1]
        if name == 'registry_reflects_holidays':
            case = {'op': 'fetch', 'kind': 'c2s', 'how': o['how'], 'decoy': o['decoy'], 'cfg': o['cfg']}
        else:
            case = case_of(o['cfg'], e['q'], how=o['how'], decoy=o['decoy'], kind='c2s')
        record(ctx, name, case, {'observed': e['out'], 'position': int(pos)})


def c2s(ctx, ncal, nq):
    obs = []
    for i in range(ncal):
        cfg, ends = rand_calendar(ctx.rng)
        qs = rand_queries(ctx.rng, cfg, ends, nq)
        obs.append(observe_calendar(ctx.rng, cfg, qs, i))
        if sum(e['out'].get('cls') == 'DidNotTerminate' for o in obs for e in o['qs']) >= MAX_HUNG:
            break                                             # enough evidence; the log so far is still judged by TLC
    nqs = sum(len(o['qs']) for o in obs)
    ctx.evals += nqs
    bad = ctx.validate('Trace_Calendar', obs, env=JVM)
    judge(ctx, obs, bad)
    for o in obs:
        if o['cfg']['hol']:
            for e in o['qs']:
                q = e['q']
                ctx.note(('c2s', o['cfg']['lo'], tuple(o['cfg']['wk']), o['cfg']['adj'], q['op'], q['t'], q['n'], q['u'], q['a']))
    o = obs[len(obs) // 2]
    ctx.sample({'c2s_calendar': {'cfg': {**o['cfg'], 'hol': o['cfg']['hol'][:8] + ['...']}, 'how': o['how'], 'decoy': o['decoy'],
                                 'queries': o['qs'][:5]}})
    return obs


def replay(ctx, body):
    """./check C05 --replay <file>: re-execute one recorded violation (history: against the expectations TLC
    printed; arithmetic: the query is put to a fresh calendar and judged again by Trace_Calendar)"""
    signal.signal(signal.SIGVTALRM, _alarm)
    case = body['case']
    if case.get('kind') == 'history':
        replay_history(ctx, case['history'])
    else:
        cfg = case['cfg']
        q = qdict('fetch', 0, 0, 0, '') if case['op'] == 'fetch' else qdict(case['op'], case['t'], case['n'], case['u'],
                                                                         case['adj'] if case.get('explicit_adj') else '')
        reg = Registry()
        try:
            how = case.get('how', 'class')
            cal = make(cfg, reg.key('r'), how)
            out = holidays_of(cal) if q['op'] == 'fetch' else ask(cal, q)
        finally:
            reg.clean()
        obs = [{'cfg': cfg, 'how': how, 'decoy': False, 'qs': [{'q': q, 'out': out}]}]
        judge(ctx, obs, ctx.validate('Trace_Calendar', obs, env=JVM))
    for v in ctx.violations:
        print('STILL FAILS clause=%s detail=%s' % (v['clause'], str(v['detail'])[:300]))
    if not ctx.violations:
        print('no longer fails')
    import shutil
    shutil.rmtree(ctx.tmp, ignore_errors=True)
    return 1 if ctx.violations else 0


def run(ctx):
    signal.signal(signal.SIGVTALRM, _alarm)
    ctx.rule = ('S2C: (a) every in-domain query MC_Calendar enumerates for a seeded 1-in-GenMod sample of the configurations '
                '(all holiday subsets of a window across a weekend and a month end x 4 weekends x f/p/m) x every day, replayed on real '
                'Calendar objects (made by the class, by calendar(key, ...) or by calendar(obj)); (b) histories of the registry machine '
                'MC_CalendarReg replayed through calendar(...)/Calendar(...). C2S: random 2-year calendars (holiday density 0-40 %, runs '
                'across month ends and weekends), queries with n in -40..40, validated by Trace_Calendar by counting on ordinals. '
                'Non-trivial = the calendar has at least one holiday (arith: distinct (configuration, day); C2S: distinct query); '
                'history: at least two registrations and a query by key.')
    q = ctx.quick
    # MC_Calendar has the single action Eval (one step per initial state), so TLC's expression coverage - which doubles
    # its run time - has nothing to say about vacuity there; that every behaviour took its step is checked on the counts
    r = ctx.mc('MC_Calendar', 'MC_Calendar_quick.cfg' if q else 'MC_Calendar_thorough.cfg', env=JVM, coverage=False)
    if r.distinct != r.generated or r.distinct % 2:
        raise Machinery('MC_Calendar: not every (configuration, day) was evaluated')
    ctx.mc('MC_CalendarReg', 'MC_CalendarReg_quick.cfg' if q else 'MC_CalendarReg_thorough.cfg', env=JVM)
    if not q:
        ctx.mc('MC_Calendar', 'MC_Calendar_thorough2.cfg', env=JVM, coverage=False)
        ctx.mc('MC_CalendarReg', 'MC_CalendarReg_thorough2.cfg', env=JVM)
    s2c_arith(ctx, ctx.generate('MC_Calendar', 'MC_Calendar_gen_quick.cfg' if q else 'MC_Calendar_gen_thorough.cfg',
                                env={'C05_SEED': ctx.seed % 1000, **JVM}))
    s2c_registry(ctx, ctx.generate('MC_CalendarReg', 'MC_CalendarReg_sim.cfg', simulate=60 if q else 600, depth=8,
                                   seed=ctx.seed, workers=1, env=JVM))
    c2s(ctx, 200 if q else 2000, 150)
    ctx.exhaustive = False
    ctx.assumptions += [
        'holidays are given as midnight datetimes inside the calendar range; days asked about are midnight datetimes',
        'claimed domain: the day asked about, the adjusted day and the result lie inside [t0, t1] (C2S keeps 130 holiday-free days at both ends)',
        'is_holiday is not pinned by the statement (accepted as "not a business day" or "a listed holiday"); bdays(t, u) and clock '
        'differences are judged only where the end points named by the statement are business days',
        'small scope: MC windows of 7 (quick) / 10 (thorough) days, n in -8..8; registry MC with <= 2 (quick) / 3 (thorough) objects',
        'drange is asked forwards (t0 <= t1) with bump 1b only',
    ]
