"""X03 - extension of the specification: `interpolate` (spec/Curve.tla) and `df_roll_off` (spec/Roll.tla).

TLA+ decides; this driver renders the abstract cases, calls pyg_base and encodes what came back."""
import json
from harness.x_pool import pmap
from harness import x_curve


# ---------------------------------------------------------------------------------------------------
# X03-a  interpolate
# ---------------------------------------------------------------------------------------------------
def _nknots(case):
    x, y = case['x'], case['y']
    if x['k'] == 'v':
        return len(x['v'])
    if x['k'] in ('m', 'f'):
        return len(x['v'][0])
    return len(y['c'])


def _curve_variants(case, k):
    """the spellings under which one TLC case is replayed (chosen by the case number only)"""
    n = _nknots(case)
    vs = [(k % 4, None), ((k + 1) % 4, None)]
    if case['a']['k'] not in ('s', 'f') or case['x']['k'] != 'none':
        pass
    perm = list(range(n))[::-1] if k % 2 else list(range(1, n)) + [0]
    vs.append(((k + 2) % 4, perm))
    return vs


def _curve_replay(chunk):
    out = []
    for k, case in chunk:
        for sp, perm in _curve_variants(case, k):
            o = x_curve.observe(case, sp, perm)
            bad = None
            if (o['a_after'], o['y_after'], o['x_after']) != (o['a'], o['y'], o['x']):
                bad = 'operand_changed'
            elif o['out'] != case['want']:
                bad = 'raised' if o['out'].get('k') == 'exc' else 'values'
            out.append((k, sp, perm, bad, o['out'] if bad else None))
    return out


def curve_form(case):
    a, y, x = case['a'], case['y'], case['x']
    return '%s/%s/%s' % (a['k'], y['k'], x['k'])


def curve_s2c(ctx, cases, limit=None):
    items = list(enumerate(cases))
    if limit is not None and len(items) > limit:
        items = sorted(ctx.rng.sample(items, limit), key=lambda kc: kc[0])
    res = pmap(_curve_replay, items, chunk=400)
    by = dict(items)
    for k, sp, perm, bad, got in res:
        ctx.evals += 1
        case = by[k]
        if bad:
            ctx.violation(bad, {'op': 'interpolate', 'form': curve_form(case), 'fill': case['fill'], 'unsorted': perm is not None,
                                'spelling': sp, 'a': case['a'], 'y': case['y'], 'x': case['x']},
                          {'expected': case['want'], 'observed': got})
    for k, case in items:
        ctx.traces += 1
        w = case['want']
        flat = json.dumps(w.get('v'))
        if '"f"' in flat:
            ctx.note(('curve', json.dumps([case['a'], case['y'], case['x'], case['fill']])))
        if k % 4001 == 0:
            ctx.sample({'curve_s2c_case': case})


def run(ctx):
    q = ctx.quick
    r = ctx.mc('MC_Curve', 'MC_Curve_quick.cfg' if q else 'MC_Curve_thorough.cfg', coverage=False)
    if r.generated != r.distinct or r.distinct % 2:
        raise __import__('harness.core').core.Machinery('MC_Curve: not every case was evaluated (%d generated, %d distinct)' % (r.generated, r.distinct))
    curve_s2c(ctx, ctx.generate('MC_Curve', 'MC_Curve_gen_pt.cfg' if q else 'MC_Curve_gen_pt_wide.cfg'))
    curve_s2c(ctx, ctx.generate('MC_Curve', 'MC_Curve_gen_forms.cfg' if q else 'MC_Curve_gen_forms_wide.cfg'), limit=6000 if q else None)
    ctx.exhaustive = False
