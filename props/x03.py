"""X03 - extension of the specification: `interpolate` (spec/Curve.tla) and `df_roll_off` (spec/Roll.tla).

TLA+ decides; this driver renders the abstract cases, calls pyg_base and encodes what came back."""
import hashlib, json, os
from harness.x_pool import pmap
from harness import x_curve
from harness.core import Machinery


# ---------------------------------------------------------------------------------------------------
# X03-a  interpolate
# ---------------------------------------------------------------------------------------------------
def _digest(x):
    return hashlib.sha1(json.dumps(x, sort_keys=True).encode()).hexdigest()[:16]


def _nknots(case):
    x, y = case['x'], case['y']
    if x['k'] == 'v':
        return len(x['v'])
    if x['k'] in ('m', 'f'):
        return len(x['v'][0])
    return len(y['c'])


def _curve_variants(case, k):
    """the spellings under which one TLC case is replayed (chosen by the case number only)"""
    n = _nknots(case)
    perm = list(range(n))[::-1] if k % 2 else list(range(1, n)) + [0]
    return [(k % 4, None), ((k + 2) % 4, perm)]


def _curve_replay(chunk):
    out = []
    for k, case in chunk:
        for sp, perm in _curve_variants(case, k):
            o = x_curve.observe(case, sp, perm)
            bad = None
            if (o['a_after'], o['y_after'], o['x_after']) != (o['a'], o['y'], o['x']):
                bad = 'operand_changed'
            elif o['out'] != case['want']:
                bad = 'raised' if o['out'].get('k') == 'exc' else 'values'
            out.append((k, sp, perm, bad, o['out'] if bad else None))
    return out


def curve_form(case):
    a, y, x = case['a'], case['y'], case['x']
    return '%s/%s/%s' % (a['k'], y['k'], x['k'])


def curve_s2c(ctx, cases, limit=None):
    items = [(k, c) for k, c in enumerate(cases) if c.pop('exact')]
    ctx.extra['curve_cases_outside_float_exact_domain'] = ctx.extra.get('curve_cases_outside_float_exact_domain', 0) + len(cases) - len(items)
    if limit is not None and len(items) > limit:
        items = sorted(ctx.rng.sample(items, limit), key=lambda kc: kc[0])
    res = pmap(_curve_replay, items, chunk=400)
    by = dict(items)
    for k, sp, perm, bad, got in res:
        ctx.evals += 1
        case = by[k]
        if bad:
            ctx.violation(bad, {'op': 'interpolate', 'form': curve_form(case), 'fill': case['fill'], 'unsorted': perm is not None,
                                'spelling': sp, 'a': case['a'], 'y': case['y'], 'x': case['x']},
                          {'expected': case['want'], 'observed': got})
    for k, case in items:
        ctx.traces += 1
        w = case['want']
        flat = json.dumps(w.get('v'))
        if '"f"' in flat:
            ctx.note(('curve', _digest([case['a'], case['y'], case['x'], case['fill']])))
        if k % 4001 == 0:
            ctx.sample({'curve_s2c_case': case})


# ---- C2S: random curves whose chords binary floating point computes exactly ------------------------------
def _odd(n):
    n = abs(n)
    while n and n % 2 == 0:
        n //= 2
    return n or 1


def _lcm(a, b):
    import math
    return a * b // math.gcd(a, b)


def _c(p, q=1):
    from fractions import Fraction
    f = Fraction(p, q)
    return ["f", [f.numerator, f.denominator]]


NANC = ["nan", 0]


def _nan_mask(rng, n):
    r = rng.random()
    p = 0.0 if r < 0.3 else 0.3 if r < 0.8 else 0.8
    return [rng.random() < p for _ in range(n)]


def rand_curves(rng, n, m, fill, shared):
    """m curves over n knots each (shared: the same knots for all): (knot cells, value cells, knots as Fractions).
    Drawn inside the domain FloatExact of spec/Curve.tla BY CONSTRUCTION:
      fill nan / bound  (slope form): the slope of the chord between ANY two knots is a dyadic rational - either integer
          knots and values on a grid scaled by the odd parts of all knot differences, or dyadic knots and values on a
          parabola with dyadic coefficients; NaN values anywhere;
      fill extrapolate  (weight form): the difference between the two knots of any chord that can be used is a power of two -
          either up to three equally spaced knots (NaN values anywhere), or gaps that are powers of two and no NaN value."""
    from fractions import Fraction
    def knots():
        if fill == 'extrapolate':
            if n <= 3 and rng.random() < 0.5:
                g = Fraction(rng.choice([1, 2, 4, 8]), rng.choice([1, 4]))
                x0 = Fraction(rng.randint(-16, 16), 2)
                return [x0 + i * g for i in range(n)], 'equi'
            x0 = Fraction(rng.randint(-16, 16), 2)
            xs = [x0]
            for _ in range(n - 1):
                xs.append(xs[-1] + Fraction(rng.choice([1, 2, 4, 8]), rng.choice([1, 2, 4])))
            return xs, 'pow2'
        if rng.random() < 0.6:
            while True:
                pos = sorted(rng.sample(range(-8, 17), n))
                L = 1
                for i in range(n):
                    for j in range(i + 1, n):
                        L = _lcm(L, _odd(pos[j] - pos[i]))
                if L <= 1000:
                    break
            scale = Fraction(1, rng.choice([4, 2, 1, 1]))
            return [Fraction(q) * scale for q in pos], ('grid', L)
        return sorted(rng.sample([Fraction(k, 4) for k in range(-32, 33)], n)), 'parabola'
    def values(xs, how):
        if how == 'equi':
            ys, mask = [Fraction(rng.randint(-160, 160), 4) for _ in xs], _nan_mask(rng, n)
        elif how == 'pow2':
            ys, mask = [Fraction(rng.randint(-160, 160), 4) for _ in xs], [False] * n
        elif how == 'parabola':
            al, be, ga = (Fraction(rng.randint(-4, 4), 2) for _ in range(3))
            ys, mask = [al * v * v + be * v + ga for v in xs], _nan_mask(rng, n)
        else:
            ys, mask = [Fraction(how[1] * rng.randint(-8, 8), rng.choice([1, 2, 4])) for _ in xs], _nan_mask(rng, n)
        return [NANC if mk else _c(v.numerator, v.denominator) for v, mk in zip(ys, mask)]
    out = []
    xs, how = knots()
    for i in range(m):
        if i and not shared:
            xs, how = knots()
        out.append(([_c(v.numerator, v.denominator) for v in xs], values(xs, how), xs))
    return out


def rand_point(rng, xs):
    from fractions import Fraction
    r = rng.random()
    if r < 0.05:
        return NANC
    if r < 0.3:
        v = rng.choice(xs)
    else:
        lo, hi = int(xs[0]) - 6, int(xs[-1]) + 6
        v = Fraction(rng.randint(lo * 8, hi * 8), 8)
    return _c(v.numerator, v.denominator)


def rand_curve_case(rng):
    n = rng.choice([2, 2, 3, 4, 5, 7])
    fill = rng.choice(['nan', 'extrapolate', 'bound'])
    form = rng.choice(['c/v', 'v/v', 'm/v', 'c/m', 'v/m', 'vrow/m', 'm/m', 'c/mx', 'vrow/mx', 'm/mx',
                       'c/f', 'v/f', 'vrow/f', 'm/f', 's/f', 'f/f', 'c/fx', 's/fx', 'c/ff', 'v/ff'])
    af, yf = form.split('/')
    L = rng.choice([0, 1, 2, 3, 3, 5, 8])
    if yf == 'v':
        x, y, xs = rand_curves(rng, n, 1, fill, True)[0]
        pts = lambda k: [rand_point(rng, xs) for _ in range(k)]
        a = {'k': 'c', 'v': pts(1)[0]} if af == 'c' else {'k': 'v', 'v': pts(L)} if af == 'v' else {'k': 'm', 'v': [pts(max(L, 1)) for _ in range(rng.choice([1, 2, 3]))]}
        return {'a': a, 'y': {'k': 'v', 'v': y}, 'x': {'k': 'v', 'v': x}, 'fill': fill}
    m = rng.choice([1, 2, 3, 5])
    perrow_x = yf in ('mx', 'ff')
    curves = rand_curves(rng, n, m, fill, not perrow_x)
    allx = sorted(set(v for c in curves for v in c[2]))
    pt = lambda: rand_point(rng, allx)
    times = sorted(rng.sample(range(1, 41), m))
    if af == 'c':
        a = {'k': 'c', 'v': pt()}
    elif af == 'v':
        a = {'k': 'v', 'v': [pt() for _ in range(L)]}
    elif af == 'vrow':
        a = {'k': 'v', 'v': [pt() for _ in range(m)]}
    elif af == 'm':
        a = {'k': 'm', 'v': [[pt() for _ in range(max(L, 1))] for _ in range(m)]}
    else:                           # dated points: some dates of the values, some others
        k = rng.choice([1, 2, 3, 4])
        at = sorted(set(rng.sample(times, min(len(times), rng.choice([1, 2, 5]))) + rng.sample(range(1, 45), k - 1)))
        if af == 's':
            a = {'k': 's', 't': at, 'v': [pt() for _ in at]}
        else:
            w = rng.choice([1, 2, 3])
            a = {'k': 'f', 't': at, 'c': ['p', 'q', 'r'][:w], 'v': [[pt() for _ in range(w)] for _ in at]}
    yrows = [c[1] for c in curves]
    if yf in ('m', 'mx'):
        y = {'k': 'm', 'v': yrows}
        x = {'k': 'm', 'v': [c[0] for c in curves]} if perrow_x else {'k': 'v', 'v': curves[0][0]}
    else:
        if yf == 'f':               # the labels of the frame are the knots
            y = {'k': 'f', 't': times, 'c': curves[0][0], 'v': yrows}
            x = {'k': 'none'}
        else:                       # knots given: the labels are something else
            y = {'k': 'f', 't': times, 'c': [_c(100 + j) for j in range(n)], 'v': yrows}
            x = {'k': 'f', 't': times, 'c': [], 'v': [c[0] for c in curves]} if perrow_x else {'k': 'v', 'v': curves[0][0]}
    return {'a': a, 'y': y, 'x': x, 'fill': fill, 'form': form}


def _curve_observe(chunk):
    return [x_curve.observe(case, sp, perm) for case, sp, perm in chunk]


def curve_c2s(ctx, n):
    jobs = []
    for i in range(n):
        case = rand_curve_case(ctx.rng)
        sp = ctx.rng.randrange(4)
        perm = None
        if ctx.rng.random() < 0.3:
            k = _nknots(case)
            perm = ctx.rng.sample(range(k), k)
        jobs.append((case, sp, perm))
    obs = pmap(_curve_observe, jobs, chunk=250)
    ctx.evals += len(obs)
    bad = ctx.validate('Trace_Curve', obs)
    for i, clause in bad:
        o = obs[i - 1]
        if clause in ('malformed_observation', 'outside_float_exact_domain'):
            raise Machinery('Trace_Curve: line %d is %s: %s' % (i, clause, json.dumps(o)[:600]))
        ctx.violation(clause, {'op': 'interpolate', 'form': curve_form(o), 'fill': o['fill'], 'unsorted': not o['sorted'], 'spelling': o['sp'],
                               'a': o['a'], 'y': o['y'], 'x': o['x']},
                      {'observed': o['out'], 'after': [o['a_after'], o['y_after'], o['x_after']]})
    for o in obs:
        if '"f"' in json.dumps(o['out'].get('v', '')):
            ctx.note(('curve-c2s', _digest([o['a'], o['y'], o['x'], o['fill']])))
    ctx.sample({'curve_c2s_observation': obs[len(obs) // 2]})
    return obs


# ---------------------------------------------------------------------------------------------------
# X03-b/c  df_roll_off
# ---------------------------------------------------------------------------------------------------
from harness import x_roll


def _roll_key(call):
    return json.dumps(call, sort_keys=True)


def _roll_want(want):
    """the expected outcome as printed by TLC, roll dates only where the law pins them"""
    w = {'kind': want['kind'], 'loaded': list(want['loaded']), 'checked': list(want['checked'])}
    if want['kind'] == 'ok':
        pinned = sorted(want['pinned'])
        w['data'] = {'rows': list(want['data']['rows']), 'cols': [list(c) for c in want['data']['cols']]}
        w['rolls'] = [[i, want['rolls'][i - 1]] for i in pinned]
    elif want['kind'] == 'exc':
        w['cls'] = want['cls']
    else:
        w['args'] = list(want['args'])
    return w


def _roll_got(o, want):
    out = o['out']
    g = {'kind': out['kind'], 'loaded': o['loaded'], 'checked': o['checked']}
    if out['kind'] == 'ok':
        g['data'] = out['data']
        pinned = sorted(want['pinned']) if want['kind'] == 'ok' else []
        g['rolls'] = [[i, out['rolls'][i - 1]] for i in pinned]
    elif out['kind'] == 'exc':
        g['cls'] = out['cls']
    else:
        g['args'] = out['args']
    return g


def _roll_compare(o, want):
    """plain == between the encoded observation and what TLC printed; the name of the first part that differs"""
    w, g = _roll_want(want), _roll_got(o, want)
    for part, clause in (('loaded', 'loaded'), ('checked', 'live_check'), ('kind', 'outcome_kind'), ('cls', 'exception_class'),
                         ('args', 'do_if_no_n_arguments'), ('data', 'values'), ('rolls', 'roll_dates')):
        if w.get(part) != g.get(part):
            if part == 'data' and w.get('data') and g.get('data') and w['data']['rows'] != g['data']['rows']:
                return 'rows'
            return clause
    if o['after']['data'] != o['data_before']:
        return 'data_argument_changed'
    if o['after']['chain'] != o['chain_before'] or o['after']['keys'] != o['keys_before']:
        return 'chain_argument_changed'
    return None


def _roll_case(call, via, clause_detail=None):
    c = {'op': 'df_roll_off', 'via': via, 'n': call['n'], 'with_data': bool(call['data']['cols']), 'last_on_cutoff': x_roll.last_on_cutoff(call),
         'later_ends_earlier': x_roll.later_ends_earlier(call), 'ifno': call['ifno'], 'call': call}
    return c


def _roll_replay_calls(chunk):
    out = []
    for k, case in chunk:
        call = {f: v for f, v in case['call'].items() if f != 'live'}
        o, _ = x_roll.observe(call, sp=k % 8)
        out.append((k, _roll_compare(o, case['want']), o['out'], o['loaded'], o['checked']))
    return out


def roll_s2c_calls(ctx, cases, via='call'):
    items = list(enumerate(cases))
    res = pmap(_roll_replay_calls, items, chunk=100)
    for k, bad, out, loaded, checked in res:
        ctx.evals += 1; ctx.traces += 1
        case = cases[k]
        if bad:
            ctx.violation(bad, _roll_case(case['call'], via), {'expected': _roll_want(case['want']), 'observed': out, 'loaded': loaded, 'checked': checked})
        if case['want']['kind'] == 'ok' and len(case['want']['loaded']) >= 2:
            ctx.note(('roll', _digest(case['call'])))
        if k % 501 == 0:
            ctx.sample({'roll_s2c_case': {'call': case['call'], 'want': _roll_want(case['want'])}})


def _roll_replay_sessions(chunk):
    """one history = the caller's session: every load step is replayed in order; what is handed to a step is what the
    previous steps returned (checked by ==: the step's data / chain ARE the observed ones), the session ends at the
    first step the code answers differently"""
    out = []
    for k, h in chunk:
        state = None          # (data, rolls) as observed after the last load
        verdict = None
        nload = 0
        for j, st in enumerate(h['hist']):
            if st['act'] != 'load':
                continue
            call = {f: v for f, v in st['call'].items() if f != 'live'}
            o, _ = x_roll.observe(call, sp=(k + j) % 8)
            nload += 1
            bad = _roll_compare(o, st['want'])
            if bad:
                verdict = (j, bad, call, st['want'], o['out'], o['loaded'], o['checked'])
                break
        out.append((k, nload, verdict))
    return out


def roll_s2c_sessions(ctx, hists):
    seen = ctx.extra.setdefault('_session_steps_seen', set())
    for h in hists:
        for st in h['hist']:
            seen.add(('load', bool(st['keep']), min(st['d'], 2) if st['call']['data']['cols'] else -1, bool(st['call']['data']['cols'])) if st['act'] == 'load' else ('trunc', bool(st['head'])))
    items = list(enumerate(hists))
    res = pmap(_roll_replay_sessions, items, chunk=25)
    for k, nload, verdict in res:
        ctx.evals += nload; ctx.traces += 1
        if verdict:
            j, bad, call, want, out, loaded, checked = verdict
            case = _roll_case(call, 'session')
            case['step'] = j
            ctx.violation(bad, case, {'expected': _roll_want(want), 'observed': out, 'loaded': loaded, 'checked': checked,
                                      'world': hists[k]['w'], 'steps': [{f: s[f] for f in s if f not in ('call', 'want')} for s in hists[k]['hist']]})
        if nload >= 3:
            ctx.note(('session', _digest([hists[k]['w'], hists[k]['n'], [[s.get('d'), s.get('keep'), s.get('t'), s.get('head')] for s in hists[k]['hist']]])))
        if k % 101 == 0:
            ctx.sample({'roll_session': {'world': hists[k]['w'], 'n': hists[k]['n'],
                                         'steps': [{f: s[f] for f in s if f not in ('call', 'want')} for s in hists[k]['hist']]}})


# ---- C2S: random chains, calendars with holes, roll dates written by the caller, sessions through the code itself -------
def rand_roll_world(rng):
    """contracts that trade one after the other: per contract the days it has a row on (holes allowed), NaN prices, the
    roll date the caller wrote (or none); roll-off points (min(roll date, last day)) do not go backwards along the chain"""
    K = rng.choice([1, 2, 3, 4, 5, 6])
    T = 36
    days, rolls = [], []
    start, prev_u, prev_roll = rng.randint(1, 4), 0, 0
    holes = rng.random() < 0.5
    for i in range(K):
        r = rng.random()
        if r < 0.12:
            days.append([]); rolls.append(0)          # a listed contract that never trades
            continue
        length = rng.randint(3, 14)
        start = min(start, T)
        end = max(min(T, start + length), prev_u + 1, start)
        ds = list(range(start, end + 1))
        if holes:
            ds = [d for d in ds if d == end or rng.random() < 0.8]
        days.append(ds)
        if rng.random() < 0.35:
            ro = rng.randint(max(prev_u, ds[0], prev_roll), max(end + 2, prev_roll))
            rolls.append(ro)
            prev_roll = ro
            prev_u = min(ro, end)
        else:
            rolls.append(0)
            prev_u = end
        start = rng.randint(max(1, ds[0]), max(ds[0], end - 1)) + rng.choice([0, 1, 2])
        if rng.random() < 0.15:
            start = end + rng.choice([1, 2])          # a gap between two contracts
    return {'days': days, 'rolls': rolls, 'T': T, 'nan': rng.random() < 0.3, 'none_kind': rng.choice([0, 1])}


def roll_call_of(world, rng, now, n, data, rolls):
    L = []
    for i, ds in enumerate(world['days'], 1):
        rows = [d for d in ds if d <= now]
        vals = [(-1 if world['nan'] and (7 * i + d) % 11 == 0 and d != rows[-1] else 1000 * i + d) for d in rows]
        L.append({'rows': rows, 'cols': [vals], 'none': 1 if (not rows and world['none_kind']) else 0})
    with_data = bool(data['cols'])
    cutoff = now - rng.choice([0, 1, 2, 2, 3, 5])
    if with_data:
        cutoff = max(cutoff, data['rows'][0])           # the kept part of the data is never empty
    elif rng.random() < 0.15:
        cutoff = 0                                      # cutoff = None
    check = rng.choice([1, 1, 1, 0])
    return {'L': L, 'rolls': rolls, 'now': now, 'expiry': now - rng.choice([0, 1, 3, 3, 6]), 'cutoff': cutoff, 'n': n, 'data': data,
            'tr': rng.choice([0, 0, 1]), 'mark': rng.choice([0, 0, 1]) if check else 0, 'ifno': rng.choice(['no', 'no', 'no', 'raise', 'call']),
            'check': check}


def _roll_sessions_observe(chunk):
    """each job: a world and a seed; a session of loads through the real code, feeding back what it returned"""
    import random
    out = []
    for world, seed in chunk:
        rng = random.Random(seed)
        n = rng.choice([0, 0, 1, 2, 2, 3, 4])
        now = rng.randint(3, 12)
        data, rolls = {'rows': [], 'cols': []}, list(world['rolls'])
        for step in range(rng.choice([1, 2, 3, 4])):
            call = roll_call_of(world, rng, now, n, data, rolls)
            if any(r and r < 0 for r in rolls) or call['expiry'] < 1 or (call['cutoff'] and call['cutoff'] < 1):
                break
            o, _ = x_roll.observe(call, sp=rng.randrange(8))
            out.append(o)
            if o['out']['kind'] != 'ok':
                break
            got = o['out']['data']
            if 'labels' in got or 'type' in got or any(v < -1 for col in got['cols'] for v in col) or any(t <= 0 for t in got['rows']) \
                    or any(a >= b for a, b in zip(got['rows'], got['rows'][1:])) or any(r < 0 for r in o['out']['rolls']):
                break                                    # not a frame the next call can be given: the line above reports it
            # the caller files what came back; sometimes he cuts the data, sometimes he goes back to his own chain
            data = {'rows': list(got['rows']), 'cols': [list(c) for c in got['cols']]}
            if call['tr'] or call['mark']:
                data = {'rows': [], 'cols': []}          # (marked / transformed values are not prices to continue from)
            if data['rows'] and rng.random() < 0.3:
                k = rng.randrange(len(data['rows']))
                if rng.random() < 0.5:
                    data = {'rows': data['rows'][:k + 1], 'cols': [c[:k + 1] for c in data['cols']]}
                else:
                    data = {'rows': data['rows'][k:], 'cols': [c[k:] for c in data['cols']]}
            rolls = list(o['out']['rolls']) if rng.random() < 0.7 else list(world['rolls'])
            now = now + rng.choice([0, 1, 1, 2, 3, 7])
            if now > world['T']:
                break
    return out


def roll_c2s(ctx, nworlds):
    jobs = [(rand_roll_world(ctx.rng), ctx.rng.randrange(2 ** 30)) for _ in range(nworlds)]
    obs = pmap(_roll_sessions_observe, jobs, chunk=40)
    ctx.evals += len(obs)
    bad = ctx.validate('Trace_Roll', obs)
    for i, clause in bad:
        o = obs[i - 1]
        if clause == 'malformed_observation':
            raise Machinery('Trace_Roll: line %d is outside the domain of the law: %s' % (i, json.dumps(o['call'])[:800]))
        ctx.violation(clause, _roll_case(o['call'], 'c2s'), {'observed': o['out'], 'loaded': o['loaded'], 'checked': o['checked'], 'after': o['after']})
    for o in obs:
        if o['out']['kind'] == 'ok' and len(o['loaded']) >= 2:
            ctx.note(('roll-c2s', _digest(o['call'])))
    ctx.sample({'roll_c2s_observation': {k: obs[len(obs) // 2][k] for k in ('call', 'out', 'loaded', 'checked')}})
    return obs


def run(ctx):
    q = ctx.quick
    ctx.rule = ('interpolate: S2C = every TLC case (curve x point x fill policy, matrix / frame / dated forms) inside the float-exact '
                'domain replayed in two spellings (one with the knots permuted and assume_sorted = False), == with the expected object; '
                'C2S = random curves (<= 7 knots, <= 5 rows, all forms) judged by Trace_Curve.  df_roll_off: S2C = single calls and '
                'caller sessions (loads at moving clocks feeding back data and chain, truncations) generated by TLC, == on loader log, '
                'live_check log, outcome, data and pinned roll dates; C2S = random chains with calendar holes / NaN / caller roll dates in '
                'sessions through the code itself, judged by Trace_Roll.  Non-trivial = a finite interpolated value / >= 2 contracts loaded / >= 3 loads.')
    part = os.environ.get('VERIF_X03_PART', '')          # development aid: 'curve' or 'roll' runs one half only
    if part != 'roll':
        run_curve(ctx, q)
    if part != 'curve':
        run_roll(ctx, q)
    ctx.exhaustive = False
    ctx.assumptions += ASSUMPTIONS


def run_curve(ctx, q):
    r = ctx.mc('MC_Curve', 'MC_Curve_quick.cfg' if q else 'MC_Curve_thorough.cfg', coverage=False)
    if r.generated != r.distinct or r.distinct % 2:
        raise Machinery('MC_Curve: not every case was evaluated (%d generated, %d distinct)' % (r.generated, r.distinct))
    pts = ctx.generate('MC_Curve', 'MC_Curve_gen_pt.cfg' if q else 'MC_Curve_gen_pt_wide.cfg')
    curve_s2c(ctx, pts, limit=6000 if q else None)
    curve_s2c(ctx, ctx.generate('MC_Curve', 'MC_Curve_gen_forms.cfg' if q else 'MC_Curve_gen_forms_wide.cfg'), limit=2500 if q else None)
    curve_c2s(ctx, 2500 if q else 40000)


def _simulate(ctx, module, cfg, n, depth, seed):
    """TLC -simulate with ONE worker whatever VERIF_TLC_WORKERS says: the traces must depend on the seed only"""
    old = os.environ.pop('VERIF_TLC_WORKERS', None)
    try:
        return ctx.generate(module, cfg, simulate=n, depth=depth, seed=seed, workers=1)
    finally:
        if old is not None:
            os.environ['VERIF_TLC_WORKERS'] = old


def run_roll(ctx, q):
    r = ctx.mc('MC_RollCall', 'MC_RollCall_quick.cfg' if q else 'MC_RollCall_thorough.cfg', coverage=False)
    if r.generated != r.distinct or r.distinct % 2:
        raise Machinery('MC_RollCall: not every case was evaluated (%d generated, %d distinct)' % (r.generated, r.distinct))
    r = ctx.mc('MC_Roll', 'MC_Roll_quick.cfg' if q else 'MC_Roll_thorough.cfg', coverage=False)
    if r.generated < 3 * r.distinct:
        raise Machinery('MC_Roll: suspiciously few transitions (%d generated, %d distinct)' % (r.generated, r.distinct))
    # the reading of today's code (a contract whose data ends ON the cutoff counts as live) breaks the session law
    ctx.mc('MC_Roll', 'MC_Roll_today.cfg', must_fail='SavedIsFresh', coverage=False)
    roll_s2c_calls(ctx, ctx.generate('MC_RollCall', 'MC_RollCall_gen.cfg' if q else 'MC_RollCall_gen_wide.cfg'))
    if not q:
        roll_s2c_calls(ctx, ctx.generate('MC_RollCall', 'MC_RollCall_gen_empty.cfg'))
    hists = ctx.generate('MC_Roll', 'MC_Roll_gen3.cfg' if q else 'MC_Roll_gen4.cfg')
    roll_s2c_sessions(ctx, ctx.rng.sample(hists, 600) if q and len(hists) > 600 else hists)
    roll_s2c_sessions(ctx, _simulate(ctx, 'MC_Roll', 'MC_Roll_gen.cfg', 25 if q else 800, 7, ctx.seed + 1))
    # vacuity: the replayed histories exercise every action of the caller's state machine in every flavour
    seen = ctx.extra.pop('_session_steps_seen')
    want = {('load', kp, d, True) for kp in (True, False) for d in (0, 1, 2)} | {('load', True, -1, False), ('trunc', True), ('trunc', False)}
    if want - seen:
        raise Machinery('vacuous: the generated sessions never take %s' % sorted(want - seen))
    roll_c2s(ctx, 400 if q else 8000)


ASSUMPTIONS = [
        'interpolate: floats cross the boundary exactly; the cases replayed lie in the domain FloatExact of spec/Curve.tla where scipy 1.x evaluates the chord without rounding (slope form for fill nan/bound, weight form for extrapolate)',
        'interpolate: knots are finite and distinct (increasing unless assume_sorted = False); frames of values have >= 2 knot columns; maturities given as dates (years_to_maturity) and dated knots on other dates than the values (xmethod) are not covered',
        'df_roll_off: the clock of the code is the wall clock (dt(0)); grid day k of a call with clock `now` is rendered as today + (k - now) days - a run across midnight between rendering and the call would be off by one',
        'df_roll_off: chains are chronological (roll-off points do not go backwards), a cutoff is given whenever data is given and the kept part of the data is not empty; loaders return pd.Series',
        'small-scope: worlds of <= 4 contracts over <= 19 days in TLC, <= 6 contracts over 36 days in C2S']


def replay(ctx, body):
    """./check X03 --replay <file>: the recorded case once more, judged by the trace specification"""
    c = body['case']
    if c['op'] == 'interpolate':
        case = {'a': c['a'], 'y': c['y'], 'x': c['x'], 'fill': c['fill']}
        n = _nknots(case)
        o = x_curve.observe(case, c.get('spelling', 0), list(range(n))[::-1] if c.get('unsorted') else None)
        bad = ctx.validate('Trace_Curve', [o])
    else:
        o, _ = x_roll.observe({f: v for f, v in c['call'].items() if f != 'live'}, sp=0)
        bad = ctx.validate('Trace_Roll', [o])
    print('replay:', 'REJECTED %s' % bad if bad else 'accepted', json.dumps(o['out'])[:600])
    return 1 if bad else 0
