"""C02 - join is the relational inner/cross join and xor the anti-join; both terminate."""
import gc, json, os
from harness.enc import IdMap, tag, untag, table_from, proj_table
from harness import watchdog
from harness import x_join

FN = {'ident_a': lambda a: a, 'ident_b': lambda b: b, 'pair_ab': lambda a, b: (a, b)}
MODEFN = lambda l, r: [r, l]
TIMEOUTS = [0]
MODES = {'none': None, 'l': 'l', 'r': 'r', '0': 0, '1': 1, 'fn': MODEFN}
MODE_SPELLINGS = {'l': ['l', 'left', 'LHS', 'L'], 'r': ['r', 'right', 'RHS', 'R']}
FLUSH_AT = int(os.environ.get('VERIF_VALIDATE_CHUNK', '30000')) - 500       # one slice of the log = one run of the trace specification


def timed(f):
    """the call under the CPU-time watchdog; Python's cyclic garbage collector is held off meanwhile (a full collection of the
    harness's own log of observations inside the timed region would be billed to the call)"""
    gc.disable()
    try:
        return watchdog.call(f, seconds=3.0)
    finally:
        gc.enable()


def keyarg(ks, spelling, cache=None):
    """render a list of key specifications as the lcols / rcols argument; with a cache (one per session) the caller keeps ONE list object
    per key specification and hands it to every call - and to both parameters of one call - that names these keys"""
    items = [k[1] if k[0] == 'col' else FN[k[1]] for k in ks]
    if spelling == 'str' and len(items) == 1:
        return items[0]
    if spelling == 'tuple':
        return tuple(items)
    if cache is not None:
        return cache.setdefault(json.dumps(ks), items)
    return items


def keyargs_now(cache):
    return [[k, tag(v)] for k, v in sorted(cache.items())]


def render_call(left, right, lk, rk, op, mode, spelling, how, n, cache=None):
    """one call plan as a thunk on the real objects; op: join | xor | leftjoin (= x*y + x/y on the same two objects);
    how: 'operator' (x * y, x / y; implicit keys, default mode) or a method call; n rotates the spelling of the mode"""
    if how == 'operator':
        return {'join': lambda: left * right, 'xor': lambda: left / right, 'leftjoin': lambda: left * right + left / right}[op]
    kw = {}
    if spelling != 'none':
        kw['lcols'] = keyarg(lk, spelling, cache)
        if spelling != 'same':                  # 'same': rcols omitted, defaults to lcols
            kw['rcols'] = keyarg(rk, spelling, cache)
    kwj = dict(kw)
    if mode != 'none' or how == 'method_mode':
        kwj['mode'] = MODES[mode]
        if mode in MODE_SPELLINGS:
            kwj['mode'] = MODE_SPELLINGS[mode][n % 4]
    if op == 'join':
        return lambda: left.join(right, **kwj)
    if op == 'leftjoin':
        return lambda: left.join(right, **kwj) + left.xor(right, **kw)
    kwx = dict(kw)
    if mode == 'r':
        kwx['mode'] = ['r', 'right', 1, 'R'][n % 4]
    return lambda: left.xor(right, **kwx)


def observe(x, y, lk, rk, op, mode, spelling, how, codec=None):
    how0 = how
    """how: 'method' (x.join / x.xor) or 'operator' (x * y, x / y; only with implicit keys, default mode);
    codec: the witness scheme of a table over abstract key cells (harness/x_join.py)"""
    ids = IdMap()
    table_from, proj_table, untag = ((codec.table_from, codec.proj_table, codec.untag) if codec is not None else
                                     (globals()['table_from'], globals()['proj_table'], globals()['untag']))
    dx, dy = table_from(x, ids), table_from(y, ids)
    if codec is not None:
        x, y = codec.abstract_in(x), codec.abstract_in(y)
    implicit = spelling == 'none'
    if how == 'rejoin':
        # a history on the same objects: join / xor once, edit one key cell of x in place through the column list
        # the table hands out, then call again; the second call is the one recorded (against the edited x)
        how = 'method'
        kc = [k[1] for k in lk if k[0] == 'col']
        if kc and x['rows'] and y['rows']:
            try:
                (dx.join(dy, **({} if implicit else {'lcols': keyarg(lk, spelling), 'rcols': keyarg(rk, spelling)})) if op == 'join'
                 else dx.xor(dy, **({} if implicit else {'lcols': keyarg(lk, spelling), 'rcols': keyarg(rk, spelling)})))
            except Exception:
                pass
            i = len(x['rows']) // 2
            rkc = [k[1] for k in rk if k[0] == 'col']
            newv = y['rows'][-1][rkc[0]] if rkc else x['rows'][0][kc[0]]
            x = {'cols': x['cols'], 'rows': [dict(r) for r in x['rows']]}
            x['rows'][i][kc[0]] = newv
            dict.__getitem__(dx, kc[0])[i] = (dict.__getitem__(dy, rkc[0])[-1] if rkc else dict.__getitem__(dx, kc[0])[0]) if codec is not None else untag(newv, ids)
    other = dy
    if how == 'method' and y['rows'] and (len(x['rows']) + 2 * len(y['rows'])) % 5 == 0:
        other = {c: list(dict.__getitem__(dy, c)) for c in dict.keys(dy)}     # a plain dict of column lists
    f = render_call(dx, dy if how == 'operator' else other, lk, rk, op, mode, spelling, how, len(x['rows']) + len(y['rows']))
    if TIMEOUTS[0] >= 25:       # enough evidence of non-termination; do not burn CPU on more
        return None
    status, val = timed(f)
    if status == 'timeout':
        TIMEOUTS[0] += 1
    if status == 'ok':
        out = proj_table(val, ids); out['kind'] = 'table'
    elif status == 'exc':
        out = {'kind': 'exc', 'cls': type(val).__name__}
    else:
        out = {'kind': 'timeout'}
    o = {'op': op, 'x': x, 'y': y, 'lk': lk, 'rk': rk, 'mode': mode, 'implicit': implicit, 'spelling': spelling, 'how': how0,
         'out': out, 'x_after': proj_table(dx, ids), 'y_after': proj_table(dy, ids)}
    if codec is not None:
        o['scheme'] = codec.scheme.name; o['rot'] = codec.rot
    return o


# ---- histories on ONE pair of operand objects (enumerated by TLC: spec/MC_JoinObj.tla, shapes and plans: spec/JoinCalls.tla) ----
SHAPES = ['same', 'copy', 'lcopy', 'project', 'derive', 'dictof', 'equal', 'distinct']


def operands(h, ids):
    """the base object X and the pair (base side, other side) for the operand shape of history h"""
    X = table_from(h['x'], ids)
    shape = h['shape']
    if shape == 'same':
        return X, X, X                                      # the very same object on both sides
    if shape == 'copy':
        return X, X, X.copy()                               # a new table object on X's column lists
    if shape == 'lcopy':
        return X, X.copy(), X
    if shape == 'project':
        return X, X, X[['a', 'b']]
    if shape == 'derive':
        return X, X, X(q=lambda p: p + 100)
    if shape == 'dictof':
        return X, X, {c: dict.__getitem__(X, c) for c in dict.keys(X)}     # plain dict holding X's column lists
    if shape in ('equal', 'distinct'):
        return X, X, table_from(h['yd'], ids)               # built independently
    raise ValueError(shape)


def run_history(h, family, obs, meta):
    """replay one history of TLC on real objects: calls are recorded (operands read immediately before and after), edits overwrite
    one key cell of X in place through its column list"""
    ids = IdMap()
    X, L, R = operands(h, ids)
    for k, st in enumerate(h['steps']):
        if st['kind'] == 'edit':
            dict.__getitem__(X, st['col'])[st['row'] - 1] = untag(st['val'], ids)
            continue
        left, right = (L, R) if st['dir'] == 'xy' else (R, L)
        bx, by = proj_table(left, ids), proj_table(right, ids)
        f = render_call(left, right, st['lk'], st['rk'], st['op'], st['mode'], st['spelling'], st['how'], len(bx['rows']) + len(by['rows']) + k)
        if TIMEOUTS[0] >= 25:
            return
        status, val = timed(f)
        if status == 'timeout':
            TIMEOUTS[0] += 1
        if status == 'ok':
            out = proj_table(val, ids); out['kind'] = 'table'
        elif status == 'exc':
            out = {'kind': 'exc', 'cls': type(val).__name__}
        else:
            out = {'kind': 'timeout'}
        obs.append({'op': st['op'], 'x': bx, 'y': by, 'lk': st['lk'], 'rk': st['rk'], 'mode': st['mode'], 'implicit': st['implicit'],
                    'spelling': st['spelling'], 'how': st['how'], 'shape': h['shape'], 'dir': st['dir'], 'out': out,
                    'x_after': proj_table(left, ids), 'y_after': proj_table(right, ids)})
        meta[len(obs) - 1] = {'family': family, 'hist': h, 'step': k}


def rand_history(rng, catalogue):
    """a larger random base table (duplicate and mixed keys), a random shape, three or four steps from TLC's plan catalogue"""
    pool = [["n", 0], ["i", 1], ["i", 2], ["f", [1, 1]], ["f", [2, 1]], ["f", [5, 2]], ["nan", 1], ["nan", 2], ["nan", 3],
            ["s", "a"], ["s", "b"], ["d", [730120, 0, 0]], ["i", 0], ["f", [0, 1]], ["inf", 1], ["inf", -1]]
    sub = rng.sample(pool, rng.choice([2, 3, 4, 6]))
    n = rng.choice([1, 2, 3, 5, 7])
    x = {'cols': ['a', 'b', 'p'], 'rows': [{'a': rng.choice(sub), 'b': rng.choice(sub), 'p': ["i", i + 1]} for i in range(n)]}
    shape = rng.choice(SHAPES)
    yd = x if shape == 'equal' else {'cols': ['a', 'b', 'q'], 'rows': [{'a': rng.choice(sub), 'b': rng.choice(sub), 'q': ["i", 11 + i]} for i in range(rng.choice([0, 1, 3]))]}
    steps = []
    for k in range(rng.choice([3, 4])):
        if k in (1, 2) and rng.random() < 0.3:
            steps.append({'kind': 'edit', 'col': rng.choice(['a', 'b']), 'row': rng.randrange(n) + 1, 'val': rng.choice(sub)})
        else:
            steps.append(rng.choice(catalogue[shape]))
    return {'x': x, 'yd': yd, 'shape': shape, 'steps': steps}


def decorate(rng, kx, ky, variant, idbase=0):
    """turn TLC's key tables into full operand tables; returns x, y, lk, rk (idbase lifts the row ids and the shared column's numbers
    clear of the witnesses of a key scheme)"""
    keys = list(kx['cols'])
    def withcols(t, idcol, base, extra):
        rows = []
        for i, r in enumerate(t['rows']):
            r = dict(r); r[idcol] = ["i", base + i]
            for c, f in extra.items():
                r[c] = f(i)
            rows.append(r)
        return {'cols': list(t['cols']) + [idcol] + list(extra), 'rows': rows}
    ex, ey = {}, {}
    if variant in ('shared', 'shared_fn'):
        ex['v'] = lambda i: ["s", "L%d" % i]; ey['v'] = lambda i: ["i", idbase + 100 + i] if i % 2 else ["nan", 50 + i]
    x = withcols(kx, 'p', idbase + 1, ex); y = withcols(ky, 'q', idbase + 11, ey)
    lk = [['col', c] for c in keys]; rk = [['col', c] for c in keys]
    if variant == 'renamed':            # the right key column has another name
        y = {'cols': ['k' + c if c in keys else c for c in y['cols']],
             'rows': [{('k' + c if c in keys else c): v for c, v in r.items()} for r in y['rows']]}
        rk = [['col', 'k' + c] for c in keys]
    if variant == 'computed_left' and keys == ['a']:
        lk = [['fn', 'ident_a']]
    if variant == 'computed_right' and keys == ['a']:
        rk = [['fn', 'ident_a']]
    if variant == 'computed_both' and keys == ['a']:
        lk = [['fn', 'ident_a']]; rk = [['fn', 'ident_a']]
    if variant == 'computed_pair' and keys == ['a', 'b']:      # one computed tuple key against ... the same on the right needs a column
        lk = [['fn', 'pair_ab']]
        y = {'cols': y['cols'] + ['ab'], 'rows': [dict(r, ab=["t", [r['a'], r['b']]]) for r in y['rows']]}
        rk = [['col', 'ab']]
    if variant == 'cross':
        x = {'cols': ['p'] + list(ex), 'rows': [{c: r[c] for c in ['p'] + list(ex)} for r in x['rows']]}
        y = {'cols': ['q'] + list(ey), 'rows': [{c: r[c] for c in ['q'] + list(ey)} for r in y['rows']]}
        lk, rk = [], []
    if variant == 'crosskeep':          # explicit no-key join of tables that DO share columns: cross product, shared columns combined by mode
        lk, rk = [], []
    if variant == 'bare':               # key columns only: duplicates are indistinguishable, pure bag counting
        x = {'cols': keys, 'rows': [{c: r[c] for c in keys} for r in kx['rows']]}
        y = {'cols': keys, 'rows': [{c: r[c] for c in keys} for r in ky['rows']]}
    return x, y, lk, rk


PLANS = [  # (variant, op, mode, spelling, how)
    ('plain', 'join', 'none', 'str', 'method'), ('plain', 'join', 'none', 'none', 'operator'), ('plain', 'xor', 'l', 'none', 'operator'),
    ('plain', 'xor', 'l', 'list', 'method'), ('plain', 'xor', 'r', 'same', 'method'), ('plain', 'join', 'none', 'none', 'method'),
    ('shared', 'join', 'none', 'list', 'method'), ('shared', 'join', 'l', 'same', 'method'), ('shared', 'join', 'r', 'tuple', 'method'),
    ('shared', 'join', '0', 'str', 'method'), ('shared', 'join', '1', 'list', 'method'), ('shared', 'join', 'fn', 'list', 'method'),
    ('shared', 'xor', 'l', 'str', 'method'),
    ('renamed', 'join', 'none', 'str', 'method'), ('renamed', 'xor', 'l', 'list', 'method'), ('renamed', 'xor', 'r', 'list', 'method'),
    ('computed_left', 'join', 'none', 'str', 'method'), ('computed_right', 'join', 'none', 'list', 'method'),
    ('computed_left', 'xor', 'l', 'str', 'method'), ('computed_both', 'join', 'none', 'str', 'method'),
    ('computed_pair', 'join', 'none', 'str', 'method'), ('computed_pair', 'xor', 'l', 'list', 'method'),
    ('cross', 'join', 'none', 'list', 'method'), ('crosskeep', 'join', 'none', 'list', 'method'), ('crosskeep', 'join', 'l', 'tuple', 'method'), ('crosskeep', 'join', 'fn', 'list', 'method'), ('cross', 'join', 'none', 'none', 'operator'), ('cross', 'xor', 'l', 'list', 'method'),
    ('plain', 'join', 'none', 'str', 'rejoin'), ('plain', 'xor', 'l', 'list', 'rejoin'), ('shared', 'join', 'r', 'list', 'rejoin'),
    ('bare', 'join', 'none', 'none', 'operator'), ('bare', 'xor', 'l', 'none', 'operator'), ('bare', 'join', 'none', 'same', 'method'),
]


def applicable(plan, keys):
    v = plan[0]
    if v.startswith('computed') and v != 'computed_pair' and keys != ['a']:
        return False
    if v == 'computed_pair' and keys != ['a', 'b']:
        return False
    if plan[3] == 'str' and len(keys) != 1 and v not in ('computed_pair',):
        return False
    return True


def run_case(ctx, kx, ky, k, nplans, obs, codec=None):
    keys = list(kx['cols'])
    plans = [p for p in PLANS if applicable(p, keys)]
    for j in range(nplans):
        plan = plans[(k * 7 + j * 5) % len(plans)]
        x, y, lk, rk = decorate(ctx.rng, kx, ky, plan[0], 7000 if codec is not None else 0)
        if plan[3] == 'none' and plan[0] in ('renamed', 'computed_left', 'computed_right', 'computed_both', 'computed_pair'):
            continue
        if plan[3] in ('none',):    # implicit keys = shared columns
            common = [c for c in x['cols'] if c in y['cols']]
            lk = rk = [['col', c] for c in common]
        if plan[3] == 'same' and lk != rk:
            continue
        o = observe(x, y, lk, rk, plan[1], plan[2], plan[3], plan[4], codec)
        if o is not None:
            obs.append(o)


# ---- abstract key cells: TLC enumerates tables over key classes and realisation slots, a witness scheme makes them concrete ----
def schemes():
    return [sc for sc in x_join.SCHEMES if not sc.held_back or os.environ.get('VERIF_C02_HELD_BACK', '1') == '1']      # the held-back schemes are a recorded known finding (C02-K1): run by default, VERIF_C02_HELD_BACK=0 leaves them out


def rand_key_tables(rng):
    pool = [["k", [c, sl]] for c in (1, 2, 3) for sl in 'AB'] + [["n", 0], ["nan", 1], ["nan", 3]]      # NaN ids 1, 3: python float objects
    sub = rng.sample(pool, rng.choice([3, 4, 6, len(pool)]))
    def t(n):
        return {'cols': ['a'], 'rows': [{'a': rng.choice(sub)} for _ in range(n)]}
    return t(rng.choice([1, 2, 3, 5, 8])), t(rng.choice([1, 2, 3, 5, 8]))


# ---- sessions on a pool of caller-owned objects (enumerated by TLC: spec/MC_JoinSess.tla, law: spec/JoinSess.tla) ----
def run_session(h, family, obs, meta):
    """replay one session: X, Z tables, Y a table / dict / Dict / DataFrame; every step (call, the caller's edit, overwriting the last
    result) is recorded with the whole pool as read after the previous step and as read after this one"""
    ids = IdMap()
    kinds = {'X': 'table', 'Y': h['kindY'], 'Z': 'table'}
    objs = {o: x_join.build_obj(kinds[o], h['pool'][o], ids) for o in ('X', 'Y', 'Z')}
    read = lambda: {o: x_join.read_obj(kinds[o], objs[o], ids) for o in ('X', 'Y', 'Z')}
    pool, res, cache = read(), None, {}
    for k, st in enumerate(h['steps']):
        out = {'kind': 'none'}
        if st['kind'] == 'call':
            f = render_call(objs[st['l']], objs[st['r']], st['lk'], st['rk'], st['op'], st['mode'], st['spelling'], st['how'], k, cache)
            ka = keyargs_now(cache)
            if TIMEOUTS[0] >= 25:
                return
            status, val = timed(f)
            res = None
            if status == 'timeout':
                TIMEOUTS[0] += 1; out = {'kind': 'timeout'}
            elif status == 'ok':
                out = proj_table(val, ids); out['kind'] = 'table'; res = val
            else:
                out = {'kind': 'exc', 'cls': type(val).__name__}
        elif st['kind'] == 'editresult':
            if res is not None:
                x_join.overwrite_result(res)
        else:
            x_join.edit_obj(kinds[st['obj']], objs[st['obj']], st, ids)
        after = read()
        obs.append({'sess': 1, 'kindY': h['kindY'], 'step': st, 'pool': pool, 'pool_after': after, 'out': out})
        if st['kind'] == 'call':
            obs[-1].update({'ka': ka, 'ka_after': keyargs_now(cache)})
        meta[len(obs) - 1] = {'family': family, 'sess': h, 'step': k}
        pool = after


def check_sessions(sess, what, free):
    """vacuity: every kind of Y, every call plan, every pair of objects and every kind of step must occur in what TLC enumerated"""
    from harness.core import Machinery
    seen = set()
    for h in sess:
        seen.add(('kindY', h['kindY']))
        for k, st in enumerate(h['steps']):
            seen.add(('kind', st['kind']))
            if st['kind'] == 'call':
                seen |= {('plan', st['op'], st['mode'], st['form']), ('pair', st['l'], st['r']), ('spelling', st['spelling'])}
                if k and h['steps'][k - 1]['kind'] != 'call':
                    seen.add(('call_after', h['steps'][k - 1]['kind'], h['kindY']))
            elif st['kind'] != 'editresult':
                seen.add(('edit', st['kind'], st['obj']))
    want = ({('kindY', x) for x in ('table', 'dict', 'Dict', 'df')} | {('kind', x) for x in ('call', 'cell', 'setcol', 'append', 'editresult')}
            | {('pair', l, r) for l in 'XYZ' for r in 'XYZ' if l != r} | {('spelling', x) for x in ('str', 'list', 'tuple', 'same', 'none')}
            | {('plan', op, m, f) for op, ms in (('join', MODES), ('xor', ('l', 'r'))) for m in ms for f in ('explicit', 'implicit')}
            | {('plan', 'join', 'none', 'operator'), ('plan', 'xor', 'l', 'operator'), ('plan', 'leftjoin', 'none', 'operator'),
               ('plan', 'leftjoin', 'none', 'explicit'), ('plan', 'leftjoin', 'r', 'explicit')}
            | {('edit', e, o) for e in ('cell', 'setcol', 'append') for o in 'XYZ'}
            | {('call_after', 'setcol', kd) for kd in ('table', 'dict', 'Dict', 'df')} | {('call_after', 'editresult', kd) for kd in ('table', 'dict', 'Dict', 'df')})
    if want - seen:
        raise Machinery('vacuous: %s never enumerated %s' % (what, sorted(want - seen)))


def rand_tables(rng):
    pool = [["n", 0], ["i", 1], ["i", 2], ["i", 3], ["f", [1, 1]], ["f", [2, 1]], ["f", [5, 2]], ["nan", 1], ["nan", 2], ["nan", 3], ["nan", 4],
            ["s", "a"], ["s", "b"], ["s", ""], ["d", [730120, 0, 0]], ["d", [730121, 0, 0]], ["i", 0], ["f", [0, 1]], ["inf", 1], ["inf", -1]]
    sub = rng.sample(pool, rng.choice([2, 3, 4, 6, len(pool)]))
    nk = rng.choice([1, 1, 2, 3])
    keys = ['a', 'b', 'c'][:nk]
    def t(n):
        return {'cols': keys, 'rows': [{c: rng.choice(sub) for c in keys} for _ in range(n)]}
    return t(rng.choice([0, 1, 2, 3, 5, 8])), t(rng.choice([0, 1, 2, 3, 5, 8]))


def flush(ctx, obs, meta, final=False):
    """hand the recorded calls to the trace specification (in slices: the log is not kept in memory) and turn rejected lines into violations"""
    if not obs or (len(obs) < FLUSH_AT and not final):
        return
    for k, m in meta.items():
        if 'sess' in m:
            st = m['sess']['steps'][m['step']]
            if st['kind'] == 'call' and m['step'] and obs[k]['out'].get('rows'):
                ctx.note(('sess', m['sess']['kindY'], m['sess']['steps'][m['step'] - 1]['kind'], st['op'], st['mode'], st['form'], st['l'] + st['r']))
            continue
        st = m['hist']['steps'][m['step']]
        if m['hist']['shape'] != 'distinct' and st['lk'] != st['rk'] and obs[k]['out'].get('rows'):
            ctx.note(('alias', m['hist']['shape'], json.dumps([st['lk'], st['rk']]), st['op'], json.dumps(obs[k]['x'])))
    ctx.evals += len(obs)
    bad = ctx.validate('Trace_Join', obs)
    for line, clause in bad:
        o = obs[line - 1]
        if 'sess' in o:
            m, st = meta[line - 1], o['step']
            prev = [t['kind'] if t['kind'] != 'call' else '%s_%s' % (t['op'], t['mode']) for t in m['sess']['steps'][:m['step']]]
            case = {'family': m['family'], 'kindY': o['kindY'], 'step_kind': st['kind'], 'op': st.get('op'), 'mode': st.get('mode'), 'form': st.get('form'),
                    'l': st.get('l'), 'r': st.get('r'), 'before': prev[-2:], 'sess': m['sess'], 'step': m['step']}
            ctx.violation(clause, case, {'out': o['out'], 'pool': o['pool'], 'pool_after': o['pool_after']})
            continue
        kinds = sorted({v[0] for t in (o['x'], o['y']) for r in t['rows'] for c, v in r.items() if c in ('a', 'b', 'c', 'ka', 'kb')})
        case = {'op': o['op'], 'how': o['how'], 'spelling': o['spelling'], 'mode': o['mode'], 'lk': o['lk'], 'rk': o['rk'],
                'key_kinds': kinds, 'x': o['x'], 'y': o['y']}
        if 'scheme' in o:
            case.update({'scheme': o['scheme'], 'rot': o['rot'], 'realisations': sorted({v[1][1] for t in (o['x'], o['y']) for r in t['rows'] for v in r.values() if v[0] == 'k'})})
        if line - 1 in meta:
            m = meta[line - 1]
            case.update({'family': m['family'], 'shape': o['shape'], 'dir': o['dir'], 'hist': m['hist'], 'step': m['step']})
        ctx.violation(clause, case, {'out': o['out'], 'x_after': o['x_after'], 'y_after': o['y_after']})
    if len(obs) > 7 and 'op' in obs[7] and not getattr(ctx, '_c02_sampled', False):
        ctx._c02_sampled = True
        ctx.sample({'observation': {k: obs[7][k] for k in ('op', 'x', 'y', 'lk', 'rk', 'mode', 'spelling', 'out')}})
    del obs[:]
    meta.clear()


def check_enumeration(hists, what, need_edit):
    """vacuity (TLC's -coverage cannot digest MC_JoinObj): every shape, op, direction, form and step kind must occur in what TLC enumerated"""
    from harness.core import Machinery
    seen = {('shape', h['shape']) for h in hists}
    for h in hists:
        for st in h['steps']:
            seen.add(('kind', st['kind']))
            if st['kind'] == 'call':
                seen |= {('op', st['op']), ('dir', st['dir']), ('how', st['how']), ('mode', st['mode']), ('spelling', st['spelling']),
                         ('keys', 'equal' if st['lk'] == st['rk'] else 'different'),
                         ('computed', any(k[0] == 'fn' for k in st['lk'] + st['rk']))}
    want = ({('shape', x) for x in SHAPES} | {('op', x) for x in ('join', 'xor', 'leftjoin')} | {('dir', 'xy'), ('dir', 'yx'), ('how', 'method'), ('how', 'operator')}
            | {('mode', m) for m in MODES} | {('spelling', x) for x in ('str', 'list', 'tuple', 'same', 'none')}
            | {('keys', 'equal'), ('keys', 'different'), ('computed', True), ('computed', False), ('kind', 'call')} | ({('kind', 'edit')} if need_edit else set()))
    if want - seen:
        raise Machinery('vacuous: %s never enumerated %s' % (what, sorted(want - seen)))


def run_keys(ctx, obs, meta):
    # ---- abstract key cells: TLC's tables over key classes x realisation slots (+ None, NaN), one witness scheme after the other
    if not ctx.quick:
        ctx.mc('MC_Join', 'MC_Join_key2.cfg')                   # with coverage; the generator configuration checks the same invariants
    kcases = ctx.generate('MC_Join', 'MC_Join_gen_key2.cfg')
    kcases.sort(key=lambda c: json.dumps(c, sort_keys=True))
    if ctx.quick:
        kcases = ctx.rng.sample(kcases, 800)
    scs = schemes()
    for k, c in enumerate(kcases):
        sc = scs[k % len(scs)]
        run_case(ctx, c['x'], c['y'], k, 2 if ctx.quick else 3, obs, sc.codec(k // len(scs)))
        flush(ctx, obs, meta)
        if 0 < c['npairs'] < len(c['x']['rows']) * len(c['y']['rows']):
            ctx.note(('key', sc.name, (k // len(scs)) % 4, json.dumps([c['x'], c['y']])))
    for i in range(200 if ctx.quick else 8000):
        kx, ky = rand_key_tables(ctx.rng)
        run_case(ctx, kx, ky, i, 2, obs, scs[i % len(scs)].codec(i // len(scs)))
        flush(ctx, obs, meta)
    ctx.sample({'key_case': kcases[len(kcases) // 3], 'schemes': [sc.name for sc in scs]})


def run_sessions(ctx, obs, meta):
    # ---- sessions on a pool of caller-owned objects: call ; call and call ; edit ; call breadth-first, then TLC-simulated longer ones
    ctx.mc('MC_JoinSess', 'MC_JoinSess_quick.cfg' if ctx.quick else 'MC_JoinSess_thorough.cfg', coverage=False)
    if not ctx.quick:
        ctx.mc('MC_JoinSess', 'MC_JoinSess_memo.cfg', coverage=False, must_fail='SessionLaw')      # why sessions with edits are enumerated
    pairs = ctx.generate('MC_JoinSess', 'MC_JoinSess_pairs.cfg' if ctx.quick else 'MC_JoinSess_pairs_t.cfg')
    pairs.sort(key=lambda h: json.dumps(h, sort_keys=True))
    free = ctx.generate('MC_JoinSess', 'MC_JoinSess_sim.cfg', simulate=60 if ctx.quick else 500, depth=14, seed=ctx.seed + 2, workers=1)
    check_sessions(pairs + free, 'MC_JoinSess', True)
    for fam, ss in (('session_pairs', pairs), ('session_free', free)):
        for h in ss:
            run_session(h, fam, obs, meta)
            flush(ctx, obs, meta)
    ctx.sample({'session': pairs[len(pairs) // 2]})


def run(ctx):
    ctx.rule = ('TLC enumerates pairs of key tables (<= 2-3 rows a side, 1-2 key columns, keys None/ints/floats/NaN objects/strings/dates); '
                'the driver decorates each with row ids / shared columns / renamed or computed keys and calls join, *, xor, / in rotating '
                'spellings and modes under a CPU-time watchdog; plus random tables (<= 8 rows, 1-3 key columns, many-to-many keys). '
                'TLC also enumerates histories on ONE pair of operand objects (MC_JoinObj): base table X (<= 2-3 rows, two key columns) and a second '
                'operand that is X itself / X.copy() / X[cols] / X(q=..) / a dict of X\'s column lists / an equal / an unrelated table, with call '
                'plans (13 key plans with equal, different, crossed and computed keys x modes x spellings x join, xor, x*y + x/y, both '
                'directions, method and operator forms) and in-place edits of key cells between calls; plus random larger histories. '
                'Keys of large magnitude / unusual realisation cross as ABSTRACT KEY CELLS (class = which key, slot = which realisation; Join.tla KeyEqK): '
                'TLC enumerates key tables over 3 classes x 2 slots + None + NaN (MC_Join, Shape "key"), the driver makes them concrete with one witness '
                'scheme after the other (harness/x_join.py: 2^53.., -2^53.., 2^63.., 2^64.., 10^30 / 10^400, nanosecond stamps as int / numpy.int64, '
                '1 / 1+ulp / 2, float32(0.1) / 0.1, -1 / 0 / -0.0 / 5e-324, 1..3 in every numpy width, datetime / numpy.datetime64 / date) and encodes '
                'what comes back by the class of its exact value. '
                'SESSIONS (MC_JoinSess, law JoinSess.tla: a call has no memory and owns nothing of the caller): a pool of caller-owned objects X, Z (tables) '
                'and Y (table / dict / Dict / DataFrame); TLC enumerates call ; call and call ; edit ; call breadth-first (21 call plans x 6 ordered '
                'pairs of objects; edits: key cell in place, key column replaced, row appended in place, the last result overwritten in place) and '
                'simulates longer sessions; the whole pool is read after every step, every step is judged by Trace_Join (StepVerdict). '
                'Every call is judged by Trace_Join (bag equality with the law-level join). Non-trivial = at least one matching and one non-matching pair.')
    ctx.mc('MergeJoin', 'MergeJoin_fixed.cfg', deadlock=False)
    ctx.mc('MC_Join', 'MC_Join_one2.cfg')
    ctx.mc('MC_Join', 'MC_Join_two1.cfg' if ctx.quick else 'MC_Join_two2.cfg')
    # operand objects and histories: the mechanism of a whole call refines the law for every shape of operand pair (coverage off: the
    # cost model of -coverage does not terminate on this module; vacuity is checked on the generated histories instead)
    ctx.mc('MC_JoinObj', 'MC_JoinObj_quick.cfg' if ctx.quick else 'MC_JoinObj_thorough.cfg', coverage=False)
    if not ctx.quick:
        ctx.mc('MergeJoin', 'MergeJoin_orig.cfg', must_fail='Termination', deadlock=False)
        ctx.mc('MC_JoinObj', 'MC_JoinObj_guarded.cfg', coverage=False)
        ctx.mc('MC_JoinObj', 'MC_JoinObj_unguarded.cfg', coverage=False, must_fail='MechRefinesLaw')    # why aliasing has to be enumerated
    obs, meta = [], {}
    for g, nplans, cap in ([('MC_Join_gen_one2.cfg', 2, 2500), ('MC_Join_gen_two1.cfg', 3, 1500)] if ctx.quick else
                           [('MC_Join_gen_one3.cfg', 3, 40000), ('MC_Join_gen_two2.cfg', 3, 30000)]):
        cases = ctx.generate('MC_Join', g)
        if len(cases) > cap:
            cases = ctx.rng.sample(cases, cap)
        for k, c in enumerate(cases):
            run_case(ctx, c['x'], c['y'], k, nplans, obs)
            flush(ctx, obs, meta)
            if 0 < c['npairs'] < len(c['x']['rows']) * len(c['y']['rows']):
                ctx.note(('pair', json.dumps([c['x'], c['y']])))
        ctx.sample({'tlc_case': cases[len(cases) // 3]})
    for i in range(400 if ctx.quick else 8000):
        kx, ky = rand_tables(ctx.rng)
        run_case(ctx, kx, ky, i, 3, obs)
        flush(ctx, obs, meta)
        ctx.note(('rand', i))
    run_keys(ctx, obs, meta)
    run_sessions(ctx, obs, meta)
    # ---- one pair of operand objects: every single call (thinned by Stride), then simulated histories with edits, then random ones
    singles = ctx.generate('MC_JoinObj', 'MC_JoinObj_gen1.cfg' if ctx.quick else 'MC_JoinObj_gen1t.cfg')
    check_enumeration(singles, 'MC_JoinObj_gen1', False)
    singles.sort(key=lambda h: json.dumps(h, sort_keys=True))        # TLC's workers print in any order
    catalogue = {}
    for h in singles:
        catalogue.setdefault(h['shape'], {})[json.dumps(h['steps'][-1], sort_keys=True)] = h['steps'][-1]
    catalogue = {sh: [v for _, v in sorted(d.items())] for sh, d in catalogue.items()}
    cap = 3500 if ctx.quick else 60000
    if len(singles) > cap:
        singles = ctx.rng.sample(singles, cap)
    for h in singles:
        run_history(h, 'single', obs, meta)
        flush(ctx, obs, meta)
    sims = []
    for cfg, num, depth in ([('MC_JoinObj_sim.cfg', 50, 7)] if ctx.quick else [('MC_JoinObj_sim.cfg', 400, 7), ('MC_JoinObj_sim3.cfg', 200, 9)]):
        sims += ctx.generate('MC_JoinObj', cfg, simulate=num, depth=depth, seed=ctx.seed + 1, workers=1)
    check_enumeration(sims, 'MC_JoinObj_sim', True)
    for h in sims:
        run_history(h, 'history', obs, meta)
        flush(ctx, obs, meta)
    for i in range(150 if ctx.quick else 2000):
        run_history(rand_history(ctx.rng, catalogue), 'random_history', obs, meta)
        flush(ctx, obs, meta)
    ctx.sample({'history': sims[len(sims) // 2]})
    flush(ctx, obs, meta, final=True)
    ctx.exhaustive = False
    held = [sc.name for sc in x_join.SCHEMES if sc.held_back]
    ctx.assumptions += ['abstract key cells: the witnesses of one class are one exact value (fractions.Fraction / datetime / str, asserted when the scheme is built), '
                        'classes are numbered in the natural order; a returned cell is encoded by the class of its exact value, whatever its type',
                        'witness schemes on which today\'s code contradicts the statement (run by default and recorded as known finding C02-K1; VERIF_C02_HELD_BACK=0 leaves them out): %s - '
                        'numpy scalars whose own == is lossy (int64 / uint64 / float32 against a float or another width beyond the exact range), '
                        'pandas.Timestamp against datetime, str subclasses / numpy.str_ against str, numpy.longdouble; bool keys are outside the quantifier' % ', '.join(held),
                        'sessions: the DataFrame operand holds int columns only (a DataFrame coerces None / mixed columns itself); a pool object is read through its own '
                        'cells (table: column lists, dict / Dict: lists, DataFrame: Series.tolist()); the reading after a step is the reading before the next one',
                        'sessions: TLC -coverage is off for MC_JoinSess (as for MC_JoinObj); the enumerated sessions must contain every kind of Y, call plan, ordered pair '
                        'of objects, spelling, kind of edit per object and a call after a replaced column / an overwritten result for every kind of Y',
                        'xor with no key column returns x whole (named deviation XorNoKey)',
                        'key cells of the result are compared with the key equality of the statement (1 may come back as 1.0), other cells exactly',
                        'termination of the real calls is observed with a 3 s CPU-time watchdog per call (correct evaluation takes < 5 ms); after 25 timeouts the remaining calls are skipped',
                        'one column per name: a column of the other side that bears the name of a key column of the result is not carried (named deviation KeyShadows; x.join(x, "a", "b") has one column a = the key)',
                        'x*y + x/y is evaluated with dictable.__add__ (rows of x without partner get None in the columns x lacks); the composite is only formed with at least one key',
                        'in a history every call is judged against the operands as read immediately before it; what an in-place edit of X does to an object sharing its lists is observed, not prescribed',
                        'TLC -coverage is switched off for MC_JoinObj (its cost model does not terminate on the module); instead the generated histories must contain every shape, op, mode, spelling, direction, form and step kind']


def replay(ctx, body):
    c = body['case']
    if 'sess' in c:
        obs, meta = [], {}
        run_session(c['sess'], c.get('family', 'session'), obs, meta)
        bad = ctx.validate('Trace_Join', obs)
        hit = [b for b in bad if meta[b[0] - 1]['step'] == c['step']]
        print('replay:', 'REJECTED %s' % bad if hit else 'accepted', str([o['out'] for k, o in enumerate(obs) if meta[k]['step'] == c['step']])[:300])
        return 1 if hit else 0
    if 'hist' in c:
        obs, meta = [], {}
        run_history(c['hist'], c.get('family', 'history'), obs, meta)
        bad = ctx.validate('Trace_Join', obs)
        hit = [b for b in bad if meta[b[0] - 1]['step'] == c['step']]
        print('replay:', 'REJECTED %s' % bad if hit else 'accepted', str([o['out'] for k, o in enumerate(obs) if meta[k]['step'] == c['step']])[:300])
        return 1 if hit else 0
    codec = None
    if 'scheme' in c:
        codec = [sc for sc in x_join.SCHEMES if sc.name == c['scheme']][0].codec(c['rot'])
    o = observe(c['x'], c['y'], c['lk'], c['rk'], c['op'], c['mode'], c['spelling'], c['how'], codec)
    bad = ctx.validate('Trace_Join', [o])
    print('replay:', 'REJECTED %s' % bad if bad else 'accepted', str(o['out'])[:300])
    return 1 if bad else 0
