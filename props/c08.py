"""C08 - timeseries operators equal the pointwise operation on aligned operands.

MC   spec/MC_Ops.tla: the clauses of the property (index policy, pointwise values, column policy with
     the neutral element, commutativity, neutral element, no +-inf, comparison duality, reduction
     order, Sum = Mean x Count, NaN where nobody has data) on the operators of spec/Series.tla.
S2C  TLC enumerates operand tuples (series x series, series x scalar, triples, small frames) with the
     result expected for every operator x index policy x column policy; each is replayed through
     add_ .. max_, df_sum, df_mean, df_count in every calling form and compared with ==.
C2S  seeded random tuples of 2..4 operands (<= 30 timestamps, frames with 1-3 columns, scalars on
     either side, exact value families) validated by spec/Trace_Ops.tla.
Values cross the boundary exactly (float.as_integer_ratio); NaN is a tag.
"""
import json
import warnings
from harness.x_series import Registry, build, proj, outcome, collapse

warnings.simplefilter('ignore')

BINARY = ['sub', 'div', 'pow', 'gt', 'ge', 'lt', 'le']        # exactly two operands
FOLDS = ['add', 'mul', 'min', 'max']                          # lists reduce left to right
AGGS = ['sum', 'mean', 'count']


def shape_class(x):
    return {'c': 'c', 's': 's'}.get(x['k']) or ('q' if len(x['c']) == 1 else 'f')


def forms_for(op, n):
    if op in BINARY:
        return ['ab']
    if n == 2:
        return ['ab', 'list', 'a_list']
    return ['list', 'list_b', 'a_list', 'list_list']


def call(op, xs, form, join, cols, rng=None):
    """one public call on freshly built operands -> observation"""
    import pyg_base as pg
    reg = Registry()
    objs = [build(x, reg, rng, ints=(rng is None)) for x in xs]
    if op in AGGS:
        f = {'sum': pg.df_sum, 'mean': pg.df_mean, 'count': pg.df_count}[op]
        kw = dict(columns=cols)
    else:
        f = getattr(pg, op + '_')
        kw = dict(join=join, columns=cols)
    n = len(objs)
    if form == 'ab':
        args = (objs[0], objs[1])
    elif form == 'list':
        args = (list(objs),)
    elif form == 'list_b':
        args = (list(objs[:-1]), objs[-1])
    elif form == 'a_list':
        args = (objs[0], list(objs[1:]))
    elif form == 'list_list':
        args = (list(objs[:n // 2]), list(objs[n // 2:]))
    else:
        raise ValueError(form)
    err, res = outcome(lambda: f(*args, **kw))
    o = {'op': op, 'xs': xs, 'form': form, 'join': join, 'cols': cols, 'after': [proj(x) for x in objs]}
    o['out'] = err if err is not None else {'kind': 'val', 'v': proj(res)}
    return o


def case_key(o):
    classes = [shape_class(x) for x in o['xs']]
    ts = sorted(set(c for c in classes if c != 'c'))
    return {'op': o['op'], 'form': o['form'], 'join': o['join'], 'cols': o['cols'], 'shapes': ','.join(classes),
            'mixed_shapes': len(ts) > 1, 'raised': o['out'].get('cls', ''), 'xs': o['xs']}


class Reporter(object):
    """at most a few violations per signature, so that one defect does not bury another"""
    def __init__(self, ctx, per=2):
        self.ctx, self.per, self.seen = ctx, per, {}

    def __call__(self, clause, case, detail):
        sig = (clause, case['op'], case['mixed_shapes'], case['raised'])
        self.seen[sig] = self.seen.get(sig, 0) + 1
        if self.seen[sig] <= self.per:
            self.ctx.violation(clause, case, detail)

    def summary(self):
        return [{'clause': s[0], 'op': s[1], 'mixed_shapes': s[2], 'raised': s[3], 'count': n} for s, n in sorted(self.seen.items(), key=str)]


def trivial(xs, w):
    """the result is (a copy of) one of the operands or empty"""
    return w in [collapse(x) for x in xs] or (w.get('k') in ('s', 'f') and not w['t'])


def s2c(ctx, report, cases, budget):
    cases = sorted(cases, key=lambda c: json.dumps([c['fam'], c['xs']], sort_keys=True))   # TLC's workers print in any order
    for c in cases:
        c['exp'].sort(key=lambda e: json.dumps([e['op'], e['join'], e['cols']]))
    work = [(ci, ei) for ci, c in enumerate(cases) for ei in range(len(c['exp']))]
    if budget and len(work) > budget:
        work = ctx.rng.sample(work, budget)
        ctx.exhaustive = False
    for n, (ci, ei) in enumerate(work):
        xs, e = cases[ci]['xs'], cases[ci]['exp'][ei]
        op, join, cols = e['op'], e['join'], e['cols']
        want = [collapse(w) for w in e['out']]
        forms = forms_for(op, len(xs))
        for form in (forms if budget == 0 else [forms[(ci + ei) % len(forms)]]):
            o = call(op, xs, form, join, cols)
            ctx.evals += 1
            out = o['out']
            if o['after'] != xs:
                report('operand_changed', case_key(o), {'after': o['after']})
            elif out['kind'] == 'exc':
                report('raised', case_key(o), {'expected_one_of': e['out'], 'observed': out})
            elif collapse(out['v']) not in want:
                report('result', case_key(o), {'expected_one_of': e['out'], 'observed': out['v']})
        if not trivial(xs, want[0]):
            ctx.note(('s2c', cases[ci]['fam'], ci, ei))
        if n % 2999 == 0:
            ctx.sample({'s2c_case': {'xs': xs, 'expect': e}})
        ctx.traces += 1


# ---- C2S: random operand tuples -------------------------------------------------------------------------
FAMILY = {
    'arith': ([0, 1, 2, -2, 4, 8, -4, [1, 2]], ['add', 'sub', 'mul', 'div', 'gt', 'ge', 'lt', 'le', 'min', 'max']),
    'agg':   ([0, 12, 24, -12, 48, -36, 96, 6], ['sum', 'mean', 'count', 'add', 'min', 'max']),
    'pow':   ([0, 1, 2, -2, 3, [1, 2]], ['pow']),
}
EXPONENTS = [0, 1, 2, 3]


def val(v):
    return ["f", v if isinstance(v, list) else [v, 1]]


def rand_index(rng, T, prev):
    style = rng.random()
    if style < 0.08:
        return []
    if style < 0.3 and prev:
        base = rng.choice(prev)
        return sorted(rng.sample(base, rng.randint(0, len(base))))
    if style < 0.5:
        lo = rng.randint(1, T); hi = rng.randint(lo, min(T, lo + rng.randint(0, 10)))
        return list(range(lo, hi + 1))
    dens = rng.choice([0.2, 0.5, 0.9])
    return [t for t in range(1, T + 1) if rng.random() < dens]


def rand_operand(rng, values, T, prev, kinds, qname='q'):
    k = rng.choice(kinds)
    cellf = lambda: ["nan", 0] if rng.random() < 0.2 else val(rng.choice(values))
    if k == 'c':
        return {"k": "c", "v": ["nan", 0] if rng.random() < 0.1 else val(rng.choice(values))}
    idx = rand_index(rng, T, prev)
    prev.append(idx)
    if k == 's':
        return {"k": "s", "t": idx, "v": [cellf() for _ in idx]}
    cols = sorted(rng.sample(['a', 'b', 'c', 'd'], rng.choice([2, 2, 3]))) if k == 'f' else [qname]
    return {"k": "f", "t": idx, "c": cols, "v": [[cellf() for _ in idx] for _ in cols]}


def c2s(ctx, report, n):
    obs = []
    rng = ctx.rng
    for i in range(n):
        fam = rng.choice(['arith', 'arith', 'agg', 'agg', 'pow'])
        values, ops = FAMILY[fam]
        op = rng.choice(ops)
        T = rng.choice([4, 8, 30, 30])
        prev = []
        nops = 2 if op in BINARY else rng.choice([2, 3, 3, 4])
        mix = rng.random()
        kinds = ['s'] if mix < 0.35 else ['s', 'c'] if mix < 0.5 else ['f'] if mix < 0.65 else ['f', 'f', 's', 'q', 'c']
        qname = rng.choice(['a', 'q'])      # the one-column frames of a tuple share their header (PseudoSeries: it is ignored)
        xs = [rand_operand(rng, values, T, prev, kinds, qname) for _ in range(nops)]
        if all(x['k'] == 'c' for x in xs):
            xs[rng.randrange(nops)] = rand_operand(rng, values, T, prev, ['s'])
        if op == 'pow':
            xs[1] = exponent(rng, xs[1])
        multi = [tuple(x['c']) for x in xs if x['k'] == 'f' and len(x['c']) > 1]
        pinned = op in ('add', 'sub', 'mul', 'div') or op in AGGS or len(set(multi)) <= 1
        common = set.intersection(*[set(m) for m in multi]) if multi else set()
        # 'ij' needs a shared column; with three or more operands at least two (a frame reduced to one column
        # travels on as a pseudo-series and the statement does not say how the next operand meets it)
        shared = not multi or len(common) >= (2 if nops >= 3 and len(multi) >= 2 else 1)
        if not pinned and not shared:
            continue                        # neither column policy is pinned down for this tuple
        cols = rng.choice(['ij', 'oj']) if pinned and shared else 'ij' if shared else 'oj'
        join = 'oj' if op in AGGS else rng.choice(['ij', 'oj'])
        form = rng.choice(forms_for(op, nops))
        obs.append(call(op, xs, form, join, cols, rng=rng))
    ctx.evals += len(obs)
    bad = ctx.validate('Trace_Ops', obs)
    for ln, clause in bad:
        o = obs[ln - 1]
        report(clause, case_key(o), {'observed': o['out'], 'after_equals_before': o['after'] == o['xs']})
    rejected = {ln for ln, _ in bad}
    for k, o in enumerate(obs):
        if k + 1 not in rejected and o['out']['kind'] == 'val' and not trivial(o['xs'], collapse(o['out']['v'])):
            ctx.note(('c2s', k))
    ctx.sample({'c2s_observation': obs[len(obs) // 3]})
    ctx.sample({'c2s_observation': obs[2 * len(obs) // 3]})


def exponent(rng, x):
    """the same operand with exponents of the checked domain (0, 1, 2, 3 or NaN) as its cells"""
    e = lambda c: c if c[0] == "nan" else val(rng.choice(EXPONENTS))
    y = dict(x)
    if x['k'] == 'c':
        y['v'] = e(x['v'])
    elif x['k'] == 's':
        y['v'] = [e(c) for c in x['v']]
    else:
        y['v'] = [[e(c) for c in col] for col in x['v']]
    return y


def replay(ctx, body):
    """./check C08 --replay <file>: re-run one recorded case and let Trace_Ops judge it"""
    c = body['case']
    o = call(c['op'], c['xs'], c['form'], c['join'], c['cols'])
    bad = ctx.validate('Trace_Ops', [o])
    print(json.dumps({'observed': o['out'], 'verdict': bad[0][1] if bad else 'explained by the specification'})[:3000])
    return 1 if bad else 0


def run(ctx):
    ctx.rule = ('S2C: TLC-enumerated operand tuples x operator x index policy x column policy replayed through the public operators in '
                'every calling form, == with the expected result; C2S: random tuples of 2..4 operands validated by Trace_Ops. '
                'Non-trivial = the expected result is neither empty nor equal to one of the operands; distinct by (operands, operator, policies).')
    report = Reporter(ctx)
    ctx.exhaustive = True
    if ctx.quick:
        ctx.mc('MC_Ops', 'MC_Ops_quick.cfg')
        s2c(ctx, report, ctx.generate('MC_Ops', 'MC_Ops_gen_quick.cfg'), 7000)
        s2c(ctx, report, ctx.generate('MC_Ops', 'MC_Ops_gen_frames.cfg'), 3000)
        c2s(ctx, report, 2500)
    else:
        ctx.mc('MC_Ops', 'MC_Ops_thorough.cfg')
        s2c(ctx, report, ctx.generate('MC_Ops', 'MC_Ops_gen_quick.cfg'), 60000)
        s2c(ctx, report, ctx.generate('MC_Ops', 'MC_Ops_gen_frames.cfg'), 40000)
        s2c(ctx, report, ctx.generate('MC_Ops', 'MC_Ops_gen_thorough.cfg'), 80000)
        c2s(ctx, report, 30000)
    ctx.extra['violation_signatures'] = report.summary()
    ctx.assumptions += [
        'values are drawn from families on which every operation is exact in binary floating point (0 and +-powers of two for + - * / '
        'comparisons min max; multiples of 12 (6) for sums and means of <= 4 operands; exponents 0..3)',
        'the plain pointwise power is IEEE-754 pow (x**0 = 1, 1**y = 1 also for NaN)',
        "column policy 'oj' with differing column sets is checked only for the operations that have a neutral element (+ - * /) and the aggregates",
        "column policy 'ij' is checked when the multi-column frames share at least one column (with none there is no cell to speak of; "
        "the code then returns an empty Series, as presync's docstring documents); with three or more operands, when they share at least two "
        "(a frame reduced to a single column travels on as a pseudo-series)",
        'lists of operands are checked for add_, mul_, min_, max_ and the aggregates (sub_/div_ of lists are not pinned by the statement)',
        'a one-column frame is a series whose header is ignored (presync docstring; reading PseudoSeries); the one-column frames of a '
        'tuple share their header (with different headers the df_sync based min_/max_/df_sum/df_mean/df_count return all-NaN columns)',
        'no fill method (method=None); df_std excluded (not exact)',
        'small-scope: MC/S2C over <= 3 (thorough 4) timestamps; C2S over <= 30']
