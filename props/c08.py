"""C08 - timeseries operators equal the pointwise operation on aligned operands.

MC   spec/MC_Ops.tla: the clauses of the property (index policy, pointwise values, column policy with
     the neutral element, commutativity, neutral element, no +-inf, comparison duality, reduction
     order, Sum = Mean x Count, NaN where nobody has data) on the operators of spec/Series.tla.
S2C  TLC enumerates operand tuples (series x series, series x scalar, triples, small frames) with the
     result expected for every operator x index policy x column policy; each is replayed through
     add_ .. max_, df_sum, df_mean, df_count in every calling form and compared with ==.
C2S  seeded random tuples of 2..4 operands (<= 30 timestamps, frames with 1-3 columns, scalars on
     either side, exact value families) validated by spec/Trace_Ops.tla.
SESSIONS (spec/OpsSession.tla, MC_OpsSession.tla, Trace_OpsSession.tla): a heap of caller-owned operands and
     containers (lists / tuples holding the operands by identity), histories of calls in every calling form (the
     arguments are named on the heap: list alone, list x operand, operand x list, list x list, the same list twice,
     the same object twice) interleaved with the caller's own actions (append, pop, overwrite a cell).  Law: a call
     changes nothing on the heap and its result is the reduction of what the caller holds at the time of the call.
     MC: the mechanism (as_list(a) + as_list(b)) against the law on every history; the variant that extends the
     caller's list in place must violate PoolUntouched.  S2C: TLC's histories replayed on ONE set of real objects,
     the heap (members by identity, operands by value) looked at again after every step.  C2S: random histories of
     3..6 steps judged by Trace_OpsSession, which threads its own heap through the history.
     IN-PLACE EDITS (OpsSession!ShapeKeeping): between calls the caller re-dates an operand (shifts the index, replaces one
     stamp), renames / re-orders the columns of a frame, overwrites every other cell - the object and its shape stay, so
     whatever a call remembered about it (identity, length, shape) is stale.  TLC's simulator draws histories
     call ; edit ; the same call / another operator / the other index or column policy / a fill method on the same objects
     (calls on two plain objects included, with pow_ and the comparisons); random histories do the same for C2S.
LAW ADDITIONS (spec/OpsLaw.tla): the fill method of the operators (None, ffill, bfill, 0, 1: align as C03 says, then operate),
     the comparisons under columns='oj' with differing column sets (a column one side lacks is no data: False), sub_ / div_
     with a list on either side in the single-call families (zeros inside a list of denominators).
Values cross the boundary exactly (float.as_integer_ratio); NaN is a tag.
"""
import json
import warnings
from harness.x_series import Registry, build, proj, outcome, collapse

warnings.simplefilter('ignore')

BINARY = ['pow', 'gt', 'ge', 'lt', 'le']                      # exactly two operands
CUTS = ['sub', 'div']                                         # a list on either side (OpsLaw!OpsCutOutcomes)
CMPS = ['gt', 'ge', 'lt', 'le']
METHODS = {'none': None, 'ffill': 'ffill', 'bfill': 'bfill', 'v0': 0, 'v1': 1}      # OpsLaw!OpsMethods -> the method parameter
FOLDS = ['add', 'mul', 'min', 'max']                          # lists reduce left to right
AGGS = ['sum', 'mean', 'count']


def shape_class(x):
    return {'c': 'c', 's': 's'}.get(x['k']) or ('q' if len(x['c']) == 1 else 'f')


def forms_for(op, n):
    if op in BINARY:
        return ['ab']
    if op in CUTS:
        return ['ab', 'a_list', 'list_list'] if n == 2 else ['a_list', 'list_b', 'list_list']
    if n == 2:
        return ['ab', 'list', 'a_list']
    return ['list', 'list_b', 'a_list', 'list_list']


def call(op, xs, form, join, cols, rng=None, m='none'):
    """one public call on freshly built operands -> observation"""
    import pyg_base as pg
    reg = Registry()
    objs = [build(x, reg, rng, ints=(rng is None)) for x in xs]
    if op in AGGS:
        f = {'sum': pg.df_sum, 'mean': pg.df_mean, 'count': pg.df_count}[op]
        kw = dict(columns=cols)
    else:
        f = getattr(pg, op + '_')
        kw = dict(join=join, columns=cols)
        if m != 'none':
            kw['method'] = METHODS[m]
    n = len(objs)
    if form == 'ab':
        args = (objs[0], objs[1])
    elif form == 'list':
        args = (list(objs),)
    elif form == 'list_b':
        args = (list(objs[:-1]), objs[-1])
    elif form == 'a_list':
        args = (objs[0], list(objs[1:]))
    elif form == 'list_list':
        args = (list(objs[:n // 2]), list(objs[n // 2:]))
    else:
        raise ValueError(form)
    ident = lambda m: ([k + 1 for k, x in enumerate(objs) if m is x] + [0])[0]
    conts = [a for a in args if isinstance(a, list)]          # the lists handed over: which operands they hold, before and after
    before = [[ident(m) for m in c] for c in conts]
    err, res = outcome(lambda: f(*args, **kw))
    nl = len(args[0]) if isinstance(args[0], list) else 1        # how many operands the first argument holds
    o = {'op': op, 'xs': xs, 'form': form, 'join': join, 'cols': cols, 'm': m, 'nl': nl, 'after': [proj(x) for x in objs],
         'lists': before, 'lists_after': [[ident(m) for m in c] for c in conts]}
    o['out'] = err if err is not None else {'kind': 'val', 'v': proj(res)}
    return o


def case_key(o):
    classes = [shape_class(x) for x in o['xs']]
    ts = sorted(set(c for c in classes if c != 'c'))
    return {'op': o['op'], 'form': o['form'], 'join': o['join'], 'cols': o['cols'], 'method': o.get('m', 'none'), 'shapes': ','.join(classes),
            'mixed_shapes': len(ts) > 1, 'raised': o['out'].get('cls', ''), 'xs': o['xs']}


class Reporter(object):
    """at most a few violations per signature, so that one defect does not bury another"""
    def __init__(self, ctx, per=2):
        self.ctx, self.per, self.seen = ctx, per, {}

    def __call__(self, clause, case, detail):
        sig = (clause, case['op'], case['mixed_shapes'], case['raised'])
        self.seen[sig] = self.seen.get(sig, 0) + 1
        if self.seen[sig] <= self.per:
            self.ctx.violation(clause, case, detail)

    def summary(self):
        return [{'clause': s[0], 'op': s[1], 'mixed_shapes': s[2], 'raised': s[3], 'count': n} for s, n in sorted(self.seen.items(), key=str)]


def trivial(xs, w):
    """the result is (a copy of) one of the operands or empty"""
    return w in [collapse(x) for x in xs] or (w.get('k') in ('s', 'f') and not w['t'])


def s2c(ctx, report, cases, budget):
    cases = sorted(cases, key=lambda c: json.dumps([c['fam'], c['xs']], sort_keys=True))   # TLC's workers print in any order
    for c in cases:
        c['exp'].sort(key=lambda e: json.dumps([e['op'], e['join'], e['cols'], e['m'], e['form']]))
    work = [(ci, ei) for ci, c in enumerate(cases) for ei in range(len(c['exp']))]
    if budget and len(work) > budget:
        work = ctx.rng.sample(work, budget)
        ctx.exhaustive = False
    for n, (ci, ei) in enumerate(work):
        xs, e = cases[ci]['xs'], cases[ci]['exp'][ei]
        op, join, cols = e['op'], e['join'], e['cols']
        want = [collapse(w) for w in e['out']]
        forms = [e['form']] if e['form'] else forms_for(op, len(xs))      # (the outcome of sub_ / div_ with a list depends on the side)
        for form in (forms if budget == 0 else [forms[(ci + ei) % len(forms)]]):
            o = call(op, xs, form, join, cols, m=e['m'])
            ctx.evals += 1
            out = o['out']
            if o['after'] != xs:
                report('operand_changed', case_key(o), {'after': o['after']})
            elif o['lists_after'] != o['lists']:
                report('container_changed', case_key(o), {'lists': o['lists'], 'lists_after': o['lists_after']})
            elif out['kind'] == 'exc':
                report('raised', case_key(o), {'expected_one_of': e['out'], 'observed': out})
            elif collapse(out['v']) not in want:
                report('result', case_key(o), {'expected_one_of': e['out'], 'observed': out['v']})
        if not trivial(xs, want[0]):
            ctx.note(('s2c', cases[ci]['fam'], ci, ei))
        if n % 2999 == 0:
            ctx.sample({'s2c_case': {'xs': xs, 'expect': e}})
        ctx.traces += 1


# ---- C2S: random operand tuples -------------------------------------------------------------------------
FAMILY = {
    'arith': ([0, 1, 2, -2, 4, 8, -4, [1, 2]], ['add', 'sub', 'mul', 'div', 'gt', 'ge', 'lt', 'le', 'min', 'max']),
    'agg':   ([0, 12, 24, -12, 48, -36, 96, 6], ['sum', 'mean', 'count', 'add', 'min', 'max']),
    'pow':   ([0, 1, 2, -2, 3, [1, 2]], ['pow']),
}
EXPONENTS = [0, 1, 2, 3]


def val(v):
    return ["f", v if isinstance(v, list) else [v, 1]]


def rand_index(rng, T, prev):
    style = rng.random()
    if style < 0.08:
        return []
    if style < 0.3 and prev:
        base = rng.choice(prev)
        return sorted(rng.sample(base, rng.randint(0, len(base))))
    if style < 0.5:
        lo = rng.randint(1, T); hi = rng.randint(lo, min(T, lo + rng.randint(0, 10)))
        return list(range(lo, hi + 1))
    dens = rng.choice([0.2, 0.5, 0.9])
    return [t for t in range(1, T + 1) if rng.random() < dens]


def rand_operand(rng, values, T, prev, kinds, qname='q'):
    k = rng.choice(kinds)
    cellf = lambda: ["nan", 0] if rng.random() < 0.2 else val(rng.choice(values))
    if k == 'c':
        return {"k": "c", "v": ["nan", 0] if rng.random() < 0.1 else val(rng.choice(values))}
    idx = rand_index(rng, T, prev)
    prev.append(idx)
    if k == 's':
        return {"k": "s", "t": idx, "v": [cellf() for _ in idx]}
    cols = sorted(rng.sample(['a', 'b', 'c', 'd'], rng.choice([2, 2, 3]))) if k == 'f' else [qname]
    return {"k": "f", "t": idx, "c": cols, "v": [[cellf() for _ in idx] for _ in cols]}


def pick_cols(rng, op, xs):
    """a column policy under which the statement pins the result down for these operands (None: neither)"""
    nops = len(xs)
    multi = [tuple(x['c']) for x in xs if x['k'] == 'f' and len(x['c']) > 1]
    pinned = op in ('add', 'sub', 'mul', 'div') or op in AGGS or op in CMPS or len(set(multi)) <= 1
    common = set.intersection(*[set(m) for m in multi]) if multi else set()
    # 'ij' needs a shared column; with three or more operands at least two (a frame reduced to one column
    # travels on as a pseudo-series and the statement does not say how the next operand meets it)
    shared = not multi or len(common) >= (2 if nops >= 3 and len(multi) >= 2 else 1)
    if not pinned and not shared:
        return None
    return rng.choice(['ij', 'oj']) if pinned and shared else 'ij' if shared else 'oj'


def c2s(ctx, report, n):
    obs = []
    rng = ctx.rng
    for i in range(n):
        fam = rng.choice(['arith', 'arith', 'agg', 'agg', 'pow'])
        values, ops = FAMILY[fam]
        op = rng.choice(ops)
        T = rng.choice([4, 8, 30, 30])
        prev = []
        nops = 2 if op in BINARY else rng.choice([2, 2, 3, 4]) if op in CUTS else rng.choice([2, 3, 3, 4])
        mix = rng.random()
        kinds = ['s'] if mix < 0.35 else ['s', 'c'] if mix < 0.5 else ['f'] if mix < 0.65 else ['f', 'f', 's', 'q', 'c']
        qname = rng.choice(['a', 'q'])      # the one-column frames of a tuple share their header (PseudoSeries: it is ignored)
        xs = [rand_operand(rng, values, T, prev, kinds, qname) for _ in range(nops)]
        if all(x['k'] == 'c' for x in xs):
            xs[rng.randrange(nops)] = rand_operand(rng, values, T, prev, ['s'])
        if op == 'pow':
            xs[1] = exponent(rng, xs[1])
        cols = pick_cols(rng, op, xs)
        if cols is None:
            continue                        # neither column policy is pinned down for this tuple
        join = 'oj' if op in AGGS else rng.choice(['ij', 'oj'])
        form = rng.choice(forms_for(op, nops))
        if op == 'div' and nops > 2 and any(x['k'] == 'c' and x['v'] == val(0) for x in xs[1:]):
            continue                        # the scalar divisor 0 is stated for two operands (Series!DivScalarZero)
        m = rng.choice(['ffill', 'bfill', 'v0', 'v1']) if nops == 2 and op not in AGGS and rng.random() < 0.3 else 'none'
        obs.append(call(op, xs, form, join, cols, rng=rng, m=m))
    ctx.evals += len(obs)
    bad = ctx.validate('Trace_Ops', obs)
    for ln, clause in bad:
        o = obs[ln - 1]
        report(clause, case_key(o), {'observed': o['out'], 'after_equals_before': o['after'] == o['xs']})
    rejected = {ln for ln, _ in bad}
    for k, o in enumerate(obs):
        if k + 1 not in rejected and o['out']['kind'] == 'val' and not trivial(o['xs'], collapse(o['out']['v'])):
            ctx.note(('c2s', k))
    ctx.sample({'c2s_observation': obs[len(obs) // 3]})
    ctx.sample({'c2s_observation': obs[2 * len(obs) // 3]})


def exponent(rng, x):
    """the same operand with exponents of the checked domain (0, 1, 2, 3 or NaN) as its cells"""
    e = lambda c: c if c[0] == "nan" else val(rng.choice(EXPONENTS))
    y = dict(x)
    if x['k'] == 'c':
        y['v'] = e(x['v'])
    elif x['k'] == 's':
        y['v'] = [e(c) for c in x['v']]
    else:
        y['v'] = [[e(c) for c in col] for col in x['v']]
    return y


# ---- sessions (spec/OpsSession.tla): a heap of caller-owned operands and containers, a history of calls in every ----
# ---- calling form and of the caller's own actions; the heap is looked at again after every step                  ----
def seq(x):
    """TLC prints an empty sequence as [] and an empty function as {}"""
    return list(x) if x else []


def sess_build(heap, rng=None):
    """the caller's objects: every operand once, the containers holding these very objects"""
    reg = Registry()
    objs = [build(x, reg, rng, ints=(rng is None)) for x in seq(heap['objs'])]
    lists = [(list if l['k'] == 'l' else tuple)(objs[i - 1] for i in seq(l['ids'])) for l in seq(heap['lists'])]
    return objs, lists


def sess_view(objs, lists):
    """the heap as its owner sees it: operands by value, containers by the identity of their members (0: not one of mine)"""
    def ident(m):
        for n, o in enumerate(objs):
            if m is o:
                return n + 1
        return 0
    kind = lambda l: 'l' if type(l) is list else 't' if type(l) is tuple else 'other:' + type(l).__name__
    return {'objs': [proj(o) for o in objs], 'lists': [{'k': kind(l), 'ids': [ident(m) for m in l]} for l in lists]}


def sess_step(s, objs, lists):
    """one step on the caller's objects -> (encoded outcome of a call | None, the heap afterwards)"""
    import pyg_base as pg
    out = None
    if s['act'] == 'call':
        c = s['c']
        arg = lambda r: objs[r['i'] - 1] if r['r'] == 'o' else lists[r['i'] - 1]
        args = (arg(c['a']),) if c['b']['r'] == 'none' else (arg(c['a']), arg(c['b']))
        if c['op'] in AGGS:
            f = {'sum': pg.df_sum, 'mean': pg.df_mean, 'count': pg.df_count}[c['op']]
            kw = dict(columns=c['cols'])
        else:
            f = getattr(pg, c['op'] + '_')
            kw = dict(join=c['join'], columns=c['cols'])
            if c.get('m', 'none') != 'none':
                kw['method'] = METHODS[c['m']]
        err, res = outcome(lambda: f(*args, **kw))
        out = err if err is not None else {'kind': 'val', 'v': proj(res)}
    elif s['act'] == 'append':
        lists[s['l'] - 1].append(objs[s['o'] - 1])
    elif s['act'] == 'pop':
        lists[s['l'] - 1].pop()
    elif s['act'] == 'poke':
        objs[s['o'] - 1].iloc[0] = float('nan')
    elif s['act'] in EDITS:
        edit_in_place(objs[s['o'] - 1], s)
    else:
        raise ValueError(s)
    return out, sess_view(objs, lists)


EDITS = ['shift', 'restamp', 'rename', 'reorder', 'pokes']        # OpsSession!ShapeKeeping: the object and its shape stay


def edit_in_place(ob, s):
    """the caller's in-place edit s of its own timeseries ob (rendering of OpsSession!Apply)"""
    import pandas as pd
    shape, act = ob.shape, s['act']
    if act == 'shift':
        ob.index = ob.index + pd.Timedelta(days=s['x'])
    elif act == 'restamp':
        idx = list(ob.index)
        idx[s['x'] - 1] = idx[s['x'] - 1] + pd.Timedelta(days=1)
        ob.index = pd.DatetimeIndex(idx)
    elif act == 'rename':
        ob.rename(columns={s['p'][0]: s['p'][1]}, inplace=True)
    elif act == 'reorder':                      # the first physical column becomes the last
        name = ob.columns[0]
        col = ob.pop(name)
        ob[name] = col
    elif act == 'pokes':
        v = float('nan') if s['x'] == 0 else 0.0
        if ob.ndim == 1:
            ob.iloc[0::2] = v
        else:
            ob.iloc[0::2, list(ob.columns).index(sorted(ob.columns)[0])] = v
    if ob.shape != shape:
        raise ValueError('the edit %s changed the shape' % act)


def spelled(s):
    ref = lambda r: {'o': 'o%d', 'l': 'L%d', 'none': ''}[r['r']] % ((r['i'],) if r['r'] != 'none' else ())
    if s['act'] != 'call':
        extra = [str(s['x'])] if s['act'] in ('shift', 'restamp', 'pokes') else ['->'.join(seq(s.get('p')))] if s['act'] == 'rename' else []
        return '%s(%s)' % (s['act'], ','.join(x for x in ['L%d' % s['l'] if s['l'] else '', 'o%d' % s['o'] if s['o'] else ''] + extra if x))
    c = s['c']
    name = ('df_' + c['op']) if c['op'] in AGGS else c['op'] + '_'
    pol = [c['join']] if c['op'] not in AGGS else []
    return '%s(%s)' % (name, ','.join(x for x in [ref(c['a']), ref(c['b'])] + pol + ([c['cols']] if c['cols'] != 'ij' else []) + (['method=' + c['m']] if c.get('m', 'none') != 'none' else []) if x))


def sess_case(heap, steps, k, out=None, at=None):
    """the failing step k (0-based) of a history as a matchable case (at: the heap at that step, as TLC printed it
    resp. as the caller saw it after the step before)"""
    s = steps[k]
    c = s['c']
    h = at or heap
    ids = [i for r in (c['a'], c['b']) for i in ([r['i']] if r['r'] == 'o' else seq(h['lists'][r['i'] - 1]['ids']) if r['r'] == 'l' else [])] if s['act'] == 'call' else []
    xs = [h['objs'][i - 1] for i in ids]
    classes = [shape_class(x) for x in xs]
    ts = sorted(set(cl for cl in classes if cl != 'c'))
    edits = sorted(set(t['act'] for t in steps[:k] if t['act'] in EDITS + ['poke']))
    return {'op': c['op'] if s['act'] == 'call' else s['act'], 'form': 'session:' + c['a']['r'] + '-' + c['b']['r'], 'join': c['join'], 'cols': c['cols'],
            'method': c.get('m', 'none'), 'edited_in_place_before': ','.join(edits),
            'shapes': ','.join(classes), 'mixed_shapes': len(ts) > 1, 'raised': (out or {}).get('cls', ''), 'step': k + 1,
            'history': [spelled(t) for t in steps], 'heap': heap, 'steps': steps}


def norm_heap(h):
    return {'objs': seq(h['objs']), 'lists': [{'k': l['k'], 'ids': seq(l['ids'])} for l in seq(h['lists'])]}


def s2c_sessions(ctx, report, hists, budget, fam):
    """TLC's histories replayed on ONE set of real objects each; after every step the heap must be the one TLC printed
    and the outcome of a call one of those TLC printed"""
    hists = sorted(hists, key=lambda x: json.dumps(x, sort_keys=True))
    if budget and len(hists) > budget:
        hists = ctx.rng.sample(hists, budget)
        ctx.exhaustive = False
    for n, x in enumerate(hists):
        steps = [h['s'] for h in x['hist']]
        objs, lists = sess_build(x['heap'])
        ok = True
        for k, h in enumerate(x['hist']):
            out, view = sess_step(h['s'], objs, lists)
            ctx.evals += 1
            case = lambda: sess_case(x['heap'], steps, k, out, at=norm_heap(h['h']))
            want_heap = norm_heap(h['h'])
            want = [collapse(w) for w in seq(h['want'])]
            if view['lists'] != want_heap['lists']:
                report('container_changed', case(), {'expected': want_heap['lists'], 'observed': view['lists']})
            elif view['objs'] != want_heap['objs']:
                report('operand_changed', case(), {'observed': view['objs']})
            elif out is None:
                continue
            elif out['kind'] == 'exc':
                report('raised', case(), {'expected_one_of': h['want'], 'observed': out})
            elif collapse(out['v']) not in want:
                report('result', case(), {'expected_one_of': h['want'], 'observed': out['v']})
            else:
                continue
            ok = False
            break                     # what follows a step the specification does not explain is not judged
        if ok:
            ctx.note(('s2c-session', fam, json.dumps([x['env'], x['heap'], steps], sort_keys=True)))
        if n % 1499 == 0:
            ctx.sample({'s2c_session': {'heap': x['heap'], 'history': [spelled(t) for t in steps], 'last_step_expects': x['hist'][-1]['want']}})
        ctx.traces += 1


def rand_heap(rng):
    """3..5 operands of one exact value family, 2..3 containers that share members"""
    fam = rng.choice(['arith', 'arith', 'agg'])
    values = [v for v in FAMILY[fam][0] if not isinstance(v, list)]
    T = rng.choice([4, 8, 30])
    mix = rng.random()
    kinds = ['s'] if mix < 0.3 else ['s', 's', 'c'] if mix < 0.5 else ['f'] if mix < 0.7 else ['f', 'f', 's'] if mix < 0.85 else ['q', 'q', 's', 'c']
    prev, objs = [], []
    for _ in range(rng.choice([3, 4, 4, 5])):
        x = rand_operand(rng, values, T, prev, kinds, 'q')
        if x['k'] == 'f' and len(x['c']) > 1:         # the frames of a session share the columns a and b
            cols = ['a', 'b'] + sorted(rng.sample(['c', 'd'], rng.choice([0, 1, 1, 2])))
            x = {"k": "f", "t": x['t'], "c": cols, "v": [[["nan", 0] if rng.random() < 0.2 else val(rng.choice(values)) for _ in x['t']] for _ in cols]}
        if x['k'] == 'c' and any(o['k'] == 'c' for o in objs):
            x = rand_operand(rng, values, T, prev, ['s'])      # one scalar object per heap: its identity is its value
        objs.append(x)
    if all(o['k'] == 'c' for o in objs):
        objs[0] = rand_operand(rng, values, T, prev, ['s'])
    lists = []
    for _ in range(rng.choice([2, 3, 3])):
        size = rng.choice([0, 1, 2, 2, 2, 3])
        lists.append({'k': 'l' if rng.random() < 0.8 else 't', 'ids': [rng.randint(1, len(objs)) for _ in range(size)]})
    return fam, {'objs': objs, 'lists': lists}


def rand_call(rng, fam, h, ab=None):
    """a call on the heap h in some calling form, inside the domain of the statement as far as the driver can tell
    (the trace specification decides: a step it finds outside the domain is not judged); None: try again"""
    ops = {'arith': ['add', 'sub', 'mul', 'div', 'min', 'max', 'sum', 'count'] + CMPS[:2],
           'agg': ['add', 'sub', 'mul', 'min', 'max', 'sum', 'mean', 'count'] + CMPS[2:]}[fam]
    op = rng.choice(ops)
    refs = [{'i': i + 1, 'r': 'o'} for i in range(len(h['objs']))] + [{'i': i + 1, 'r': 'l'} for i in range(len(h['lists']))] * 2
    a = rng.choice(refs)
    b = {'i': 0, 'r': 'none'} if op not in CUTS + CMPS and a['r'] == 'l' and rng.random() < 0.3 else rng.choice(refs)
    if ab is not None:                  # the arguments of an earlier call, under whatever operator / policy / method comes up
        a, b = ab
    ids = [i for r in (a, b) for i in ([r['i']] if r['r'] == 'o' else h['lists'][r['i'] - 1]['ids'] if r['r'] == 'l' else [])]
    xs = [h['objs'][i - 1] for i in ids]
    if not 2 <= len(xs) <= 4 or all(x['k'] == 'c' for x in xs):
        return None
    if op in CMPS and (a['r'] != 'o' or b['r'] != 'o'):
        return None
    if op in CUTS:
        for r in (a, b):
            if r['r'] == 'l' and (h['lists'][r['i'] - 1]['k'] != 'l' or not h['lists'][r['i'] - 1]['ids']):
                return None
        if op == 'div' and len(xs) > 2 and any(x['k'] == 'c' and x['v'] == val(0) for x in xs[1:]):
            return None
    if op in AGGS and len(set(shape_class(x) for x in xs) - {'c'}) > 1:
        return None                     # recorded finding C08-aggregate-mixed-shapes: watched by the single-call families
    cols = pick_cols(rng, op, xs)
    if cols is None:
        return None
    m = rng.choice(['ffill', 'bfill', 'v0', 'v1']) if len(xs) == 2 and op not in AGGS and rng.random() < 0.2 else 'none'
    return {'act': 'call', 'c': {'a': a, 'b': b, 'cols': cols, 'join': 'oj' if op in AGGS else rng.choice(['ij', 'oj']), 'm': m, 'op': op},
            'l': 0, 'o': 0, 'p': [], 'x': 0}


def rand_caller_step(rng, h, used):
    """something the caller does to its own objects (the trace specification decides whether it is in the domain);
    the in-place edits go to an operand of the last call"""
    pylists = [i + 1 for i, l in enumerate(h['lists']) if l['k'] == 'l']
    step = lambda act, l=0, o=0, x=0, p=(): {'act': act, 'c': NOCALL, 'l': l, 'o': o, 'p': list(p), 'x': x}
    kind = rng.choice(['append', 'pop', 'poke', 'shift', 'shift', 'restamp', 'restamp', 'rename', 'reorder', 'pokes'])
    if kind == 'append' and pylists:
        return step('append', l=rng.choice(pylists), o=rng.randint(1, len(h['objs'])))
    if kind == 'pop':
        full = [i for i in pylists if h['lists'][i - 1]['ids']]
        if full:
            return step('pop', l=rng.choice(full))
    if kind == 'poke':
        ok = [i + 1 for i, o in enumerate(h['objs']) if o['k'] == 's' and o['v'] and o['v'][0][0] != 'nan']
        if ok:
            return step('poke', o=rng.choice(ok))
    tss = [i for i in used if h['objs'][i - 1]['k'] in ('s', 'f') and h['objs'][i - 1]['t']]
    if kind in ('shift', 'restamp', 'pokes') and tss:
        o = rng.choice(tss)
        t = h['objs'][o - 1]['t']
        if kind == 'shift':
            return step('shift', o=o, x=1 if t[0] == 1 else rng.choice([1, -1]))
        if kind == 'pokes':
            return step('pokes', o=o, x=rng.choice([0, 1]))
        free = [i + 1 for i in range(len(t)) if i == len(t) - 1 or t[i + 1] > t[i] + 1]
        return step('restamp', o=o, x=rng.choice(free))
    frames = [i for i in used if h['objs'][i - 1]['k'] == 'f' and len(h['objs'][i - 1]['c']) > 1]
    if kind in ('rename', 'reorder') and frames:
        o = rng.choice(frames)
        if kind == 'reorder':
            return step('reorder', o=o)
        cols = h['objs'][o - 1]['c']
        return step('rename', o=o, p=(rng.choice(cols), rng.choice([c for c in ['a', 'b', 'c', 'd', 'e'] if c not in cols])))
    return None


NOCALL = {'a': {'i': 0, 'r': 'none'}, 'b': {'i': 0, 'r': 'none'}, 'cols': 'ij', 'join': 'ij', 'm': 'none', 'op': ''}


def ids_of(h, c):
    return [i for r in (c['a'], c['b']) for i in ([r['i']] if r['r'] == 'o' else seq(h['lists'][r['i'] - 1]['ids']) if r['r'] == 'l' else [])]


def c2s_sessions(ctx, report, n):
    """random histories of 3..6 steps on random heaps, recorded from the real code and judged by Trace_OpsSession"""
    from harness.core import Machinery
    rng = ctx.rng
    obs = []
    for _ in range(n):
        fam, heap = rand_heap(rng)
        objs, lists = sess_build(heap, rng)
        h, steps = heap, []
        for _k in range(rng.choice([3, 4, 5, 6])):
            s = None
            calls = [t['s'] for t in steps if t['s']['act'] == 'call']
            if steps and steps[-1]['s']['act'] == 'call' and rng.random() < 0.4:
                s = rand_caller_step(rng, h, ids_of(h, calls[-1]['c']))
            if s is None and steps and rng.random() < (0.8 if steps[-1]['s']['act'] != 'call' else 0.2):
                s = calls[-1]                                                       # the same call once more (the caller may have changed its objects since)
                s = s if rand_ok_again(h, s) else None
                if s is not None and rng.random() < 0.6:                            # ... or the same arguments under another operator / policy / method
                    for _try in range(10):
                        v = rand_call(rng, fam, h, ab=(s['c']['a'], s['c']['b']))
                        if v is not None:
                            s = v
                            break
            for _try in range(20):
                if s is not None:
                    break
                s = rand_call(rng, fam, h)
            if s is None:
                break
            out, view = sess_step(s, objs, lists)
            ctx.evals += 1
            steps.append({'s': s, 'view': view, 'out': out if out is not None else {'kind': 'none'}})
            h = view                        # what the caller holds now, as it sees it
        if steps:
            obs.append({'heap': heap, 'steps': steps})
    bad = []
    for k in range(0, len(obs), 1500):         # (a recorded session is a long line: keep each log small)
        bad += [(ln + k, v) for ln, v in ctx.validate('Trace_OpsSession', obs[k:k + 1500], cfg='Trace_OpsSession.cfg')]
    outside = 0
    for ln, verdict in bad:
        o = obs[ln - 1]
        k, clause = verdict.split(':', 1)
        k = int(k) - 1
        if clause == 'outside_domain':          # the specification decides what the statement speaks about: not judged
            outside += 1
            continue
        report(clause, sess_case(o['heap'], [t['s'] for t in o['steps']], k, o['steps'][k]['out'], at=o['steps'][k - 1]['view'] if k else o['heap']),
               {'observed': o['steps'][k]['out'], 'heap_after_step': o['steps'][k]['view']})
    if outside * 10 > len(obs):
        raise Machinery('vacuous: %d of %d recorded sessions contain a step outside the domain of OpsSession!SessDomain' % (outside, len(obs)))
    ctx.extra['sessions_cut_at_a_step_outside_the_domain'] = outside
    rejected = {ln for ln, _ in bad}
    for k, o in enumerate(obs):
        if k + 1 not in rejected and len(o['steps']) >= 2:
            ctx.note(('c2s-session', k))
    ctx.sample({'c2s_session': {'heap': obs[len(obs) // 2]['heap'], 'history': [spelled(t['s']) for t in obs[len(obs) // 2]['steps']]}})


def rand_ok_again(h, s):
    """the lists the call names still hold 2..4 operands together (the caller may have changed them since)"""
    c = s['c']
    ids = [i for r in (c['a'], c['b']) for i in ([r['i']] if r['r'] == 'o' else h['lists'][r['i'] - 1]['ids'] if r['r'] == 'l' else [])]
    return 2 <= len(ids) <= 4 and all(r['r'] != 'l' or h['lists'][r['i'] - 1]['ids'] for r in (c['a'], c['b']) if c['op'] in CUTS)


def sessions(ctx, report):
    """histories that share the caller's objects (OpsSession.tla / MC_OpsSession.tla / Trace_OpsSession.tla)"""
    from harness.core import Machinery
    # one TLC run checks the clauses on every history of two calls AND prints them for the replay
    snaps = ctx.generate('MC_OpsSession', 'MC_OpsSession_quick.cfg')
    taken = set()
    for x in snaps:
        for h in x['hist']:
            c = h['s']['c']
            taken.add('%s:%s-%s%s' % ('cut' if c['op'] in CUTS else 'agg' if c['op'] in AGGS else 'fold', c['a']['r'], c['b']['r'],
                                      '-same' if c['a'] == c['b'] else ''))
    for need in ('fold:l-none', 'fold:l-o', 'fold:o-l', 'fold:l-l', 'fold:l-l-same', 'fold:o-o-same', 'agg:l-none', 'agg:l-o', 'agg:o-l', 'agg:l-l',
                 'cut:l-o', 'cut:o-l', 'cut:l-l'):
        if need not in taken:
            raise Machinery('vacuous: no generated history of MC_OpsSession_quick.cfg contains a call of the form %s' % need)
    if ctx.quick:
        s2c_sessions(ctx, report, snaps, 1200, 'two-calls')
        s2c_sessions(ctx, report, edit_sessions(ctx, 'MC_OpsSession_edits.cfg', 200, 7), 0, 'edited-in-place')
        c2s_sessions(ctx, report, 300)
    else:
        s2c_sessions(ctx, report, snaps, 0, 'two-calls')
        ctx.mc('MC_OpsSession', 'MC_OpsSession_thorough.cfg')
        # the model can express what it forbids: with dfs = as_list(a); dfs += as_list(b) the caller's list does not survive add_(L, x)
        ctx.mc('MC_OpsSession', 'MC_OpsSession_extend.cfg', must_fail='PoolUntouched', coverage=False)
        s2c_sessions(ctx, report, ctx.generate('MC_OpsSession', 'MC_OpsSession_gen2t.cfg'), 6000, 'two-calls-all-heaps')
        s2c_sessions(ctx, report, ctx.generate('MC_OpsSession', 'MC_OpsSession_gen3.cfg'), 8000, 'call-caller-probe')
        ctx.mc('MC_OpsSession', 'MC_OpsSession_edits3.cfg', coverage=False)      # (the actions of the other configurations are switched off here)
        s2c_sessions(ctx, report, edit_sessions(ctx, 'MC_OpsSession_edits.cfg', 2500, 7), 0, 'edited-in-place')
        s2c_sessions(ctx, report, edit_sessions(ctx, 'MC_OpsSession_sim.cfg', 300, 8, need=False), 0, 'simulated')
        c2s_sessions(ctx, report, 3000)


def edit_sessions(ctx, cfg, n, depth, need=True):
    """histories drawn by TLC's simulator from the machine with the calls on two objects, the variants of the last call and the
    caller's shape-keeping edits; every kind of edit must be followed by a call of every operator family somewhere"""
    from harness.core import Machinery
    hists = ctx.generate('MC_OpsSession', cfg, simulate=n, depth=depth, seed=ctx.seed + 1, workers=1)
    uniq = {json.dumps(x, sort_keys=True): x for x in hists}          # (the simulator evaluates a complete history more than once)
    hists = [uniq[k] for k in sorted(uniq)]
    family = lambda op: 'arith' if op in ('add', 'sub', 'mul', 'div', 'pow') else 'cmp' if op in CMPS else 'minmax' if op in ('min', 'max') else 'agg'
    taken = set()
    for x in hists:
        steps = [h['s'] for h in x['hist']]
        for k in range(1, len(steps)):
            if steps[k]['act'] == 'call' and steps[k - 1]['act'] in EDITS:
                c = steps[k]['c']
                taken.add((steps[k - 1]['act'], 'call'))
                taken |= {('*', family(c['op'])), ('*', 'join=' + c['join']), ('*', 'cols=' + c['cols']), ('*', 'method=' + ('none' if c['m'] == 'none' else 'some'))}
                if c['a']['r'] == 'o' and c['b']['r'] == 'o' and c['a']['i'] != c['b']['i']:
                    taken.add((steps[k - 1]['act'], 'two-objects'))
    wanted = [(e, f) for e in EDITS for f in ('call', 'two-objects')] + [('*', f) for f in ('arith', 'cmp', 'minmax', 'agg', 'join=ij', 'join=oj', 'cols=ij', 'cols=oj', 'method=none', 'method=some')]
    missing = [w for w in wanted if w not in taken]
    if need and missing:
        raise Machinery('vacuous: no simulated history of %s has, right after an in-place edit, a call of kind %s' % (cfg, missing[:6]))
    return hists


def replay(ctx, body):
    """./check C08 --replay <file>: re-run one recorded case and let Trace_Ops judge it"""
    c = body['case']
    if 'steps' in c:                       # a session: the whole history again, on one set of objects
        objs, lists = sess_build(c['heap'])
        steps = []
        for st in c['steps']:
            out, view = sess_step(st, objs, lists)
            steps.append({'s': st, 'view': view, 'out': out if out is not None else {'kind': 'none'}})
        bad = ctx.validate('Trace_OpsSession', [{'heap': c['heap'], 'steps': steps}], cfg='Trace_OpsSession.cfg')
        print(json.dumps({'history': c['history'], 'observed': [t['out'] for t in steps], 'verdict': bad[0][1] if bad else 'explained by the specification'})[:3000])
        return 1 if bad else 0
    o = call(c['op'], c['xs'], c['form'], c['join'], c['cols'], m=c.get('method', 'none'))
    bad = ctx.validate('Trace_Ops', [o])
    print(json.dumps({'observed': o['out'], 'verdict': bad[0][1] if bad else 'explained by the specification'})[:3000])
    return 1 if bad else 0


def run(ctx):
    ctx.rule = ('S2C: TLC-enumerated operand tuples x operator x index policy x column policy replayed through the public operators in '
                'every calling form, == with the expected result; C2S: random tuples of 2..4 operands validated by Trace_Ops. '
                'Non-trivial = the expected result is neither empty nor equal to one of the operands; distinct by (operands, operator, policies). '
                'Sessions: TLC-enumerated (thorough: also TLC-simulated) histories of calls and caller actions on one heap of real objects, '
                'after every step heap == the heap TLC printed and outcome in the outcomes TLC printed; random histories validated by '
                'Trace_OpsSession. A session counts when every step was explained; distinct by (policies, heap, history). '
                'Edited-in-place sessions: TLC-simulated histories call ; shape-keeping edit of an operand (shift / restamp / rename / reorder / '
                'pokes) ; same call, ring operator, other policy or fill method on the same objects - every edit kind must be followed by '
                'a call on two plain objects, and the calls after edits must cover every operator family, both index and both column policies (else exit 2). '
                'Fill methods: TLC-enumerated pairs x operator x policies x {ffill, bfill, 0, 1}, == with OpsLaw!OpsOutcomes.')
    report = Reporter(ctx)
    ctx.exhaustive = True
    if ctx.quick:
        ctx.mc('MC_Ops', 'MC_Ops_quick.cfg')
        ctx.mc('MC_Ops', 'MC_Ops_law.cfg', coverage=False)        # (one action, Eval; coverage bookkeeping of the recursive operators is costly)
        s2c(ctx, report, ctx.generate('MC_Ops', 'MC_Ops_gen_quick.cfg'), 7000)
        s2c(ctx, report, ctx.generate('MC_Ops', 'MC_Ops_gen_frames.cfg'), 3000)
        s2c(ctx, report, ctx.generate('MC_Ops', 'MC_Ops_gen_fill.cfg'), 1500)
        c2s(ctx, report, 2500)
        sessions(ctx, report)
    else:
        ctx.mc('MC_Ops', 'MC_Ops_thorough.cfg')
        ctx.mc('MC_Ops', 'MC_Ops_law3.cfg', coverage=False)
        s2c(ctx, report, ctx.generate('MC_Ops', 'MC_Ops_gen_fill3.cfg'), 20000)
        s2c(ctx, report, ctx.generate('MC_Ops', 'MC_Ops_gen_fillframes.cfg'), 10000)
        s2c(ctx, report, ctx.generate('MC_Ops', 'MC_Ops_gen_quick.cfg'), 60000)
        s2c(ctx, report, ctx.generate('MC_Ops', 'MC_Ops_gen_frames.cfg'), 40000)
        s2c(ctx, report, ctx.generate('MC_Ops', 'MC_Ops_gen_thorough.cfg'), 80000)
        c2s(ctx, report, 30000)
        sessions(ctx, report)
    ctx.extra['violation_signatures'] = report.summary()
    ctx.assumptions += [
        'values are drawn from families on which every operation is exact in binary floating point (0 and +-powers of two for + - * / '
        'comparisons min max; multiples of 12 (6) for sums and means of <= 4 operands; exponents 0..3)',
        'the plain pointwise power is IEEE-754 pow (x**0 = 1, 1**y = 1 also for NaN)',
        "column policy 'oj' with differing column sets is checked for the operations that have a neutral element (+ - * /), the aggregates "
        "and the comparisons (named reading OpsLaw!OpsMissingColumnNoData: a column one side lacks is no data there, every comparison with it "
        "is False); pow_ / min_ / max_ are checked under 'oj' when the column sets agree",
        "column policy 'ij' is checked when the multi-column frames share at least one column (with none there is no cell to speak of; "
        "the code then returns an empty Series, as presync's docstring documents); with three or more operands, when they share at least two "
        "(a frame reduced to a single column travels on as a pseudo-series)",
        'lists of operands: add_, mul_, min_, max_ and the aggregates reduce the members of both arguments left to right; for sub_/div_ '
        'with a list the statement has two readings (one row reduced left to right / a list stands for its sum resp. product) and both '
        'are accepted (OpsSession!CutListReading; the same data for a single left operand unless a series is broadcast over frames '
        "with different columns under 'oj': MC_OpsSession!RightListPinned); tuples are lists of operands for the folds and aggregates only",
        'sessions: 2..4 operands per call, the frames of a heap share the columns a and b, one scalar object per heap; aggregates of '
        'mixed shapes (recorded finding C08-aggregate-mixed-shapes) are left to the single-call families; in the two-call family the pair '
        'of two different objects without a container is left to MC_Ops, the edited-in-place and simulated families have it (with pow_ and '
        'the comparisons; pow_ is not drawn by the random C2S sessions)',
        'in-place edits keep the index ascending and unique (shift by one day, one stamp moved one day on where that day is free), rename one '
        'column to a name the frame does not have, re-order = first physical column moved last, pokes = every other cell (of a frame: in '
        'its first column) set to NaN or 0',
        'a one-column frame is a series whose header is ignored (presync docstring; reading PseudoSeries); the one-column frames of a '
        'tuple share their header (with different headers the df_sync based min_/max_/df_sum/df_mean/df_count return all-NaN columns)',
        'fill methods None, ffill, bfill, 0, 1 for calls with two operands (with more the statement does not say whether intermediate '
        'results are filled again: OpsLaw!OpsMethodOK); for frames both readings of C03 (row / cell) are accepted; none for the aggregates; '
        'df_std excluded (not exact)',
        'small-scope: MC/S2C over <= 3 (thorough 4) timestamps; C2S over <= 30']
