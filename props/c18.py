"""C18 - decorators are transparent: same results, same signature, no double wrapping.

TLA+ (spec/Decorators.tla) decides; this driver only realises signatures by exec-generated functions
that return all their bindings, builds real wrapper objects, calls them, projects what came back
(value / exception class / chain of wrapper layers / argspec) and compares with == against what TLC
printed (S2C), or logs observations for Trace_Decorators (C2S).
"""
import copy, inspect, json, warnings
warnings.filterwarnings('ignore')
from harness.enc import tag, untag
from harness.core import Machinery

NAMES = ['a', 'b', 'c', 'd']
KINDS = ['try_none', 'try_zero', 'try_back', 'kwargs_support', 'cache', 'loops', 'pd2np']
BIND_KINDS = KINDS + ['try_list', 'pd2np_exc']      # try_list: a mutable fallback (the caller mutates what it is given)
PD2NP_EXC = ["l", [["s", "a"], ["s", "b"], ["s", "x"]]]   # pd2np(exc = ['a', 'b', 'x'])
CLASS_OF = {'try_none': 'try_value', 'try_zero': 'try_value', 'try_list': 'try_value', 'pd2np_exc': 'pd2np'}
NONE = ["n", 0]
# optional parameters of the try wrappers at non-default values (no part of a layer: Decorators.tla OptKindSeq)
OPTIONS = {'try_none_verbose': dict(verbose=True), 'try_zero_verbose': dict(value=0, verbose=True), 'try_none_silent': dict(verbose=False),
           'try_none_repeat': dict(repeat=2), 'try_zero_repeat_verbose': dict(value=0, repeat=1, verbose=True),
           'try_list_verbose': dict(value=[], verbose=True)}
CLASS_OF.update({k: 'try_value' for k in OPTIONS})
# how the base function fails when it is handed the marker value (Decorators.tla FailMarks / ExcClassOf)
FAIL_MARKS = ['bad', 'bad_bare', 'bad_assert', 'bad_args', 'bad_key', 'bad_sub', 'bad_stop', 'bad_fmt', 'bad_interrupt', 'bad_exit', 'bad_genexit']
FROM_BASE = 'raised by the base function'
INTERRUPTS = (KeyboardInterrupt, SystemExit, GeneratorExit)


class Oops(ValueError):
    """a user-defined exception, raised without a message"""


def fail(mark):
    if mark == 'bad':
        raise ValueError("bad")
    if mark == 'bad_bare':
        raise ValueError                                      # the class itself: no message
    if mark == 'bad_assert':
        assert mark is None                                   # a bare assert: AssertionError()
    if mark == 'bad_args':
        raise ValueError('too big', 7)
    if mark == 'bad_key':
        return {}['k']                                        # raised by the interpreter: KeyError('k')
    if mark == 'bad_sub':
        raise Oops()
    if mark == 'bad_stop':
        raise StopIteration
    if mark == 'bad_fmt':
        raise ValueError('100%s of %d %(x)s {0} {}')
    if mark == 'bad_interrupt':
        raise KeyboardInterrupt(FROM_BASE)
    if mark == 'bad_exit':
        raise SystemExit(FROM_BASE)
    if mark == 'bad_genexit':
        raise GeneratorExit(FROM_BASE)
    raise Machinery('unknown failure marker %r' % (mark,))


def _mine(e):
    """an interrupt the base function raised on purpose (anything else - a real Ctrl-C - goes on)"""
    return bool(e.args) and e.args[0] == FROM_BASE
DEFAULTS = {False: {'a': 'da', 'b': 'db', 'c': 'dc', 'd': 'dd'}, True: {'a': 'ea', 'b': 0, 'c': 'ec', 'd': None}}
MARK = 'the caller owns its result'


# ------------------------------------------------------------------------------------------------
# encoding (Python value <-> tagged value of spec/Values.tla; sets get the tag "set")
# ------------------------------------------------------------------------------------------------
def tagx(v):
    if isinstance(v, (set, frozenset)):
        return ["set", sorted((tagx(x) for x in v), key=json.dumps)]
    if isinstance(v, tuple):
        return ["t", [tagx(x) for x in v]]
    if isinstance(v, list):
        return ["l", [tagx(x) for x in v]]
    if isinstance(v, dict):
        return ["m", [[str(k), tagx(x)] for k, x in sorted(v.items())]]
    return tag(v)


def untagx(t):
    k, p = t
    if k == 'set':
        return set(untagx(x) for x in p)
    if k == 't':
        return tuple(untagx(x) for x in p)
    if k == 'l':
        return [untagx(x) for x in p]
    if k == 'm':
        return {kk: untagx(x) for kk, x in p}
    return untag(t)


def outcome(fn, *args, **kwargs):
    """value or exception class of one call"""
    try:
        return tagx(fn(*args, **kwargs))
    except Exception as e:
        return ["exc", type(e).__name__]
    except INTERRUPTS as e:
        if not _mine(e):
            raise
        return ["exc", type(e).__name__]


def sigkey(sig):
    return (sig['npos'], sig['ndef'], bool(sig['varargs']), bool(sig['varkw']), bool(sig.get('alt')))


def mutate(result):
    """the caller changes, in place, the object a call returned to it"""
    if isinstance(result, list):
        result.append(MARK)
    elif isinstance(result, dict):
        result[MARK] = 1


def call_and_mutate(fn, *args, **kwargs):
    """outcome of one call, after which the caller mutates the returned object in place"""
    try:
        r = fn(*args, **kwargs)
    except Exception as e:
        return ["exc", type(e).__name__]
    except INTERRUPTS as e:
        if not _mine(e):
            raise
        return ["exc", type(e).__name__]
    out = tagx(r)
    mutate(r)
    return out


def base_function(sig, counting=False):
    """def f(a, b, c=_d_c, *args, **kw): returns all its bindings; raises ValueError when handed 'bad', returns
    None when handed 'quiet'; counts its evaluations (and returns (bindings, number of this evaluation) when
    `counting`).  The default VALUES come from the namespace, not from the source text: the plain and the
    `alt` function of one shape have equal code objects and differ only in their defaults."""
    npos, ndef = sig['npos'], sig['ndef']
    ps = [NAMES[i] if i < npos - ndef else "%s=_d_%s" % (NAMES[i], NAMES[i]) for i in range(npos)]
    seen = list(NAMES[:npos])
    items = ["'%s': %s" % (n, n) for n in NAMES[:npos]]
    if sig['varargs']:
        ps.append('*args'); items.append("'args': args"); seen.append('*args')
    if sig['varkw']:
        ps.append('**kw'); items.append("'kw': kw"); seen.append('*kw.values()')
    src = ('def f(%s):\n    _cnt[0] += 1\n    _q = False\n    for _v in (%s):\n        if type(_v) is str:\n'
           '            if _v in _marks: _fail(_v)\n            if _v == "quiet": _q = True\n'
           '    if _q: return None\n    _r = {%s}\n    return %s\n') % (', '.join(ps), ''.join(x + ', ' for x in seen), ', '.join(items),
                                                                     '(_r, _cnt[0])' if counting else '_r')
    ns = {'_cnt': [0], '_marks': frozenset(FAIL_MARKS), '_fail': fail}
    ns.update({'_d_' + k: v for k, v in DEFAULTS[bool(sig.get('alt'))].items()})
    exec(src, ns)
    f = ns['f']
    f.counter = ns['_cnt']
    return f


def pyg():
    import pyg_base as P
    from pyg_base._decorators import try_value, wrapper
    from pyg_base._cache import cache
    if not hasattr(pyg, 'loops'):
        pyg.loops = P.loop(list, dict)
        import logging, os
        for h in logging.getLogger('pyg').handlers:           # verbose = True really logs: into the void
            if isinstance(h, logging.StreamHandler):
                h.setStream(open(os.devnull, 'w'))
    return P, try_value, wrapper, cache


_DECOS = {}


def decorator(layer):
    """the real decorator for an abstract layer [class, parameter]"""
    P, try_value, wrapper, cache = pyg()
    cls, par = layer
    if cls == 'try_value':
        if par == NONE:
            return P.try_none
        if par == ["i", 0]:
            return P.try_zero
        if par == ["l", []]:
            return P.try_list                                 # the module-level instance: one fallback list for everybody
        k = json.dumps(par)                                   # one decorator instance per fallback, like a module-level try_xxx
        if k not in _DECOS:
            _DECOS[k] = try_value(value=untagx(par))
        return _DECOS[k]
    if cls == 'pd2np' and par != NONE:
        k = 'pd2np' + json.dumps(par)
        if k not in _DECOS:
            _DECOS[k] = P.pd2np(exc=untagx(par))
        return _DECOS[k]
    return {'try_back': P.try_back, 'kwargs_support': P.kwargs_support, 'cache': cache, 'loops': pyg.loops, 'pd2np': P.pd2np}[cls]


def layer_of(kind):
    if kind in OPTIONS:
        return ['try_value', tagx(OPTIONS[kind].get('value'))]
    return [CLASS_OF.get(kind, kind), {'try_zero': ["i", 0], 'try_list': ["l", []], 'pd2np_exc': PD2NP_EXC}.get(kind, NONE)]


def decorator_of_kind(kind):
    """the decorator of a kind: one module-level instance per kind with optional parameters (like pyg_base.try_zero)"""
    if kind not in OPTIONS:
        return decorator(layer_of(kind))
    if kind not in _DECOS:
        _DECOS[kind] = pyg()[1](**OPTIONS[kind])
    return _DECOS[kind]


def ready_made(kind):
    """a NEW ready-made decorator object of the kind (a wrapper without a function), to be applied to several functions"""
    P, try_value, wrapper, cache = pyg()
    from pyg_base._cache import cache_func
    if kind in OPTIONS:
        return try_value(**OPTIONS[kind])
    return {'try_none': lambda: try_value(), 'try_zero': lambda: try_value(value=0), 'try_list': lambda: try_value(value=[]),
            'try_back': lambda: P.try_back(), 'kwargs_support': lambda: P.kwargs_support(), 'cache': lambda: cache_func(),
            'loops': lambda: P.loop(list, dict), 'pd2np': lambda: P.pd2np(), 'pd2np_exc': lambda: P.pd2np(exc=untagx(PD2NP_EXC))}[kind]()


def project(o, f):
    """abstraction function: wrapper object -> chain of [class, parameter], outermost first"""
    _, _, wrapper, _ = pyg()
    names = {'cache_func': 'cache'}
    chain = []
    while isinstance(o, wrapper):
        n = type(o).__name__
        n = names.get(n, n)
        par = tagx(dict.get(o, 'value')) if n == 'try_value' else tagx(list(dict.get(o, 'exc'))) if n == 'pd2np' and dict.get(o, 'exc') else NONE
        chain.append([n, par])
        o = dict.get(o, 'function')
    if o is not f:
        chain.append(['<not the base function>', NONE])
    return chain


def py_argspec_of(fn):
    """Python's own word on an exec-generated function (sanity of the driver, never a verdict)"""
    s = inspect.getfullargspec(fn)
    return {'args': list(s.args), 'varargs': s.varargs or '', 'varkw': s.varkw or '', 'defaults': [tagx(d) for d in (s.defaults or ())]}


def argspec_of(fn):
    """pyg_base.getargspec - the subject"""
    P = pyg()[0]
    try:
        s = P.getargspec(fn)
        return {'args': list(s.args), 'varargs': s.varargs or '', 'varkw': s.varkw or '',
                'defaults': [tagx(d) for d in (s.defaults or ())]}
    except Exception as e:
        return {'args': ['<exception>'], 'varargs': type(e).__name__, 'varkw': '', 'defaults': []}


def realise(cc, flip=False):
    kw = list(cc['kw'])
    if flip:
        kw.reverse()
    return tuple(untagx(v) for v in cc['pos']), {n: untagx(v) for n, v in kw}


FEATURES = ('long_history', 'kw_reordered', 'kwargs_support', 'pd2np', 'cache', 'loops', 'try', 'extra_kw_for_varkw', 'no_first_arg', 'bad_passed', 'eager',
            'list_tuple_twin', 'unhashable_arg', 'quiet_passed', 'alt_defaults', 'mutable_fallback',
            'options_set', 'interrupt', 'reused_binding', 'edited_binding', 'second_function')
BAD_VALUES = [["s", m] for m in FAIL_MARKS]


def passed(cc):
    return list(cc['pos']) + [v for _, v in cc['kw']]


def fail_mark(cc):
    ms = [v[1] for v in passed(cc) if v in BAD_VALUES]
    return ms[0] if ms else ''


def describe(sig, classes, cc, eager=False):
    """stable, matchable keys of a failing call: plain facts about the input, True = the feature is present"""
    declared = NAMES[:sig['npos']]
    return {'kwargs_support': 'kwargs_support' in classes, 'pd2np': 'pd2np' in classes, 'cache': 'cache' in classes,
            'loops': 'loops' in classes, 'try': ('try_value' in classes) or ('try_back' in classes),
            'extra_kw_for_varkw': bool(sig['varkw']) and any(n not in declared for n, _ in cc['kw']),
            'no_first_arg': not (bool(cc['pos']) or (sig['npos'] > 0 and any(n == 'a' for n, _ in cc['kw']))),
            'bad_passed': bool(fail_mark(cc)), 'interrupt': fail_mark(cc) in FAIL_MARKS[-3:], 'eager': eager,
            'quiet_passed': ["s", "quiet"] in (list(cc['pos']) + [v for _, v in cc['kw']]), 'alt_defaults': bool(sig.get('alt'))}


def call_clause(keys):
    if keys.get('interrupt'):
        return 'interrupt_passes_through'
    return 'fallback_iff_raises' if keys['try'] and keys['bad_passed'] else 'transparent_call'


class Reporter(object):
    """Collects the failing cases (replayed smallest first) by (clause, operation, set of features) and, at the
    end, hands ctx.violation the first case of every MINIMAL feature set: a failing case whose features
    include those of a simpler failing case of the same clause and operation is only counted.  So the
    simplest failing input of every kind is reported, not the thousands of larger inputs that contain it.
    (Cases explained by a recorded known finding are kept out of that reduction.)"""
    def __init__(self, ctx):
        self.ctx, self.counts, self.first = ctx, {}, {}

    def __call__(self, clause, keys, case, detail):
        k = (clause, keys.get('op'), frozenset(f for f in FEATURES if keys.get(f)))
        self.counts[k] = self.counts.get(k, 0) + 1
        if k not in self.first:
            c = {f: False for f in FEATURES}
            c.update(keys); c.update(case)
            self.first[k] = (c, detail)

    def finish(self):
        from harness.core import _match
        # cases that a recorded known finding explains go straight to ctx.violation (which lists them as known) and
        # take no part in the reduction: a known defect must never hide another failing case
        known = {k for k, (case, _) in self.first.items()
                 if any(_match(kf, {'clause': k[0], 'case': case}) for kf in self.ctx.known)}
        rest = [k for k in self.first if k not in known]
        for k in self.first:
            clause, op, feats = k
            case, detail = self.first[k]
            if k in known or not any(c == clause and o == op and fs < feats for (c, o, fs) in rest):
                self.ctx.violation(clause, case, detail)
        if self.counts:
            self.ctx.extra['failing_cases_by_clause_op_features'] = {'%s %s %s' % (c, o, ','.join(sorted(fs))): n for (c, o, fs), n in self.counts.items()}


# ------------------------------------------------------------------------------------------------
# S2C (a): binding, call_with_callargs, every single decorator, argspec
# ------------------------------------------------------------------------------------------------
def s2c_bind(ctx, rep, cases):
    P = pyg()[0]
    cases.sort(key=lambda c: (len(c['cc']['pos']) + len(c['cc']['kw']), c['sig']['npos'], json.dumps(c, sort_keys=True)))
    per_sig = {}
    for n, case in enumerate(cases):
        sig, cc = case['sig'], case['cc']
        key = sigkey(sig)
        if key not in per_sig:
            f = base_function(sig)
            if py_argspec_of(f) != case['argspec']:           # Python's inspect on my own function: machinery
                raise Machinery('spec/driver disagree on the signature %r: %r vs %r' % (sig, py_argspec_of(f), case['argspec']))
            ctx.evals += 1
            if argspec_of(f) != case['argspec']:              # pyg_base.getargspec is the subject
                rep('same_signature', {'part': 'bind', 'op': 'getargspec', 'kind': 'none', 'alt_defaults': bool(sig.get('alt'))}, {'sig': sig},
                    {'expected': case['argspec'], 'observed': argspec_of(f)})
            ws = {}
            for kind in BIND_KINDS:
                ws[kind] = decorator(layer_of(kind))(f)
                ctx.evals += 1
                if argspec_of(ws[kind]) != case['argspec']:
                    rep('same_signature', {'part': 'bind', 'op': 'getargspec', 'kind': kind, 'alt_defaults': bool(sig.get('alt'))}, {'sig': sig},
                        {'expected': case['argspec'], 'observed': argspec_of(ws[kind])})
            per_sig[key] = (f, ws)
        f, ws = per_sig[key]
        # one spelling per case, in rotation (every order of every call of the "order" universe: s2c_order)
        names = [nm for nm, _ in cc['kw']]
        if names:
            r = n % len(names)
            names = names[r:] + names[:r]
            if (n // len(names)) % 2:
                names.reverse()
        args, kwargs = spell(cc, names)
        if case['valid']:
            # the specification against Python itself (machinery, not a verdict on pyg-base)
            if outcome(inspect.getcallargs, f, *args, **kwargs) != case['bind']:
                raise Machinery('Bind disagrees with inspect.getcallargs on %r %r' % (sig, cc))
            if outcome(f, *args, **kwargs) != case['ret']:
                raise Machinery('the base function disagrees with BaseOutcome on %r %r' % (sig, cc))
            got = outcome(P.getcallargs, f, *args, **kwargs)
            ctx.evals += 2
            if got != case['bind']:
                rep('getcallargs', {'part': 'bind', 'op': 'getcallargs', 'kind': 'none'}, {'sig': sig, 'cc': cc}, {'expected': case['bind'], 'observed': got})
            else:
                got = outcome(P.call_with_callargs, f, P.getcallargs(f, *args, **kwargs))
                if got != case['ret']:
                    rep('call_with_callargs', {'part': 'bind', 'op': 'call_with_callargs', 'kind': 'none'}, {'sig': sig, 'cc': cc}, {'expected': case['ret'], 'observed': got})
        for j, (kind, want) in enumerate(case['outs']):
            if want[0] == 'unspec':
                continue
            w = ws[kind]
            # the caller then mutates, in place, what it was given (not what a memo serves: MemoisedResultIsShared)
            got = (outcome if kind == 'cache' else call_and_mutate)(w, *args, **kwargs)
            ctx.evals += 1
            if got != want:
                keys = {'part': 'bind', 'op': 'call', 'kind': kind, 'mutable_fallback': kind == 'try_list'}
                keys.update(describe(sig, [CLASS_OF.get(kind, kind)], cc))
                rep(call_clause(keys), keys, {'sig': sig, 'cc': cc}, {'expected': want, 'observed': got})
            if case['valid'] and j == n % len(case['outs']):      # through the wrapper: one decorator per case, in rotation
                got = outcome(P.getcallargs, w, *args, **kwargs)
                ctx.evals += 2
                if got != case['bind']:
                    rep('getcallargs_wrapped', {'part': 'bind', 'op': 'getcallargs', 'kind': kind}, {'sig': sig, 'cc': cc}, {'expected': case['bind'], 'observed': got})
                else:
                    got = outcome(P.call_with_callargs, w, P.getcallargs(w, *args, **kwargs))
                    if got != want:
                        keys = {'part': 'bind', 'op': 'call_with_callargs', 'kind': kind}
                        keys.update(describe(sig, [CLASS_OF.get(kind, kind)], cc))
                        rep('call_with_callargs_wrapped', keys, {'sig': sig, 'cc': cc}, {'expected': want, 'observed': got})
        if cc['kw'] or len(cc['pos']) > sig['npos'] or len(cc['pos']) + len(cc['kw']) < sig['npos']:
            ctx.note(('bind', key, json.dumps(cc)))
        if n % 2503 == 0:
            ctx.sample({'s2c_bind_case': case})
        ctx.traces += 1


# ------------------------------------------------------------------------------------------------
# S2C (b): wrapper heap histories; older objects are called again after newer ones were built
# ------------------------------------------------------------------------------------------------
def chain_key(chain):
    return json.dumps(chain)


def s2c_heap(ctx, rep, heaps, table, sigs, schedules, pick=None):
    """heaps: TLC's heap states [hist, objs]; table[(sig, chain)] = [(cc, expected outcome)];
    every history is replayed on real decorators for base functions `sigs` under each schedule:
      'late'  all Wrap steps, then every object is called with the whole menu
      'eager' after every Wrap step every live object is called (memos fill up before the next Wrap)"""
    heaps.sort(key=lambda c: (len(c['hist']), json.dumps(c['hist'])))
    for n, case in enumerate(heaps):
        hist, objs = case['hist'], case['objs']
        for si, sig in enumerate(sigs):
            for sched in schedules:
                how = 'calls' if pick is None else pick(n, si, sched, len(hist))
                if how:
                    replay_heap(ctx, rep, hist, objs, sig, sched, table, calls=(how == 'calls'))
                    ctx.traces += 1
        classes = [CLASS_OF.get(k, k) for k, _ in hist]
        if len(set(classes)) < len(classes):
            ctx.note(('heap', json.dumps(hist)))
        if n % 3001 == 0:
            ctx.sample({'s2c_heap_history': case})


def call_all(ctx, rep, live, chains, f, sig, sched, hist, table, check):
    spec = None
    for i, o in enumerate(live):
        menu = table.get((sigkey(sig), chain_key(chains[i])))
        if menu is None:
            raise Machinery('no outcome table for chain %r' % (chains[i],))
        for cc, want in menu:
            args, kwargs = realise(cc)
            got = outcome(o, *args, **kwargs)
            ctx.evals += 1
            if check and want[0] != 'unspec' and got != want:
                keys = {'part': 'heap', 'op': 'call'}
                keys.update(describe(sig, [c for c, _ in chains[i]], cc, eager=(sched == 'eager')))
                rep(call_clause(keys), keys, {'hist': hist, 'obj': i + 1, 'chain': chains[i], 'sig': sig, 'cc': cc},
                    {'expected': want, 'observed': got})


def replay_heap(ctx, rep, hist, objs, sig, sched, table, calls=True):
    f = base_function(sig)
    live = []
    last = len(hist) - 1
    for step, (kind, target) in enumerate(hist):
        live.append(decorator(layer_of(kind))(f if target == 0 else live[target - 1]))
        ctx.evals += 1
        if step == last:
            got = [project(o, f) for o in live]
            for i in range(step):
                if got[i] != objs[i]:
                    rep('only_new_object', {'part': 'heap', 'op': 'wrap', 'eager': sched == 'eager'},
                        {'hist': hist, 'sig': sig, 'changed_object': i + 1}, {'expected': objs[i], 'observed': got[i]})
                    return                                   # the heap is no longer the one of the specification
            if got[step] != objs[step]:
                rep('normal_form', {'part': 'heap', 'op': 'wrap', 'eager': sched == 'eager'}, {'hist': hist, 'sig': sig},
                    {'expected': objs[step], 'observed': got[step]})
                return
            want_spec = table[(sigkey(sig), 'argspec')]
            for i, o in enumerate(live):
                if argspec_of(o) != want_spec:
                    rep('same_signature', {'part': 'heap', 'op': 'getargspec'}, {'hist': hist, 'sig': sig, 'obj': i + 1},
                        {'expected': want_spec, 'observed': argspec_of(o)})
        if calls and (sched == 'eager' or step == last):
            call_all(ctx, rep, live, objs[:step + 1], f, sig, sched, hist[:step + 1], table, check=(step == last))
    if step == last:
        got = [project(o, f) for o in live]                 # calling must not change an object either
        if got != objs:
            rep('call_changed_an_object', {'part': 'heap', 'op': 'call_then_project', 'eager': sched == 'eager'}, {'hist': hist, 'sig': sig},
                {'expected': objs, 'observed': got})


# ------------------------------------------------------------------------------------------------
# S2C (c): the memo of cache(f), counting base function
# ------------------------------------------------------------------------------------------------
def run_memo(sig, calls):
    cache = pyg()[3]
    f = base_function(sig, counting=True)
    c = cache(f)
    outs = []
    for j, cc in enumerate(calls):
        args, kwargs = realise(cc, flip=(j % 2 == 1))        # keywords are a set: the order they are written in varies
        outs.append((outcome(c, *args, **kwargs), f.counter[0]))
    return outs


def s2c_memo(ctx, rep, cases):
    cases.sort(key=lambda c: (len(c['calls']), json.dumps(c['calls'])))
    for n, case in enumerate(cases):
        outs = run_memo(case['sig'], case['calls'])
        ctx.evals += len(outs)
        got, evals = outs[-1]
        if got != case['out'] or evals != case['evals']:
            first = case['calls'].index(case['calls'][-1]) == len(case['calls']) - 1
            rep('memo_evaluates_once' if first else 'memo_first_result',
                {'part': 'memo', 'op': 'call', 'cache': True, 'first_call_of_key': first, 'quiet_passed': case['out'] == NONE},
                {'sig': case['sig'], 'calls': case['calls']}, {'expected': [case['out'], case['evals']], 'observed': [got, evals]})
        if len({json.dumps(c) for c in case['calls']}) < len(case['calls']):
            ctx.note(('memo', json.dumps(case['calls'])))
        if n % 401 == 0:
            ctx.sample({'s2c_memo_case': case})
        ctx.traces += 1


# ------------------------------------------------------------------------------------------------
# S2C (b'): every way f can fail x where the failing value is passed x chains of kinds with optional parameters set
# ------------------------------------------------------------------------------------------------
def build_chain(kinds, f):
    w = f
    for kind in reversed(kinds):
        w = decorator_of_kind(kind)(w)
    return w


def s2c_exc(ctx, rep, cases):
    cases.sort(key=lambda c: (len(c['kinds']), json.dumps(c['kinds']), json.dumps(c['sig'], sort_keys=True)))
    for n, case in enumerate(cases):
        sig, kinds, chain = case['sig'], case['kinds'], case['chain']
        f = base_function(sig)
        w = build_chain(kinds, f)
        classes = [c for c, _ in chain]
        base_keys = {'part': 'exc', 'kinds': kinds, 'options_set': any(k in OPTIONS for k in kinds),
                     'mutable_fallback': any(c == 'try_value' and p[0] in ('l', 'm') for c, p in chain)}
        ctx.evals += 2
        if project(w, f) != chain:
            rep('normal_form', dict(base_keys, op='wrap'), {'sig': sig}, {'expected': chain, 'observed': project(w, f)})
            continue
        if argspec_of(w) != case['argspec']:
            rep('same_signature', dict(base_keys, op='getargspec'), {'sig': sig}, {'expected': case['argspec'], 'observed': argspec_of(w)})
        for cc, want in sorted(case['outs'], key=json.dumps):
            if want[0] == 'unspec':
                continue
            args, kwargs = realise(cc)
            call = outcome if 'cache' in classes else call_and_mutate
            got = call(w, *args, **kwargs)
            again = call(w, *args, **kwargs)                    # the same argument objects handed to a second call
            ctx.evals += 2
            keys = dict(base_keys, op='call')
            keys.update(describe(sig, classes, cc))
            if got != want or again != want:
                rep(call_clause(keys), keys, {'sig': sig, 'cc': cc, 'fail_mark': fail_mark(cc), 'second_call': got == want},
                    {'expected': want, 'observed': got, 'observed_again': again})
            elif [tagx(x) for x in args] != cc['pos'] or [[k, tagx(v)] for k, v in sorted(kwargs.items())] != cc['kw']:
                rep('argument_changed', keys, {'sig': sig, 'cc': cc}, {'observed_arguments': [[tagx(x) for x in args], tagx(kwargs)]})
            if fail_mark(cc) not in ('', 'bad'):
                ctx.note(('exc', json.dumps(kinds), fail_mark(cc), json.dumps(cc)))
        if n % 101 == 0:
            ctx.sample({'s2c_exc_case': {k: (v if k != 'outs' else v[:3]) for k, v in case.items()}})
        ctx.traces += 1


# ------------------------------------------------------------------------------------------------
# S2C (b''): every ORDER in which the keywords of a call can be written, the failing value in every place
# ------------------------------------------------------------------------------------------------
def s2c_order(ctx, rep, cases):
    cases.sort(key=lambda c: (len(c['kinds']), json.dumps(c['kinds']), json.dumps(c['sig'], sort_keys=True)))
    for n, case in enumerate(cases):
        sig, kinds, chain = case['sig'], case['kinds'], case['chain']
        f = base_function(sig)
        w = build_chain(kinds, f)
        classes = [c for c, _ in chain]
        ctx.evals += 1
        if project(w, f) != chain:
            rep('normal_form', {'part': 'order', 'op': 'wrap', 'kinds': kinds}, {'sig': sig}, {'expected': chain, 'observed': project(w, f)})
            continue
        call = outcome if 'cache' in classes else call_and_mutate
        for cc, want in sorted(case['outs'], key=json.dumps):
            if want[0] == 'unspec':
                continue
            names = [nm for nm, _ in cc['kw']]
            for perm in case['orders'][len(names) - 1]:           # every order TLC lists for that many keywords
                order = [names[i - 1] for i in perm]
                args, kwargs = spell(cc, order)
                got = call(w, *args, **kwargs)
                ctx.evals += 1
                if got != want:
                    keys = {'part': 'order', 'op': 'call', 'kinds': kinds, 'kw_reordered': order != names,
                            'first_param_written_first': bool(cc['pos']) or order[0] == 'a'}
                    keys.update(describe(sig, classes, cc))
                    rep(call_clause(keys), keys, {'sig': sig, 'cc': cc, 'order': order}, {'expected': want, 'observed': got})
                elif [tagx(x) for x in args] != cc['pos'] or [[k, tagx(v)] for k, v in sorted(kwargs.items())] != cc['kw']:
                    rep('argument_changed', {'part': 'order', 'op': 'call', 'kinds': kinds}, {'sig': sig, 'cc': cc, 'order': order},
                        {'observed_arguments': [[tagx(x) for x in args], tagx(kwargs)]})
            if len(names) >= 3:
                ctx.note(('order', json.dumps(kinds), json.dumps(cc)))
        if n % 53 == 0:
            ctx.sample({'s2c_order_case': {k: (v if k not in ('outs', 'orders') else v[:2]) for k, v in case.items()}})
        ctx.traces += 1


# ------------------------------------------------------------------------------------------------
# S2C (d): the caller's bindings: getcallargs / call_with_callargs on f and on W(f) / the caller's own edits, as histories
# ------------------------------------------------------------------------------------------------
def apply_edit(D, e):
    """the caller edits, in place, the binding it owns (Decorators.tla Edited)"""
    if e == 'set_first':
        D['a'] = 9
    elif e == 'fail_first':
        D['a'] = 'bad_bare'
    elif e == 'more_args':
        D['args'] = D['args'] + (8,)
    elif e == 'more_kw':
        D['kw']['z'] = 7
    else:
        raise Machinery('unknown edit %r' % (e,))


def run_args(sig, kind, hist):
    """replays a history; returns (outcome of the last call, the caller's bindings afterwards) or None when an earlier
    getcallargs did not even return a dict (reported by the shorter history that ends there)"""
    P = pyg()[0]
    f = base_function(sig)
    objs = [f, decorator_of_kind(kind)(f)]
    own = CLASS_OF.get(kind, kind) != 'cache'                  # never mutate what a memo serves (MemoisedResultIsShared)
    mine, got = [], None
    for step in hist:
        if step['op'] == 'get':
            args, kwargs = realise(step['cc'])
            try:
                D = P.getcallargs(objs[step['obj']], *args, **kwargs)
                got = tagx(D)
            except Exception as e:
                D, got = None, ["exc", type(e).__name__]
            if not isinstance(D, dict):
                return (got, [tagx(d) for d in mine]) if step is hist[-1] else None
            mine.append(D)
        elif step['op'] == 'replay':
            got = (call_and_mutate if own or step['obj'] == 0 else outcome)(P.call_with_callargs, objs[step['obj']], mine[step['i'] - 1])
        else:
            try:
                apply_edit(mine[step['i'] - 1], step['e'])
            except (KeyError, TypeError, AttributeError):     # not the binding getcallargs should have returned: the shorter
                return None                                   # history that ends with that getcallargs reports it
    return got, [tagx(d) for d in mine]


def args_keys(kind, hist):
    last = hist[-1]
    replays = [(s['i']) for s in hist if s['op'] == 'replay']
    return {'part': 'args', 'op': {'get': 'getcallargs', 'replay': 'call_with_callargs'}[last['op']], 'kind': kind if last['obj'] else 'none',
            'wrapper_in_session': kind, 'reused_binding': len(replays) > len(set(replays)) or (last['op'] == 'replay' and len(hist) > 2),
            'edited_binding': any(s['op'] == 'edit' for s in hist)}


def s2c_args(ctx, rep, cases):
    cases.sort(key=lambda c: (len(c['hist']), json.dumps(c['hist']), json.dumps(c['sig'], sort_keys=True), c['kind']))
    for n, case in enumerate(cases):
        sig, kind, hist = case['sig'], case['kind'], case['hist']
        r = run_args(sig, kind, hist)
        ctx.evals += len(hist)
        ctx.traces += 1
        if r is None:
            continue
        got, store = r
        keys = args_keys(kind, hist)
        last = hist[-1]
        if last['op'] == 'get' and got != case['out']:        # the new binding itself is wrong
            rep('getcallargs' + ('_wrapped' if last['obj'] else ''), keys, {'sig': sig, 'hist': hist}, {'expected': case['out'], 'observed': got})
        elif store != case['store']:                          # a call owns nothing of the caller
            rep('argument_changed', keys, {'sig': sig, 'hist': hist}, {'expected_bindings': case['store'], 'observed_bindings': store})
        elif case['out'][0] != 'unspec' and got != case['out']:
            rep('call_with_callargs' + ('_wrapped' if last['obj'] else ''), keys, {'sig': sig, 'hist': hist}, {'expected': case['out'], 'observed': got})
        if len(hist) > 1:
            ctx.note(('args', json.dumps([sig, hist], sort_keys=True)))
        if n % 1501 == 0:
            ctx.sample({'s2c_args_history': case})


# ------------------------------------------------------------------------------------------------
# S2C (e): ready-made decorator OBJECTS applied to two functions made from one code object
# ------------------------------------------------------------------------------------------------
def project2(o, fs):
    """abstraction function: decorated function -> {fn: which function it wraps (0 = none of the session's), chain}"""
    _, _, wrapper, _ = pyg()
    b = o
    while isinstance(b, wrapper):
        b = dict.get(b, 'function')
    for i, f in enumerate(fs):
        if b is f:
            return {'fn': i + 1, 'chain': project(o, f)}
    return {'fn': 0, 'chain': project(o, None)}


def run_deco(sig, twin, kinds, hist):
    fs = [base_function(sig), base_function(twin)]
    decos = [ready_made(k) for k in kinds]
    live, got = [], None
    for step in hist:
        if step['op'] == 'decorate':
            target = fs[-step['on'] - 1] if step['on'] < 0 else live[step['on'] - 1]
            live.append(decos[step['k'] - 1](target))
            got = None
        else:
            o = live[step['on'] - 1]
            args, kwargs = realise(step['cc'])
            before = [f.counter[0] for f in fs]
            cached = any(c == 'cache' for c, _ in project2(o, fs)['chain'])
            out = (outcome if cached else call_and_mutate)(o, *args, **kwargs)
            got = [out, [f.counter[0] - b for f, b in zip(fs, before)]]
    return got, [project2(o, fs) for o in live], [argspec_of(o) for o in live]


def s2c_deco(ctx, rep, cases):
    cases.sort(key=lambda c: (len(c['hist']), len(c['kinds']), json.dumps(c['hist']), json.dumps(c['kinds'])))
    for n, case in enumerate(cases):
        sig, kinds, hist, objs = case['sig'], case['kinds'], case['hist'], case['objs']
        got, heap, specs = run_deco(sig, case['twin'], kinds, hist)
        ctx.evals += len(hist)
        ctx.traces += 1
        last = hist[-1]
        chain = objs[last['on'] - 1]['chain'] if last['op'] == 'call' else objs[-1]['chain']
        classes = [c for c, _ in chain]
        keys = {'part': 'deco', 'op': last['op'], 'kinds': kinds, 'options_set': any(k in OPTIONS for k in kinds),
                'second_function': len({o['fn'] for o in objs}) > 1,
                'mutable_fallback': any(c == 'try_value' and p[0] in ('l', 'm') for c, p in chain)}
        keys.update(describe(sig, classes, last['cc']))
        body = {'sig': sig, 'hist': hist}
        if heap[:len(objs) - 1] != objs[:-1] and last['op'] == 'decorate':
            rep('only_new_object', keys, body, {'expected': objs, 'observed': heap})
        elif heap != objs:
            rep('normal_form' if last['op'] == 'decorate' else 'call_changed_an_object', keys, body, {'expected': objs, 'observed': heap})
        elif specs != [case['specs'][o['fn'] - 1] for o in objs]:
            rep('same_signature', dict(keys, op='getargspec'), body, {'expected': [case['specs'][o['fn'] - 1] for o in objs], 'observed': specs})
        elif last['op'] == 'call':
            want_out, want_evals = case['out']
            out, evals = got
            masked = [e if w != -1 else -1 for e, w in zip(evals, want_evals)]     # -1: the statement does not pin the count
            own = objs[last['on'] - 1]['fn'] - 1
            if want_out[0] != 'unspec' and out != want_out:
                rep(call_clause(keys), keys, body, {'expected': want_out, 'observed': out})
            elif masked[1 - own] != want_evals[1 - own]:
                rep('evaluates_other_function', keys, body, {'expected_evaluations': want_evals, 'observed': evals})
            elif masked != want_evals:
                rep('memo_evaluates_once' if want_evals[own] == 1 else 'memo_first_result', keys, body, {'expected_evaluations': want_evals, 'observed': evals})
        if len({o['fn'] for o in objs}) > 1 and sum(1 for s_ in hist if s_['op'] == 'call') > 1:
            ctx.note(('deco', json.dumps([kinds, hist], sort_keys=True)))
        if n % 1201 == 0:
            ctx.sample({'s2c_deco_history': case})


# ------------------------------------------------------------------------------------------------
# C2S: seeded random, larger and stranger observations for Trace_Decorators
# ------------------------------------------------------------------------------------------------
EXTRA_KW = ['x', 'y', 'z', 'w', 'value', 'types']
EXTRA_LAYERS = [['try_value', ["s", "failed"]], ['try_value', ["t", [["i", 1], ["i", 2]]]], ['try_value', ["i", 7]],
                ['try_value', ["l", []]], ['try_value', ["l", [["i", 1]]]], ['try_value', ["m", [["words", ["i", 0]]]]],   # mutable fallbacks
                ['pd2np', PD2NP_EXC], ['pd2np', ["l", [["s", "c"], ["s", "y"], ["s", "value"]]]]]            # pd2np(exc = [...])


def rand_sig(rng):
    npos = rng.randint(0, 4)
    ndef = rng.randint(0, npos)
    return {'npos': npos, 'ndef': ndef, 'varargs': rng.random() < 0.5, 'varkw': rng.random() < 0.5,
            'alt': ndef > 0 and rng.random() < 0.5}


def rand_value(rng, depth=0):
    r = rng.random()
    if r < 0.35 or depth >= 2:
        return ["i", rng.randint(-3, 60)]
    if r < 0.55:
        return ["s", rng.choice(['', 'u', 'kx', 'da', 'a', 'args', 'kw', 'Bad', 'bad '])]
    if r < 0.65:
        return NONE
    if r < 0.72:
        return ["b", rng.randint(0, 1)]
    if r < 0.8:
        return ["f", [rng.choice([1, 3, -5, 7]), rng.choice([2, 4, 8])]]
    return ["t", [rand_value(rng, depth + 1) for _ in range(rng.randint(0, 3))]]


def rand_call(rng, sig, allow_extra_kw, value=rand_value, bad=0.15, quiet=0.1):
    """a call that Python accepts for `sig` (or for kwargs_support(f) when extra keywords are allowed)"""
    npos, ndef = sig['npos'], sig['ndef']
    given = [i < npos - ndef or rng.random() < 0.6 for i in range(npos)]
    prefix = 0
    while prefix < npos and given[prefix]:
        prefix += 1
    k = rng.randint(0, prefix)
    pos = [value(rng) for _ in range(k)]
    if sig['varargs'] and k == npos:
        pos += [value(rng) for _ in range(rng.choice([0, 0, 1, 2, 5]))]
    kw = [[NAMES[i], value(rng)] for i in range(k, npos) if given[i]]
    if allow_extra_kw:
        kw += [[n, value(rng)] for n in rng.sample(EXTRA_KW, rng.choice([0, 0, 1, 2, 4]))]
    kw.sort()
    if rng.random() < bad and (pos or kw):
        j = rng.randrange(len(pos) + len(kw))
        mark = ["s", "bad" if rng.random() < 0.4 else rng.choice(FAIL_MARKS)]      # every way the base function can fail
        if j < len(pos):
            pos[j] = mark
        else:
            kw[j - len(pos)][1] = mark
    if rng.random() < quiet and (pos or kw):                  # the base function returns None for this call
        j = rng.randrange(len(pos) + len(kw))
        if j < len(pos):
            pos[j] = ["s", "quiet"]
        else:
            kw[j - len(pos)][1] = ["s", "quiet"]
    return {'pos': pos, 'kw': kw}


def observe_bind(rng, sig=None, cc=None):
    P = pyg()[0]
    if sig is None:
        sig = rand_sig(rng)
        cc = rand_call(rng, sig, allow_extra_kw=sig['varkw'] or rng.random() < 0.4)
    f = base_function(sig)
    order = kw_order(rng, cc)                                 # the order the keywords are written in, for every call below
    args, kwargs = spell(cc, order)
    o = {'part': 'bind', 'sig': sig, 'cc': cc, 'order': order, 'argspec': py_argspec_of(f), 'pyg_argspec': argspec_of(f),
         'inspect': outcome(inspect.getcallargs, f, *args, **kwargs), 'self': outcome(f, *args, **kwargs),
         'getcallargs': outcome(P.getcallargs, f, *args, **kwargs)}
    try:
        o['cwc'] = outcome(P.call_with_callargs, f, P.getcallargs(f, *args, **kwargs))
    except Exception as e:
        o['cwc'] = ["exc", type(e).__name__]
    layers = []
    opt = rng.sample(sorted(OPTIONS), 2)                        # two wrappers with optional parameters set
    for layer, kind in [(layer_of(k), k) for k in BIND_KINDS + opt] + [(rng.choice(EXTRA_LAYERS), None), (EXTRA_LAYERS[-1], None)]:
        w = (decorator_of_kind(kind) if kind in OPTIONS else decorator(layer))(f)
        rec = {'layer': layer, 'out': (outcome if layer[0] == 'cache' else call_and_mutate)(w, *args, **kwargs), 'argspec': argspec_of(w),
               'gca': outcome(P.getcallargs, w, *args, **kwargs), 'kind': kind or ''}
        try:
            rec['cwc'] = outcome(P.call_with_callargs, w, P.getcallargs(w, *args, **kwargs))
        except Exception as e:
            rec['cwc'] = ["exc", type(e).__name__]
        layers.append(rec)
    o['layers'] = layers
    return o


def observe_hist(rng, nmax):
    sig = rand_sig(rng)
    f = base_function(sig, counting=True)
    live, events = [], []
    plain = [rand_call(rng, sig, allow_extra_kw=sig['varkw']) for _ in range(rng.randint(2, 4))]
    extra = [rand_call(rng, sig, allow_extra_kw=True) for _ in range(2)]
    for _ in range(rng.randint(6, nmax)):
        if not live or (len(live) < 8 and rng.random() < 0.35):
            layer = layer_of(rng.choice(KINDS)) if rng.random() < 0.85 else rng.choice(EXTRA_LAYERS)
            target = rng.randint(0, len(live))
            live.append(decorator(layer)(f if target == 0 else live[target - 1]))
            events.append({'op': 'wrap', 'layer': layer, 'target': target, 'heap': [project(o, f) for o in live],
                           'specs': [argspec_of(o) for o in live], 'evals': f.counter[0]})
        else:
            i = rng.randint(0, len(live))
            classes = [c for c, _ in project(live[i - 1], f)] if i > 0 else []
            cc = rng.choice(plain + extra if ('kwargs_support' in classes or sig['varkw']) else plain)
            order = kw_order(rng, cc)
            args, kwargs = spell(cc, order)
            own = 'cache' not in classes and rng.random() < 0.6   # the caller mutates what it was given (never what a memo serves)
            out = (call_and_mutate if own else outcome)(f if i == 0 else live[i - 1], *args, **kwargs)
            events.append({'op': 'call', 'obj': i, 'cc': cc, 'order': order, 'out': out, 'heap': [project(o, f) for o in live], 'evals': f.counter[0]})
            if own and out[0] in ('l', 'm'):
                events.append({'op': 'mutate'})
    return {'part': 'hist', 'sig': sig, 'events': events}


def observe_args(rng, nmax):
    """a session on the caller's bindings: getcallargs / call_with_callargs on f and on W(f) / the caller's own edits"""
    P = pyg()[0]
    sig = rand_sig(rng)
    kind = rng.choice(BIND_KINDS + sorted(OPTIONS))
    layer = layer_of(kind)
    f = base_function(sig)
    objs = [f, decorator_of_kind(kind)(f)]
    own = layer[0] != 'cache'
    pool = [rand_call(rng, sig, allow_extra_kw=sig['varkw']) for _ in range(rng.randint(1, 3))]
    edits = [e for e, ok in (('set_first', sig['npos'] >= 1), ('fail_first', sig['npos'] >= 1), ('more_args', sig['varargs']), ('more_kw', sig['varkw'])) if ok]
    mine, events = [], []
    empty = {'pos': [], 'kw': []}
    for _ in range(rng.randint(3, nmax)):
        r = rng.random()
        if not mine or (len(mine) < 4 and r < 0.25):
            o, cc = rng.randint(0, 1), rng.choice(pool)
            order = kw_order(rng, cc)
            args, kwargs = spell(cc, order)
            try:
                D = P.getcallargs(objs[o], *args, **kwargs)
                out = tagx(D)
            except Exception as e:
                D, out = None, ["exc", type(e).__name__]
            if isinstance(D, dict):
                mine.append(D)
            events.append({'op': 'get', 'obj': o, 'cc': cc, 'order': order, 'i': 0, 'e': '', 'out': out})
        elif edits and r < 0.5:
            i, e = rng.randrange(len(mine)), rng.choice(edits)
            try:
                apply_edit(mine[i], e)
            except (KeyError, TypeError, AttributeError):     # not a binding of this signature: the get event before is rejected
                break
            events.append({'op': 'edit', 'obj': 0, 'cc': empty, 'i': i + 1, 'e': e, 'out': NONE})
        else:
            o, i = rng.randint(0, 1), rng.randrange(len(mine))
            out = (call_and_mutate if own or o == 0 else outcome)(P.call_with_callargs, objs[o], mine[i])
            events.append({'op': 'replay', 'obj': o, 'cc': empty, 'i': i + 1, 'e': '', 'out': out})
        events[-1]['store'] = [tagx(d) for d in mine]
        if events[-1]['op'] == 'get' and events[-1]['out'][0] == 'exc':
            break                                             # the specification rejects this event: nothing after it is judged
    return {'part': 'args', 'sig': sig, 'kind': kind, 'layer': layer, 'events': events}


def deco_value(rng, depth=0):
    r = rng.random()
    if r < 0.45 or depth >= 2:
        return ["i", rng.randint(-2, 3)]
    if r < 0.65:
        return ["s", rng.choice(['u', 'v', '1'])]
    if r < 0.75:
        return NONE
    return ["t", [deco_value(rng, depth + 1) for _ in range(rng.randint(0, 2))]]


def observe_deco(rng, nmax):
    """a session with three functions made from one code object (the second with other defaults) and one to three
    ready-made decorator objects applied to them and to each other's results"""
    sig = dict(rand_sig(rng), alt=False)
    sigs = [sig, dict(sig, alt=True), sig]
    fs = [base_function(s_) for s_ in sigs]
    kinds = [rng.choice(BIND_KINDS + sorted(OPTIONS)) for _ in range(rng.randint(1, 3))]
    layers = [layer_of(k) for k in kinds]
    decos = [ready_made(k) for k in kinds]
    plain = [rand_call(rng, sig, allow_extra_kw=sig['varkw'], value=deco_value, bad=0.25, quiet=0.05) for _ in range(rng.randint(1, 3))]
    extra = [rand_call(rng, sig, allow_extra_kw=True, value=deco_value, bad=0.25, quiet=0.05)]
    live, events = [], []
    empty = {'pos': [], 'kw': []}
    for _ in range(rng.randint(5, nmax)):
        if len(live) < 2 or (len(live) < 7 and rng.random() < 0.25):
            k = rng.randrange(len(kinds))
            on = -rng.randint(1, 3) if (len(live) < 2 or rng.random() < 0.6) else rng.randint(1, len(live))
            live.append(decos[k](fs[-on - 1] if on < 0 else live[on - 1]))
            events.append({'op': 'decorate', 'k': k + 1, 'on': on, 'cc': empty, 'out': NONE, 'evals': [0, 0, 0]})
        else:
            i = rng.randrange(len(live))
            classes = [c for c, _ in project2(live[i], fs)['chain']]
            cc = rng.choice(plain + extra if ('kwargs_support' in classes or sig['varkw']) else plain)
            order = kw_order(rng, cc)
            args, kwargs = spell(cc, order)
            before = [f.counter[0] for f in fs]
            out = (outcome if 'cache' in classes else call_and_mutate)(live[i], *args, **kwargs)
            events.append({'op': 'call', 'k': 0, 'on': i + 1, 'cc': cc, 'order': order, 'out': out, 'evals': [f.counter[0] - b for f, b in zip(fs, before)]})
        events[-1]['heap'] = [project2(o, fs) for o in live]
        events[-1]['specs'] = [argspec_of(o) for o in live] if events[-1]['op'] == 'decorate' else []
    return {'part': 'deco', 'sigs': sigs, 'kinds': kinds, 'layers': layers, 'events': events}


def memo_value(rng, depth=0):
    r = rng.random()
    if r < 0.3 or depth >= 2:
        return ["i", rng.randint(-2, 3)]                      # -1 and -2: distinct values with one hash in CPython
    if r < 0.45:
        return ["s", rng.choice(['u', 'v', '1'])]
    if r < 0.5:
        return NONE
    if r < 0.7:
        return [rng.choice(["t", "l"]), [["i", 1], ["i", 2]][:rng.randint(1, 2)]]       # tuple / list twins
    if r < 0.8:
        return ["set", [["i", 1], ["i", 2]][:rng.randint(1, 2)]]
    if r < 0.9:
        return ["m", [["p", ["i", rng.randint(1, 2)]]]]
    return ["t", [memo_value(rng, depth + 1) for _ in range(rng.randint(0, 2))]]


def untwin(cc, flip={'t': 'l', 'l': 't'}):
    """cc with the first tuple argument turned into a list or vice versa (None when it has neither)"""
    c = copy.deepcopy(cc)
    for v in c['pos'] + [v for _, v in c['kw']]:
        if v[0] in flip:
            v[0] = flip[v[0]]
            return c
    return None


def same_but_list_tuple(c1, c2):
    norm = lambda c: json.loads(json.dumps(c).replace('"l"', '"t"'))
    return c1 != c2 and norm(c1) == norm(c2)


def observe_memo(rng, nmax):
    cache = pyg()[3]
    sig = rand_sig(rng)
    f = base_function(sig, counting=True)
    c = cache(f)
    keys = [rand_call(rng, sig, allow_extra_kw=sig['varkw'], value=memo_value, bad=0.05) for _ in range(rng.randint(2, 8))]
    if rng.random() < 0.4:                                    # the same call with a list where the other has a tuple
        twin = untwin(rng.choice(keys))
        if twin is not None:
            keys.append(twin)
    events = []
    for _ in range(rng.randint(5, nmax)):
        cc = rng.choice(keys)
        order = kw_order(rng, cc)
        args, kwargs = spell(cc, order)
        events.append({'cc': cc, 'order': order, 'out': outcome(c, *args, **kwargs), 'evals': f.counter[0]})
    return {'part': 'memo', 'sig': sig, 'events': events}


# ------------------------------------------------------------------------------------------------
# C2S, scaled: LONG histories on ONE object.  The laws are laws of histories of any length (Decorators.tla (c'):
# MemoScales / TransparentForever); TLC decides the small pattern, the trace specification folds the long one.
# ------------------------------------------------------------------------------------------------
SIG_AB = {'npos': 2, 'ndef': 1, 'varargs': False, 'varkw': False, 'alt': False}        # f(a, b='db')
SIG_STAR = {'npos': 1, 'ndef': 0, 'varargs': True, 'varkw': True, 'alt': False}        # f(a, *args, **kw)
SIG_ABC = {'npos': 3, 'ndef': 2, 'varargs': False, 'varkw': True, 'alt': False}        # f(a, b='db', c='dc', **kw)
LONG_SHAPES = {                                             # the i-th distinct combination of arguments, as passed
    'positional': (SIG_AB, lambda i: {'pos': [["i", i]], 'kw': []}),                                   # f(i)
    'keyword': (SIG_AB, lambda i: {'pos': [], 'kw': [['a', ["i", 1]], ['b', ["i", i]]]}),             # f(a=1, b=i)
    'mixed': (SIG_AB, lambda i: {'pos': [["i", 1]], 'kw': [['b', ["i", i]]]}),                        # f(1, b=i)
    'container': (SIG_AB, lambda i: {'pos': [["t", [["i", i // 16], ["t", [["s", 'k%d' % (i % 16)], NONE]]]]], 'kw': []}),   # f((i//16, ('k3', None)))
    'str': (SIG_AB, lambda i: {'pos': [["s", 'key%d' % i]], 'kw': []}),                               # f('key7')
    'varargs': (SIG_STAR, lambda i: {'pos': [["i", 1], ["i", i % 7], ["i", i // 7]], 'kw': []}),      # f(1, i%7, i//7)
    'extra_kw': (SIG_STAR, lambda i: {'pos': [["i", i % 5]], 'kw': [['x', ["i", i // 5]], ['y', ["s", "ky"]]]}),   # f(i%5, x=i//5, y='ky')
    'three_kw': (SIG_ABC, lambda i: {'pos': [], 'kw': [['a', ["i", i % 3]], ['c', ["i", i // 3]], ['z', NONE]]}),  # f(a=i%3, c=i//3, z=None)
    # keywords that f does not declare: only for kwargs_support(f) and what is built on it
    'dropped_kw': (SIG_AB, lambda i: {'pos': [], 'kw': [['a', ["i", i % 3]], ['b', ["i", i // 3]], ['x', ["i", i % 4]]]}),   # f(a=i%3, b=i//3, x=i%4)
}


def long_schedule(n, rng):
    """indices of the combinations called: n distinct ones in order (every 37th repeated on the spot), then repeats of
    early, middle and late ones, a further new one, and the early ones once more"""
    idx = []
    for i in range(n):
        idx.append(i)
        if i % 37 == 36:
            idx.append(i)
    early, middle, late = [0, 1, 2, 15, 16], [n // 2 - 1, n // 2, n // 4, 3 * n // 4], [n - 1, n - 2, n - 17]
    again = early + middle + late + [rng.randrange(n) for _ in range(20)]
    idx += again + [n, n + 1] + early[::-1] + [n, rng.randrange(n)]
    return idx


def kw_order(rng, cc):
    """an order in which the keywords of cc are WRITTEN at the call site (Decorators.tla IsSpelling)"""
    names = [n for n, _ in cc['kw']]
    rng.shuffle(names)
    return names


def spell(cc, order):
    vals = dict((n, v) for n, v in cc['kw'])
    return tuple(untagx(v) for v in cc['pos']), {n: untagx(vals[n]) for n in order}


def observe_long_memo(rng, shape, n):
    """cache(f) for a counting f: n distinct combinations of one shape, then repeats (part "memo")"""
    cache = pyg()[3]
    sig, key = LONG_SHAPES[shape]
    f = base_function(sig, counting=True)
    c = cache(f)
    events = []
    for i in long_schedule(n, rng):
        cc = key(i)
        order = kw_order(rng, cc)
        args, kwargs = spell(cc, order)
        events.append({'cc': cc, 'order': order, 'out': outcome(c, *args, **kwargs), 'evals': f.counter[0]})
    return {'part': 'memo', 'sig': sig, 'events': events, 'long': {'shape': shape, 'distinct': n + 2, 'object': 'cache(f)'}}


# (chain of kinds outermost first, shapes of the combinations it is called with)
LONG_CHAINS = [(['try_none', 'cache'], ['positional', 'extra_kw']), (['kwargs_support', 'cache'], ['mixed', 'three_kw']),
               (['cache', 'try_back'], ['keyword', 'container']), (['cache', 'kwargs_support'], ['dropped_kw', 'str']),
               (['pd2np', 'cache'], ['container', 'varargs']), (['cache', 'loops'], ['str', 'keyword']),
               (['try_zero', 'kwargs_support', 'cache'], ['varargs', 'positional']), (['cache', 'try_list'], ['three_kw', 'mixed']),
               # no memo: transparency after many calls on one wrapper object
               (['try_back'], ['three_kw']), (['kwargs_support'], ['dropped_kw']), (['loops'], ['keyword']), (['pd2np'], ['extra_kw']),
               (['try_zero'], ['mixed']), (['try_back', 'kwargs_support'], ['dropped_kw']), (['pd2np_exc', 'try_none'], ['varargs'])]


def observe_long_hist(rng, kinds, shape, n):
    """one wrapper object (the chain `kinds` over a counting f) called n times and more (part "hist").  With a cache layer:
    n distinct combinations, then repeats.  Without: calls drawn from a pool of ordinary, failing and quiet ones, the
    same combination coming back after hundreds of others."""
    sig, key = LONG_SHAPES[shape]
    f = base_function(sig, counting=True)
    live, events = [], []
    for k, kind in enumerate(reversed(kinds)):
        layer = layer_of(kind)
        live.append(decorator(layer)(f if k == 0 else live[-1]))
        events.append({'op': 'wrap', 'layer': layer, 'target': k, 'heap': [project(o, f) for o in live],
                       'specs': [argspec_of(o) for o in live], 'evals': f.counter[0]})
    w = live[-1]
    classes = [c for c, _ in project(w, f)]
    memo = 'cache' in classes
    extra_ok = sig['varkw'] or 'kwargs_support' in classes
    sched = long_schedule(n, rng) if memo else [rng.randrange(40) for _ in range(n)]
    for j, i in enumerate(sched):
        cc = key(i)
        if not memo:
            cc = copy.deepcopy(cc)
            r = (i * 7 + 3) % 10                              # a property of the combination, not of the moment
            if r == 0:                                        # f raises: the marker is the first argument / the last one
                mark = ["s", FAIL_MARKS[i % 8]]
                if i % 2 and cc['kw']:
                    cc['kw'][-1][1] = mark
                elif cc['pos']:
                    cc['pos'][0] = mark
                else:
                    cc['kw'][0][1] = mark
            elif r == 1 and cc['pos']:
                cc['pos'][0] = ["s", "quiet"]
            elif r == 2 and extra_ok:
                cc['kw'] = sorted(cc['kw'] + [['w', ["i", i]], ['value', ["s", "u"]]])
        order = kw_order(rng, cc)
        args, kwargs = spell(cc, order)
        below = [c for c, _ in project(live[-2], f)] if len(live) > 1 else []
        valid_below = sig['varkw'] or 'kwargs_support' in below or all(nm in NAMES[:sig['npos']] for nm, _ in cc['kw'])
        obj = len(live) - 1 if (not memo and j % 50 == 0 and valid_below) else len(live)       # now and then the object underneath (0 = f itself)
        own = not memo and j % 3 == 0
        out = (call_and_mutate if own else outcome)(f if obj == 0 else live[obj - 1], *args, **kwargs)
        events.append({'op': 'call', 'obj': obj, 'cc': cc, 'order': order, 'out': out, 'heap': [project(o, f) for o in live], 'evals': f.counter[0]})
        if own and out[0] in ('l', 'm'):
            events.append({'op': 'mutate'})
    return {'part': 'hist', 'sig': sig, 'events': events, 'long': {'shape': shape, 'distinct': n + 2 if memo else 40, 'object': kinds}}


def observe_long_deco(rng, kind, shape, n):
    """ONE ready-made decorator object applied to two functions made from one code object; each decorated function is
    called with n distinct combinations (interleaved), then with repeats (part "deco")"""
    sig, key = LONG_SHAPES[shape]
    sigs = [sig, dict(sig, alt=True)] if sig['ndef'] else [sig, sig]
    fs = [base_function(s_) for s_ in sigs]
    deco = ready_made(kind)
    live, events = [], []
    empty = {'pos': [], 'kw': []}
    for fn in (1, 2):
        live.append(deco(fs[fn - 1]))
        events.append({'op': 'decorate', 'k': 1, 'on': -fn, 'cc': empty, 'order': [], 'out': NONE, 'evals': [0, 0],
                       'heap': [project2(o, fs) for o in live], 'specs': [argspec_of(o) for o in live]})
    heap = [project2(o, fs) for o in live]
    cached = 'cache' in [c for c, _ in heap[0]['chain']]
    for j, i in enumerate(long_schedule(n, rng)):
        for on in ((1, 2) if j % 2 == 0 else (2, 1)):
            cc = key(i)
            order = kw_order(rng, cc)
            args, kwargs = spell(cc, order)
            before = [f.counter[0] for f in fs]
            out = (outcome if cached else call_and_mutate)(live[on - 1], *args, **kwargs)
            events.append({'op': 'call', 'k': 0, 'on': on, 'cc': cc, 'order': order, 'out': out, 'evals': [f.counter[0] - b for f, b in zip(fs, before)],
                           'heap': [project2(o, fs) for o in live] if j % 97 == 0 else heap, 'specs': []})
    return {'part': 'deco', 'sigs': sigs, 'kinds': [kind], 'layers': [layer_of(kind)], 'events': events,
            'long': {'shape': shape, 'distinct': n + 2, 'object': kind}}


def observe_wide_bind(rng, width):
    """one call with MANY members: `width` extra positional arguments and `width` extra keywords (part "bind")"""
    sig = dict(rng.choice([SIG_STAR, {'npos': 2, 'ndef': 1, 'varargs': True, 'varkw': True, 'alt': False}]))
    cc = {'pos': [["i", 1], ["i", 2]] + [["i", j % 50] for j in range(width)],
          'kw': sorted([['k%04d' % j, ["i", j % 9]] for j in range(width)] + [['x', ["s", "kx"]]])}
    if width % 2 == 0:                                        # f raises on the LAST of many arguments
        cc['pos'][-1] = ["s", "bad_bare"]
    return dict(observe_bind(rng, sig, cc), long={'shape': 'wide_call', 'distinct': width, 'object': 'every layer'})


def long_observations(ctx):
    rng = ctx.rng
    obs = []
    shapes = sorted(s_ for s_ in LONG_SHAPES if s_ != 'dropped_kw')
    # cache(f): every shape at 300; 1100 (2100) in rotation
    for k, shape in enumerate(shapes):
        obs.append(observe_long_memo(rng, shape, 300))
        if not ctx.quick or k % 2 == 0:
            obs.append(observe_long_memo(rng, shape, 1100))
        if not ctx.quick and k % 3 == 0:
            obs.append(observe_long_memo(rng, shape, 2100))
    # every other memoising wrapper of the universe (chains with a cache layer), every non-memo wrapper: one object, a long history
    for k, (kinds, shs) in enumerate(LONG_CHAINS):
        memo = 'cache' in kinds
        obs.append(observe_long_hist(rng, kinds, shs[0], 300 if memo else 400))
        if memo and (not ctx.quick or k % 4 == 0):
            obs.append(observe_long_hist(rng, kinds, shs[1], 1100))
    for width in ([17, 66, 257] if ctx.quick else [17, 65, 66, 101, 257, 513]):
        obs.append(observe_wide_bind(rng, width))
    for k, kind in enumerate(['cache'] + ([] if ctx.quick else ['try_back', 'kwargs_support', 'try_zero_verbose'])):
        obs.append(observe_long_deco(rng, kind, ('positional', 'mixed', 'keyword', 'str')[k], 300))
    if not ctx.quick:
        obs.append(observe_long_deco(rng, 'cache', 'container', 1100))
    return obs


def long_canaries(obs):
    """a long history whose LAST repeat of an early combination was evaluated once more / a keyword order that is no spelling
    of the call / a late call on a wrapper object that returned something else: the trace specification must reject them"""
    out = []
    o = copy.deepcopy([x for x in obs if x['part'] == 'memo' and x['long']['distinct'] > 1000][0])
    k = len(o['events']) - 2                                  # the new combination n called a second time
    for e in o['events'][k:]:
        e['evals'] += 1
    o['events'][k]['out'][1][1] = ["i", o['events'][k]['evals']]
    out.append(dict(o, canary=True))
    o = copy.deepcopy([x for x in obs if x['part'] == 'memo' and x['events'][-1]['order']][0])
    o['events'][-1]['order'][0] = 'nobody'
    out.append(dict(o, canary=True))
    o = copy.deepcopy([x for x in obs if x['part'] == 'hist' and x['long']['object'] == ['try_back']][0])
    e = [e for e in o['events'] if e['op'] == 'call' and e['out'][0] == 't'][-1]
    e['out'][1][0][1][0][1] = ["s", "corrupted"]
    out.append(dict(o, canary=True))
    return out


def canaries(obs):
    """binding check of the trace specification: one corrupted copy per part, which it must reject"""
    out = []
    for part in ('bind', 'hist', 'memo', 'args', 'deco'):
        for o in obs:
            if o['part'] != part:
                continue
            c = copy.deepcopy(o)
            if part == 'bind' and o['inspect'][0] == 'm' and o['inspect'][1]:
                c['getcallargs'][1][0][1] = ["s", "corrupted"]
            elif part == 'hist' and any(e['op'] == 'wrap' and len(e['heap']) > 1 for e in o['events']):
                e = [e for e in c['events'] if e['op'] == 'wrap' and len(e['heap']) > 1][0]
                e['heap'][0] = e['heap'][0] + [['pd2np', NONE], ['pd2np', NONE]]
            elif part == 'memo' and len(o['events']) > 1:
                c['events'][-1]['evals'] += 1
            elif part == 'args' and any(e['op'] == 'replay' and e['store'][e['i'] - 1][1] for e in o['events']):
                e = [e for e in c['events'] if e['op'] == 'replay' and e['store'][e['i'] - 1][1]][0]
                e['store'][e['i'] - 1][1].pop()               # the replay lost an entry of the caller's binding
            elif part == 'deco' and any(e['op'] == 'call' for e in o['events']):
                e = [e for e in c['events'] if e['op'] == 'call'][-1]
                e['evals'][[x['fn'] for x in e['heap']][e['on'] - 1] % 3] += 1       # another function was evaluated
            else:
                continue
            c['canary'] = True
            out.append(c)
            break
    return out


def hist_case(o, clause_at):
    """the failing event of a rejected history, with stable keys"""
    clause, _, at = clause_at.partition('@')
    if o['part'] == 'bind':
        layer = o['layers'][int(at) - 1]['layer'] if at else ['none', NONE]
        keys = {'part': 'bind', 'op': 'c2s', 'kind': layer[0], 'mutable_fallback': layer[1][0] in ('l', 'm')}
        keys.update(describe(o['sig'], [layer[0]], o['cc']))
        return clause, keys, {'sig': o['sig'], 'cc': o['cc']}, {k: o[k] for k in ('inspect', 'pyg_argspec', 'getcallargs', 'cwc')} | {'layers': [[w['layer'], w['out']] for w in o['layers']]}
    i = int(at) if at else len(o['events'])
    e = o['events'][i - 1]
    if 'long' in o:                                           # a long history: the failing call and where the history stood, not 1400 events
        seen = [json.dumps(x['cc']) for x in o['events'][:i - 1] if 'cc' in x]
        me = json.dumps(e.get('cc'))
        chain = o['long']['object'] if isinstance(o['long']['object'], list) else [o['long']['object']]
        keys = {'part': o['part'], 'op': 'call', 'long_history': True, 'shape': o['long']['shape'], 'object': o['long']['object'],
                'cache': any('cache' in k for k in chain), 'try': any(k.startswith('try') for k in chain),
                'kwargs_support': 'kwargs_support' in chain, 'kw_reordered': e.get('order') != [nm for nm, _ in e.get('cc', {}).get('kw', [])]}
        case = {'sig': o.get('sig', o.get('sigs')), 'call': e.get('cc'), 'order': e.get('order'), 'event': i, 'distinct_combinations_before': len(set(seen)),
                'first_called_at': seen.index(me) + 1 if me in seen else 0}
        return clause, keys, case, {'observed': e.get('out'), 'evaluations': e.get('evals')}
    if o['part'] == 'args':
        replays = [x['i'] for x in o['events'][:i] if x['op'] == 'replay']
        keys = {'part': 'args', 'op': {'get': 'getcallargs', 'replay': 'call_with_callargs', 'edit': 'edit'}[e['op']], 'kind': o['kind'] if e['obj'] else 'none',
                'wrapper_in_session': o['kind'], 'reused_binding': len(replays) > len(set(replays)),
                'edited_binding': any(x['op'] == 'edit' for x in o['events'][:i]), 'options_set': o['kind'] in OPTIONS}
        return clause, keys, {'sig': o['sig'], 'events': [{k: v for k, v in x.items() if k not in ('store', 'out')} for x in o['events'][:i]]}, {'observed': e['out'], 'observed_bindings': e['store']}
    if o['part'] == 'deco':
        chain = e['heap'][e['on'] - 1]['chain'] if e['op'] == 'call' and 0 < e['on'] <= len(e['heap']) else (e['heap'][-1]['chain'] if e['heap'] else [])
        keys = {'part': 'deco', 'op': e['op'], 'kinds': o['kinds'], 'options_set': any(k in OPTIONS for k in o['kinds']),
                'second_function': len({x['fn'] for x in e['heap']}) > 1, 'mutable_fallback': any(c == 'try_value' and p[0] in ('l', 'm') for c, p in chain)}
        keys.update(describe(o['sigs'][0], [c for c, _ in chain], e['cc'], eager=True))
        return clause, keys, {'sigs': o['sigs'], 'events': [{k: v for k, v in x.items() if k != 'specs'} for x in o['events'][:i]]}, {'observed': e['out'], 'evaluations': e['evals']}
    if o['part'] == 'memo':
        kinds = {v[0] for v in e['cc']['pos']} | {v[0] for _, v in e['cc']['kw']}
        return clause, {'part': 'memo', 'op': 'call', 'cache': True, 'unhashable_arg': bool(kinds & {'l', 'm', 'set'}),
                        'quiet_passed': ["s", "quiet"] in (list(e['cc']['pos']) + [v for _, v in e['cc']['kw']]),
                        'list_tuple_twin': any(same_but_list_tuple(x['cc'], e['cc']) for x in o['events'][:i - 1])}, {'sig': o['sig'], 'calls': [x['cc'] for x in o['events'][:i]]}, {'observed': [x['out'] for x in o['events'][:i]]}
    if e['op'] == 'wrap':
        return clause, {'part': 'hist', 'op': 'wrap'}, {'sig': o['sig'], 'events': [{k: v for k, v in x.items() if k != 'specs'} for x in o['events'][:i]]}, {'observed_heap': e['heap']}
    heap = [x for x in o['events'][:i] if x['op'] == 'wrap']
    chain = heap[-1]['heap'][e['obj'] - 1] if e['obj'] > 0 and heap else []
    keys = {'part': 'hist', 'op': 'call', 'mutable_fallback': any(c == 'try_value' and p[0] in ('l', 'm') for c, p in chain)}
    keys.update(describe(o['sig'], [c for c, _ in chain], e['cc'], eager=True))
    return clause, keys, {'sig': o['sig'], 'events': [{k: v for k, v in x.items() if k != 'specs'} for x in o['events'][:i]]}, {'observed': e['out']}


CHUNK = 2500


def c2s(ctx, rep, nbind, nhist, nmemo, nargs, ndeco):
    rng = ctx.rng
    obs = [observe_bind(rng) for _ in range(nbind)]
    obs += [observe_hist(rng, 18 if ctx.quick else 30) for _ in range(nhist)]
    obs += [observe_memo(rng, 20 if ctx.quick else 40) for _ in range(nmemo)]
    obs += [observe_args(rng, 10 if ctx.quick else 16) for _ in range(nargs)]
    obs += [observe_deco(rng, 14 if ctx.quick else 24) for _ in range(ndeco)]
    nshort = len(obs)
    longs = long_observations(ctx)                            # scaled histories: one object, hundreds / thousands of calls
    obs += [o for o in longs if o['part'] == 'bind']          # (one call with very many members)
    nwide = len(obs) - nshort
    obs += [o for o in longs if o['part'] != 'bind']
    ctx.evals += sum(1 + 3 * len(o['layers']) if o['part'] == 'bind' else sum(1 for e in o['events'] if e.get('op') != 'mutate') for o in obs)
    nreal = len(obs)
    obs += canaries(obs[:nshort])
    if len(obs) != nreal + 5:
        raise Machinery('could not build the five corrupted observations')
    obs += long_canaries(obs[nshort:nreal])
    if len(obs) != nreal + 8:
        raise Machinery('could not build the three corrupted long observations')
    bad = {}
    # the long histories are behaviours of Trace_DecoratorsLong (one step per recorded event); everything else is a batch
    batch = [k for k, o in enumerate(obs) if 'events' not in o or 'long' not in o]
    hists = [k for k, o in enumerate(obs) if 'events' in o and 'long' in o]
    for lo in range(0, len(batch), CHUNK):                    # one TLC start per chunk keeps the log inside TLC's heap
        for i, clause in ctx.validate('Trace_Decorators', [obs[k] for k in batch[lo:lo + CHUNK]]):
            bad[batch[lo + i - 1] + 1] = clause
    nev = sum(len(obs[k]['events']) for k in hists)
    for i, clause in ctx.validate('Trace_DecoratorsLong', [obs[k] for k in hists], expect_states=len(hists) + sum((len(obs[k]['events']) + 31) // 32 for k in hists)):
        bad[hists[i - 1] + 1] = clause
    ctx.extra['long_histories'] = {'histories': len(hists), 'events': nev, 'wide_calls': nwide,
                                   'longest': max(len(obs[k]['events']) for k in hists)}
    for i in range(nreal + 1, len(obs) + 1):
        if i not in bad:
            raise Machinery('Trace_Decorators accepted a corrupted %s observation' % obs[i - 1]['part'])
    for i, clause in sorted(bad.items()):
        if i > nreal:
            continue
        if clause.startswith('spec_'):
            raise Machinery('the trace specification or the driver is wrong (%s) on %s' % (clause, json.dumps(obs[i - 1])[:600]))
        cl, keys, case, detail = hist_case(obs[i - 1], clause)
        rep(cl, keys, case, detail)
    for o in obs[:nreal]:
        if o['part'] == 'bind' and (o['cc']['kw'] or len(o['cc']['pos']) > o['sig']['npos']):
            ctx.note(('c2s-bind', json.dumps([o['sig'], o['cc']], sort_keys=True)))
        elif o['part'] == 'hist' and sum(1 for e in o['events'] if e['op'] == 'wrap') >= 2:
            ctx.note(('c2s-hist', json.dumps(o['events'], sort_keys=True)))
        elif 'long' in o:
            ctx.note(('c2s-long', o['part'], json.dumps(o['long'], sort_keys=True)))
        elif o['part'] == 'memo':
            ctx.note(('c2s-memo', json.dumps(o['events'], sort_keys=True)))
        elif o['part'] in ('args', 'deco') and len(o['events']) > 2:
            ctx.note(('c2s-' + o['part'], json.dumps(o['events'], sort_keys=True)))
    ctx.sample({'c2s_long_history': dict(obs[hists[0]], events=obs[hists[0]]['events'][:2] + obs[hists[0]]['events'][-2:])}, limit=9)
    ctx.sample({'c2s_history': obs[nbind + nhist // 2]})
    ctx.sample({'c2s_memo': obs[nbind + nhist + nmemo // 2]})
    ctx.sample({'c2s_args': obs[nbind + nhist + nmemo + nargs // 2]}, limit=9)
    ctx.sample({'c2s_deco': obs[nbind + nhist + nmemo + nargs + ndeco // 2]}, limit=9)


# ------------------------------------------------------------------------------------------------
def run(ctx):
    ctx.rule = ('S2C: (a) every signature (npos 0..4 x defaults x *args x **kw = 60, plus the 40 twins that share a code object and differ '
                'only in their default values) x every valid call (<= npos+2 positional, keywords from the parameters and x, y; every split '
                'of an argument set) through pyg getargspec / getcallargs / call_with_callargs / each of 8 decorators (try_list: the caller '
                'mutates every result it is given, in place); (b) every history of Wrap steps TLC enumerates, replayed on real decorators with all live objects '
                'projected and called (older objects after newer ones exist; schedules late/eager); (b\') every chain of <= 2 decorator kinds, also the try '
                'wrappers with verbose / repeat set, x every way f can fail (11 realisations: with / without message, several arguments, raised by the '
                'interpreter, a subclass, StopIteration, format characters, KeyboardInterrupt / SystemExit / GeneratorExit) x every place the failing value '
                'can be passed, plus calls with mutable arguments; each call made twice with the same argument objects, which are compared with their '
                'snapshot; (c) every call sequence on cache(f) with a counting f; (d) every history of getcallargs / call_with_callargs on f and on W(f) / '
                'the caller editing its binding in place (the same binding replayed again, on the other object, after an edit; the same call bound again '
                'after the first binding was edited), with ALL the caller\'s bindings compared after every step; (e) every history of one ready-made '
                'decorator OBJECT of each of the 15 kinds applied to two functions made from one code object and to its own results, the decorated functions '
                'called in any order (outcome, evaluations of BOTH functions, projection and argspec of every object); (b\'\') every chain of <= 2 of the 9 decorators x '
                'calls with 2-4 keywords (0-1 positional, the failing / quiet value in every place) x EVERY ORDER the keywords can be written in at the call site '
                '(the first parameter is the one f names first, not the keyword written first); the bind cases rotate the spelling too.  C2S: random signatures, calls with '
                'strange values and every failure realisation, longer mixed wrap/call histories, memo sequences with unhashable keys, binding sessions, '
                'sessions of 1-3 ready-made decorator objects over three functions, validated by Trace_Decorators (every call with the order its keywords were '
                'written in, judged as a spelling of the call); LONG histories on ONE object as behaviours of Trace_DecoratorsLong: cache(f) with 300 / 1100 (thorough 2100) '
                'distinct combinations in 8 key shapes (positional, keyword, mixed, hashable containers, strings, *args, extra **kw, three keywords) followed by repeats of '
                'early, middle and late ones, a new one and the early ones again; the same on 8 chains with a cache layer and on a ready-made cache_func() object applied '
                'to two functions; 400 calls on one object of 7 chains without a memo (transparency after many calls); single calls with 17..257 (513) extra positional '
                'arguments and keywords.  Non-trivial = a call using '
                'keywords/extras/defaults, a history in which a wrapper class is applied twice, a call sequence with a repeated key, a failure other than '
                'ValueError("bad"), a binding used by more than one step, a decorator object applied to two functions and called twice; distinct by abstract case.')
    import time
    rep = Reporter(ctx)
    t0 = time.time(); phases = ctx.extra.setdefault('phase_seconds', {})
    def lap(name):
        nonlocal t0
        phases[name] = round(time.time() - t0, 1); t0 = time.time()
    ctx.mc('MC_Decorators', 'MC_Decorators_quick.cfg' if ctx.quick else 'MC_Decorators_thorough.cfg')
    # the pointer-heap model of TODAY's wrapper.__init__ is expected to break MechRefinesMC (documents the defect at design level)
    # (one worker: TLC stops at the first violation and the number of states seen until then must not depend on scheduling)
    ctx.mc('MC_Decorators', 'MC_Decorators_today.cfg', must_fail='MechRefinesMC', coverage=False, workers=1)
    lap('mc')
    cases = ctx.generate('MC_Decorators', 'MC_Decorators_gen_quick.cfg' if ctx.quick else 'MC_Decorators_gen_thorough.cfg')
    parts = {'bind': [], 'heap': [], 'memo': [], 'chain': [], 'exc': [], 'args': [], 'deco': [], 'order': []}
    for c in cases:
        parts[c['part']].append(c)
    if not all(parts.values()):
        raise Machinery('the generator did not emit every part: %r' % {k: len(v) for k, v in parts.items()})
    table, sigs = {}, []
    for c in sorted(parts['chain'], key=lambda c: json.dumps(c, sort_keys=True)):
        table[(sigkey(c['sig']), chain_key(c['chain']))] = sorted(((cc, want) for cc, want in c['outs']), key=json.dumps)
        table[(sigkey(c['sig']), 'argspec')] = c['argspec']
        if c['sig'] not in sigs:
            sigs.append(c['sig'])
    lap('generate')
    s2c_bind(ctx, rep, parts['bind'])
    lap('s2c_bind')
    s2c_memo(ctx, rep, parts['memo'])
    lap('s2c_memo')
    s2c_exc(ctx, rep, parts['exc'])
    s2c_order(ctx, rep, parts['order'])
    s2c_args(ctx, rep, parts['args'])
    s2c_deco(ctx, rep, parts['deco'])
    lap('s2c_exc_args_deco')
    if ctx.quick:
        # every history is built and projected on one base function (rotating); every history of <= 3 steps and every 8th
        # of the 4-step ones is also called (schedule alternating)
        def pick(n, si, sched, depth):
            if si != n % len(sigs) or sched != ('late', 'eager')[(n // len(sigs)) % 2]:
                return None
            return 'calls' if depth <= 3 or n % 8 == 0 else 'shape'
        s2c_heap(ctx, rep, parts['heap'], table, sigs, ('late', 'eager'), pick)
    else:
        # every history of <= 3 steps on every base function in both schedules; every 4-step history is built, projected and
        # called on one base function (rotating) in one schedule (alternating)
        def pick(n, si, sched, depth):
            if depth <= 3:
                return 'calls'
            return 'calls' if si == n % len(sigs) and sched == ('late', 'eager')[(n // len(sigs)) % 2] else None
        s2c_heap(ctx, rep, parts['heap'], table, sigs, ('late', 'eager'), pick)
    lap('s2c_heap')
    if ctx.quick:
        c2s(ctx, rep, 900, 300, 250, 150, 100)
    else:
        c2s(ctx, rep, 6000, 2000, 2000, 2000, 2000)
    lap('c2s')
    rep.finish()
    ctx.exhaustive = False
    ctx.assumptions += [
        'parameters are named a, b, c, d, *args, **kw; keyword-only parameters are outside the quantifier',
        'the sanity of the exec-generated functions is checked with Python inspect only; pyg_base.getargspec/getcallargs are always the subject',
        'the caller mutates in place what calls return, except results of chains with a cache layer (MemoisedResultIsShared); the base function returns None for the value "quiet"',
        'a keyword named axis (a parameter of loops) or self is never passed; loops = loop(list, dict) and the first argument is never a list/dict; no pandas input',
        'try_none and try_zero are one class with a parameter: wrapping with one over the other keeps the newer (MergeSameClass, documented behaviour)',
        'try_back without a first argument: outcome unspecified (NoFirstArgument); unhashable cache keys may be re-evaluated (Uncached); wrappers built from a cached function may share its memo (SharedMemo)',
        'optional parameters: verbose True/False and repeat 1-2 of try_value are covered (the law ignores them); return_value=False (switches the wrapper off) and sleep are not; '
        'KeyboardInterrupt / SystemExit / GeneratorExit raised by f are not failures of f: every wrapper lets them through (InterruptsPassThrough)',
        'call_with_callargs is judged on bindings that getcallargs returned and on what the four edits (another first argument, a failing first argument, one more *args '
        'entry, one more **kw entry) make of them - each again the binding of a valid call; hand-written partial bindings are outside the statement',
        'ready-made decorator objects: the second function is the twin with the other default values (same calls valid, other results); evaluation counts of a decorated '
        'function are pinned only for cache(f) itself while no other cached wrapper of f exists (SharedMemo); no function but the one called may be evaluated at all',
        'evaluation counts are pinned only for cached functions; memo keys avoid values that Python itself treats as equal (1, 1.0, True)',
        'keyword order: every permutation of <= 4 keywords on 5 signatures; longer keyword lists only in shuffled C2S calls',
        'long histories: sizes 300 / 1100 / 2100 distinct combinations (thresholds 16..2048 are crossed; a bound beyond 2100 entries or calls is not); the order of the '
        'repeats is early, middle, late, random, new, early again - not every interleaving',
        'small scope: histories of <= 4 (quick; 5th step only in MC thorough) Wrap steps over 7 kinds, call menus of <= 27 calls on 3-5 base signatures']


def replay(ctx, data):
    """./check C18 --replay <file>: re-run one recorded case and print what the real code does"""
    case = data['case']
    print(json.dumps({'clause': data['clause'], 'case': case, 'detail': data.get('detail')}, indent=1)[:4000])
    if case.get('part') == 'heap' and 'hist' in case:
        f = base_function(case['sig'])
        live = []
        for kind, target in case['hist']:
            live.append(decorator(layer_of(kind))(f if target == 0 else live[target - 1]))
            print('after', kind, target, [project(o, f) for o in live])
        if 'cc' in case:
            args, kwargs = realise(case['cc'])
            print('call ->', outcome(live[case['obj'] - 1], *args, **kwargs))
    return 0
