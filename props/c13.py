"""C13 - df_slice keeps exactly the rows in the interval; stitching switches at bounds.

TLA+ (spec/Slice.tla) decides; this driver renders abstract series (timestamps = integers on a time grid,
bounds = grid positions, 0 = None) into pd.Series / pd.DataFrame with a DatetimeIndex (naive or in a time zone,
sorted, possibly with repeated timestamps) and date bounds in several realisations (datetime, Timestamp, datetime64,
date, string; zone-aware in the zone of the index or in another zone) / datetime.time bounds, calls df_slice / df_unslice
and encodes what came back.  Sessions (spec/SliceSess.tla): one world of caller-owned objects (a list of series, a list
of bounds, the frame a stitch returned), public calls and the caller's in-place edits in between, the whole world read
again after every step."""
import datetime, math, warnings
import numpy as np
import pandas as pd
from harness.x_pool import pmap
from harness.core import Machinery

NAN = -1
BASE = datetime.datetime(2021, 3, 1)
COLNAMES = ['a', 'b', 'c']
# how an abstract case of the date / time-of-day universes is dressed: naive, or in a zone (no clock change within
# the days that a time-of-day case touches: 2021-03-01 .. 2021-03-10)
TZS = [None, 'UTC', None, 'Europe/London', 'America/New_York', None, 'Asia/Kolkata', 'fixed-180']
# the clock-change days of the zone model of Slice.tla: (kind, minutes elapsed since midnight at the change, minutes
# of the change) -> (zone, the civil day of the change); "s" = clocks forward, "f" = back
ZONES = {
    ('s', 60, 60): [('Europe/London', '2021-03-28'), ('Europe/Lisbon', '2022-03-27')],
    ('s', 120, 60): [('America/New_York', '2021-03-14'), ('Europe/Berlin', '2021-03-28'), ('Australia/Sydney', '2021-10-03')],
    ('f', 120, 60): [('Europe/London', '2021-10-31'), ('America/New_York', '2021-11-07')],
    ('f', 180, 60): [('Europe/Berlin', '2021-10-31'), ('Australia/Sydney', '2021-04-04')],
    ('s', 120, 30): [('Australia/Lord_Howe', '2021-10-03')],
    ('f', 120, 30): [('Australia/Lord_Howe', '2021-04-04')],
}


def tzinfo_of(name):
    if not name:
        return None
    if name.startswith('fixed'):
        return datetime.timezone(datetime.timedelta(minutes=int(name[5:])))
    return name


class Clock(object):
    """grid <-> wall clock.
    mode 'date': timestamp t = BASE (in the zone, if any) + t*unit minutes of elapsed time.
    mode 'tod' : timestamp d*B + k = the wall-clock reading BASE + d days + (k-1)*unit minutes (localised to the zone,
                 if any); a bound k = the time of day (k-1)*unit minutes.
    mode 'ltod': an index in zone tz; timestamp d*B + e = the instant (e-1)*unit minutes after the local midnight of
                 the civil day day0 + (d-1); a bound k = the time of day (k-1)*unit minutes; todslot() reads the
                 wall-clock time of day off a rendered timestamp.
    btz: the zone in which a date bound is handed over (None = the zone of the index).
    brep: how a date bound is realised: datetime.datetime (default), pd.Timestamp, numpy.datetime64, datetime.date (a
          bound at midnight; otherwise a string) or a string - for an index in a zone only the zone-aware realisations
          (datetime / Timestamp) exist, the others fall back to Timestamp.
    iunit: the resolution of the DatetimeIndex (None = what pandas picks, 'ns', 's')."""
    def __init__(self, mode, B, unit, tz=None, day0=None, btz=None, brep=None, iunit=None):
        self.mode, self.B, self.unit, self.tz, self.day0, self.btz = mode, B, unit, tz or None, day0, btz or None
        self.brep, self.iunit = brep or 'datetime', iunit or None
        self.tzi = tzinfo_of(self.tz)
        self.base = pd.Timestamp(BASE, tz=self.tzi) if self.tz else BASE
        if mode == 'ltod':
            self.d0 = datetime.date.fromisoformat(day0)

    def midnight(self, date):
        return pd.Timestamp(datetime.datetime.combine(date, datetime.time())).tz_localize(self.tzi)

    def stamp(self, t):
        if self.mode == 'date':
            if not self.tz:
                return BASE + datetime.timedelta(minutes=t * self.unit)
            return self.base + pd.Timedelta(minutes=t * self.unit)
        if self.mode == 'tod':
            x = BASE + datetime.timedelta(days=t // self.B, minutes=(t % self.B - 1) * self.unit)
            return x if not self.tz else pd.Timestamp(x).tz_localize(self.tzi)
        return self.midnight(self.d0 + datetime.timedelta(days=t // self.B - 1)) + pd.Timedelta(minutes=(t % self.B - 1) * self.unit)

    def bound(self, b, uniform=False):
        """uniform: the bound goes into a LIST of bounds, which a caller writes in one realisation (dates on a daily grid,
        otherwise strings of one format)"""
        if b == 0:
            return None
        if self.mode == 'date':
            x = self.stamp(b)
            if self.tz:
                x = x.tz_convert(tzinfo_of(self.btz)) if self.btz else x
                return x.to_pydatetime() if self.brep == 'datetime' else x
            if self.brep == 'datetime':
                return x
            x = pd.Timestamp(x)
            if self.brep == 'Timestamp':
                return x
            if self.brep == 'dt64':
                return x.to_datetime64()
            midnight = x == x.normalize()
            if uniform:
                return x.date() if self.brep == 'date' and self.unit % 1440 == 0 else x.strftime('%Y-%m-%d %H:%M')
            if self.brep == 'date' and midnight:
                return x.date()
            return x.strftime('%Y-%m-%d' if midnight else '%Y-%m-%d %H:%M')
        m = (b - 1) * self.unit
        return datetime.time(m // 60, m % 60)

    def unbound(self, x):
        """the grid position of a date bound as it sits in the caller's list (whatever its realisation)"""
        if x is None:
            return 0
        if isinstance(x, (datetime.datetime, datetime.date, np.datetime64, str)):
            return self.grid(x)
        return -9

    def todslot(self, ts):
        """the wall-clock time of day that a timestamp of the index shows, as a slot"""
        q = (ts.hour * 60 + ts.minute) / float(self.unit) + 1
        return int(q) if q == int(q) and ts.second == 0 and ts.microsecond == 0 else -9

    def grid(self, ts):
        try:
            ts = pd.Timestamp(ts)
            if (ts.tzinfo is None) != (self.tz is None):
                return -9                                   # the zone was dropped (or one appeared)
            if self.mode == 'date':
                q = (ts - self.base).total_seconds() / 60.0 / self.unit
            elif self.mode == 'tod':
                ts = (ts.tz_convert(self.tzi).tz_localize(None) if self.tz else ts).to_pydatetime()
                d = (ts.date() - BASE.date()).days
                k = (ts - datetime.datetime.combine(ts.date(), datetime.time())).total_seconds() / 60.0 / self.unit + 1
                q = d * self.B + k if 1 <= k < self.B else -9
            else:
                ts = ts.tz_convert(self.tzi)
                d = (ts.date() - self.d0).days + 1
                e = (ts - self.midnight(ts.date())).total_seconds() / 60.0 / self.unit + 1
                q = d * self.B + e if 1 <= e < self.B and d >= 0 else -9
            return int(q) if q == int(q) and 0 < q < 2 ** 31 - 1 else -9
        except Exception:
            return -9

    def index(self, rows):
        ix = pd.DatetimeIndex([self.stamp(t) for t in rows], tz=self.tzi)
        return ix.as_unit(self.iunit) if self.iunit else ix

    def spec(self):
        return [self.mode, self.B, self.unit]


def cell(v):
    try:
        v = float(v)
    except Exception:
        return -3
    if math.isnan(v):
        return NAN
    return int(v) if v == int(v) and 0 <= v < 2 ** 31 - 1 else -2


def series(clock, rows, col):
    return pd.Series(np.array([np.nan if v == NAN else float(v) for v in col], dtype=float), clock.index(rows))


def frame(clock, s):
    return pd.DataFrame({COLNAMES[j]: np.array([float(v) for v in col], dtype=float) for j, col in enumerate(s['cols'])},
                        index=clock.index(s['rows']), columns=COLNAMES[:len(s['cols'])])


def enc(res, clock, names=None):
    """a Series -> one column, a DataFrame (with the expected column labels) -> its columns"""
    if isinstance(res, pd.Series):
        return {'kind': 'val', 'rows': [clock.grid(t) for t in res.index], 'cols': [[cell(v) for v in res.values]]}
    if isinstance(res, pd.DataFrame) and (names is None or list(res.columns) == list(names)):
        return {'kind': 'val', 'rows': [clock.grid(t) for t in res.index],
                'cols': [[cell(v) for v in res.iloc[:, j].values] for j in range(res.shape[1])]}
    return {'kind': 'other', 'type': type(res).__name__, 'rows': [], 'cols': []}


def exc(e):
    return {'kind': 'exc', 'cls': type(e).__name__, 'rows': [], 'cols': []}


# ---------------------------------------------------------------------------------------------
# the calls
# ---------------------------------------------------------------------------------------------
def observe_slice(case):
    """case: {kind/mode, B, unit, s, lb, ub, oc, spelling, tz, btz, day0}.  The observation repeats the input as the
    rendered index shows it: for a zoned index (mode ltod) s.tod is the wall-clock time of day read off each row."""
    from pyg_base import df_slice
    mode = case.get('mode') or case['kind']
    clock = Clock(mode, case['B'], case['unit'], case.get('tz'), case.get('day0'), case.get('btz'), case.get('brep'), case.get('iunit'))
    s = {'rows': case['s']['rows'], 'cols': case['s']['cols']}
    idx = clock.index(s['rows'])
    if [clock.grid(x) for x in idx] != s['rows']:
        raise Machinery('C13 driver: the rendered index does not read back as the abstract rows: %r' % (case,))
    if mode == 'ltod':
        s['tod'] = [clock.todslot(x) for x in idx]
    lb, ub = clock.bound(case['lb']), clock.bound(case['ub'])
    oc = ''.join(case['oc'])
    sp = case.get('spelling', 0)
    if sp % 3 == 2:
        oc = oc.replace('[', 'c').replace(']', 'c').replace('(', 'o').replace(')', 'o')
    runs = []
    for carrier in ('ser', 'df'):
        x = series(clock, s['rows'], s['cols'][0]) if carrier == 'ser' else frame(clock, s)
        if carrier == 'ser' and sp >= 6:
            x.name = 'close'           # a named series (the statement is indifferent to names)
        try:
            with warnings.catch_warnings():
                warnings.simplefilter('ignore')
                if sp % 3 == 1 and lb is not None and ub is not None:
                    res = df_slice(x, (lb, ub), None, oc)
                elif sp % 2 == 1:
                    res = df_slice(x, lb=lb, ub=ub, openclose=oc)
                else:
                    res = df_slice(x, lb, ub, oc)
            out = enc(res, clock, None if carrier == 'ser' else COLNAMES[:len(s['cols'])])
            if carrier == 'ser' and not isinstance(res, pd.Series):
                out = {'kind': 'other', 'type': type(res).__name__, 'rows': [], 'cols': []}
        except Exception as e:
            out = exc(e)
        runs.append({'carrier': carrier, 'out': out})
    return {'op': 'slice', 'mode': mode, 'B': case['B'], 'unit': case['unit'], 's': s, 'lb': case['lb'], 'ub': case['ub'],
            'oc': case['oc'], 'spelling': sp, 'tz': case.get('tz') or '', 'btz': case.get('btz') or '', 'day0': case.get('day0') or '',
            'brep': case.get('brep') or '', 'iunit': case.get('iunit') or '', 'runs': runs}


def observe_session(case):
    """case: {ss, ubs, ns, unit, name}: a session of stitch calls df_slice(xs, ub=bounds, n=n), n in ns, all on the SAME
    list objects xs / bounds (as a caller does who stitches 1-wide, then 2-wide ...).  After every call the two argument
    lists are read again.  For increasing bounds each stitched result is also handed to df_unslice and the recovered
    series are stitched again.  All series carry case['name'] (None or a shared name such as 'close')."""
    from pyg_base import df_slice, df_unslice
    clock = Clock('date', 100, case['unit'], case.get('tz'), None, case.get('btz'), case.get('brep'), case.get('iunit'))
    ss, ubs, name = case['ss'], case['ubs'], case.get('name')
    # df_unslice is claimed for stitched frames of series without repeated timestamps and without recorded NaNs
    unslice = case.get('unslice', True) and not any(NAN in x['cols'][0] for x in ss)
    xs = [series(clock, s['rows'], s['cols'][0]) for s in ss]
    if name:
        for x in xs:
            x.name = name
    originals = list(xs)
    bounds = [clock.bound(u, True) for u in ubs]
    increasing = all(a < b for a, b in zip(ubs, ubs[1:]))
    calls, unst = [], []
    for n in case['ns']:
        res = None
        try:
            with warnings.catch_warnings():
                warnings.simplefilter('ignore')
                res = df_slice(xs, ub=bounds, n=n)
            out = enc(res, clock)          # a Series or a frame; the statement does not name the column labels
        except Exception as e:
            out = exc(e)
        ubs_after = [clock.unbound(b) for b in bounds] if isinstance(bounds, list) else [-9]
        pos = {id(x): i + 1 for i, x in enumerate(originals)}
        ss_after = [pos.get(id(x), -9) for x in xs] if isinstance(xs, list) else [-9]
        for i, x in enumerate(originals):          # ... and the series themselves still hold what they held
            e0 = enc(x, clock)
            if {'rows': e0['rows'], 'cols': e0['cols']} != ss[i] and (i + 1) in ss_after:
                ss_after[ss_after.index(i + 1)] = -8
        calls.append({'n': n, 'out': out, 'ubs_after': ubs_after, 'ss_after': ss_after})
        if out['kind'] == 'val' and increasing and ubs_after == ubs and unslice:
            F = {'rows': out['rows'], 'cols': out['cols']}
            again = None
            try:
                with warnings.catch_warnings():
                    warnings.simplefilter('ignore')
                    u = df_unslice(res, list(bounds))
                keys = sorted(u.keys(), key=clock.unbound)
                uo = {'kind': 'val', 'keys': [clock.unbound(k) for k in keys], 'series': []}
                for k in keys:
                    e1 = enc(u[k], clock)
                    if e1['kind'] != 'val' or not isinstance(u[k], pd.Series):
                        uo = {'kind': 'other', 'type': type(u[k]).__name__}
                        break
                    uo['series'].append({'rows': e1['rows'], 'cols': e1['cols']})
                if uo['kind'] == 'val' and [clock.unbound(k) for k in keys] == ubs:
                    try:
                        with warnings.catch_warnings():
                            warnings.simplefilter('ignore')
                            again = enc(df_slice([u[k] for k in keys], ub=list(bounds), n=n), clock)
                    except Exception as e:
                        again = exc(e)
            except Exception as e:
                uo = exc(e)
            unst.append({'op': 'unstitch', 'F': F, 'ubs': ubs, 'n': n, 'unit': case['unit'], 'named': bool(name), 'out': uo, 'again': again,
                         'tz': case.get('tz') or '', 'btz': case.get('btz') or ''})
    return [{'op': 'session', 'ss': ss, 'ubs': ubs, 'unit': case['unit'], 'named': bool(name), 'calls': calls,
             'tz': case.get('tz') or '', 'btz': case.get('btz') or ''}] + unst


# ---------------------------------------------------------------------------------------------
# sessions on a world of caller-owned objects (law: spec/SliceSess.tla)
# ---------------------------------------------------------------------------------------------
NOFRAME = {'rows': [], 'cols': []}
SMUDGE = 777.0


class World(object):
    """the caller's objects of one session: objs = every series object ever made (heap), xs = the caller's list of
    series, bounds = the caller's list of bounds, fr = the frame the last stitch returned; un / sl = what the last
    df_unslice / single df_slice returned"""
    def __init__(self, w0, clock, name=None):
        self.clock, self.name = clock, name
        self.objs = [self.make(h) for h in w0['heap']]
        self.xs = [self.objs[i - 1] for i in w0['ids']]
        self.bounds = [clock.bound(b, True) for b in w0['bl']]
        self.fr, self.fn, self.un, self.sl = None, 0, None, None

    def make(self, h):
        x = series(self.clock, h['rows'], h['cols'][0])
        if self.name:
            x.name = self.name
        return x

    def plain(self, x):
        e = enc(x, self.clock)
        return {'rows': e['rows'], 'cols': e['cols']} if e['kind'] == 'val' else {'rows': [-9], 'cols': [[-9]]}

    def read(self):
        pos = {id(x): i + 1 for i, x in enumerate(self.objs)}
        return {'heap': [self.plain(x) for x in self.objs],
                'ids': [pos.get(id(x), -9) for x in self.xs] if isinstance(self.xs, list) else [-9],
                'bl': [self.clock.unbound(b) for b in self.bounds] if isinstance(self.bounds, list) else [-9],
                'fr': self.plain(self.fr) if self.fr is not None else dict(NOFRAME), 'fn': self.fn}

    def owned(self, x):
        return x is self.fr or any(x is o for o in self.objs)

    def step(self, a, sp=0):
        """perform one step; returns what the call returned, encoded (None for the caller's own actions)"""
        from pyg_base import df_slice, df_unslice
        clock, op = self.clock, a['op']
        with warnings.catch_warnings():
            warnings.simplefilter('ignore')
            if op == 'stitch':
                self.fr, self.fn = None, a['n']
                try:
                    self.fr = df_slice(self.xs, ub=self.bounds, n=a['n'])
                    return enc(self.fr, clock)
                except Exception as e:
                    return exc(e)
            if op == 'unslice':
                out = {'kind': 'other', 'type': '', 'keys': [], 'series': [], 'again': dict(NOFRAME, kind='none')}
                try:
                    self.un = u = df_unslice(self.fr, self.bounds)
                    keys = sorted(u.keys(), key=clock.unbound)
                    out.update(kind='val', keys=[clock.unbound(k) for k in keys])
                    for k in keys:
                        e1 = enc(u[k], clock)
                        if e1['kind'] != 'val' or not isinstance(u[k], pd.Series):
                            out.update(kind='other', type=type(u[k]).__name__, series=[])
                            return out
                        out['series'].append({'rows': e1['rows'], 'cols': e1['cols']})
                    try:
                        out['again'] = enc(df_slice([u[k] for k in keys], ub=list(self.bounds), n=self.fn), clock)
                    except Exception as e:
                        out['again'] = exc(e)
                except Exception as e:
                    out.update(exc(e))
                    out.update(keys=[], series=[])
                return out
            if op == 'slice':
                x = self.fr if a['tgt'] == 'f' else self.xs[a['i'] - 1]
                lb, ub, oc = clock.bound(a['lb']), clock.bound(a['ub']), ''.join(a['oc'])
                if sp % 3 == 2:
                    oc = oc.replace('[', 'c').replace(']', 'c').replace('(', 'o').replace(')', 'o')
                self.sl = None
                try:
                    if sp % 3 == 1 and lb is not None and ub is not None:
                        self.sl = df_slice(x, (lb, ub), None, oc)
                    elif sp % 2 == 1:
                        self.sl = df_slice(x, lb=lb, ub=ub, openclose=oc)
                    else:
                        self.sl = df_slice(x, lb, ub, oc)
                    if type(self.sl) is not type(x):
                        return {'kind': 'other', 'type': type(self.sl).__name__, 'rows': [], 'cols': []}
                    return enc(self.sl, clock)
                except Exception as e:
                    return exc(e)
        # ---- the caller's own actions, all in place ----
        v = np.nan if a.get('v') == NAN else float(a.get('v', 0))
        if op == 'set' and a['tgt'] == 's':
            self.xs[a['i'] - 1].iloc[a['r'] - 1] = v
        elif op == 'set':
            if isinstance(self.fr, pd.Series):
                self.fr.iloc[a['r'] - 1] = v
            else:
                self.fr.iloc[a['r'] - 1, a['j'] - 1] = v
        elif op == 'bound':
            self.bounds[a['i'] - 1] = clock.bound(a['b'], True)
        elif op == 'swap':
            i, j = a['i'] - 1, a['j'] - 1
            self.xs[i], self.xs[j] = self.xs[j], self.xs[i]
        elif op == 'put':
            self.objs.append(self.make(a['s']))
            self.xs[a['i'] - 1] = self.objs[-1]
        elif op == 'smudge':
            # scribble over what the last call returned; a result that IS one of the caller's objects (df_slice without
            # bounds hands back its argument) is the caller's object - writing on it is an edit of that object, not done here
            res = list(self.un.values()) if (a['tgt'] == 'un' and isinstance(self.un, dict)) else [self.sl] if a['tgt'] == 'sl' else []
            for r in res:
                if isinstance(r, (pd.Series, pd.DataFrame)) and not self.owned(r) and len(r):
                    if isinstance(r, pd.Series):
                        r.iloc[:] = SMUDGE
                    else:
                        r.iloc[:, :] = SMUDGE
            if a['tgt'] == 'un' and isinstance(self.un, dict):
                self.un.clear()
        else:
            raise Machinery('C13 driver: unknown step %r' % (a,))
        return None


def small_act(a):
    """the fields of a step that its op uses (TLC prints every step with all fields)"""
    keep = {'stitch': ['n'], 'unslice': [], 'slice': ['tgt', 'i', 'lb', 'ub', 'oc'], 'set': ['tgt', 'i', 'j', 'r', 'v'], 'bound': ['i', 'b'],
            'swap': ['i', 'j'], 'put': ['i', 's'], 'smudge': ['tgt']}[a['op']]
    return dict({'op': a['op']}, **{k: a[k] for k in keep})


def observe_sess(case, chooser=None):
    """case: {form, w0, steps: [{a, (w, res)}], unit, tz, btz, brep, iunit, name, spelling}: the steps are performed one after
    the other on ONE world; the whole world is read before the session and after every step.  chooser(k, world read, last
    step) supplies the steps of a random session instead (None = the session ends).  Returns the list of step
    observations {op 'step', w = the world as read before the step, a, x = {w = the world read afterwards, out}}."""
    clock = Clock('date', 100, case['unit'], case.get('tz'), None, case.get('btz'), case.get('brep'), case.get('iunit'))
    W = World(case['w0'], clock, case.get('name'))
    before = W.read()
    if before != case['w0']:
        raise Machinery('C13 driver: the rendered world does not read back as the abstract one: %r' % (case['w0'],))
    meta = {k: case.get(k) or '' for k in ('form', 'tz', 'btz', 'brep', 'iunit')}
    meta.update(unit=case['unit'], named=bool(case.get('name')), spelling=case.get('spelling', 0), w0=case['w0'], sid=str(case.get("sid", 0)))
    out, acts, k, a = [], [], 0, None
    while True:
        a = chooser(k, before, a) if chooser else (case['steps'][k]['a'] if k < len(case['steps']) else None)
        if a is None:
            break
        try:
            res = W.step(a, case.get('spelling', 0) + k)
        except Machinery:
            raise
        except Exception:
            if a['op'] in ('stitch', 'unslice', 'slice'):
                raise
            break                       # the caller's edit has nothing to work on (an earlier result is not what the specification says)
        after = W.read()
        x = {'w': after, 'out': res if res is not None else dict(NOFRAME, kind='none')}
        acts = acts + [small_act(a)]
        k += 1
        out.append(dict(meta, op='step', k=k, w=before, a=a, x=x, acts=acts))
        before = after
        if -9 in after['ids'] or -9 in after['bl'] or any(h['rows'] == [-9] for h in after['heap']):
            break                       # the caller's lists no longer hold what a next step could speak of
        if res is not None and res['kind'] != 'val':
            break                       # the call gave no result the next steps could work on
    return out


def act(op, **kw):
    """a step record with every field (the form in which TLC prints steps and Trace_Slice reads them)"""
    a = {'op': op, 'tgt': '', 'i': 0, 'j': 0, 'r': 0, 'v': 0, 'n': 0, 'b': 0, 'lb': 0, 'ub': 0, 'oc': ['(', ']'], 's': dict(NOFRAME)}
    a.update(kw)
    return a


def rand_sess(rng):
    """the start of a random session: 1-4 series on a minute grid (daily or hourly points, gaps), monotone bounds on, next to
    and between the points; the steps are drawn while the session runs (sess_chooser)"""
    k = rng.choice([1, 2, 2, 3, 3, 4])
    step = rng.choice([1440, 60])
    heap = []
    for i in range(k):
        pts = sorted(rng.sample(range(1, 31), rng.choice([0, 1, 3, 8, 15, 25]) if rng.random() < 0.9 else 30))
        heap.append({'rows': [p * step for p in pts], 'cols': [[1000 * (i + 1) + p for p in pts]]})
    ubs = sorted(rng.sample(range(1, 34), k))
    ubs = sorted({u * step + rng.choice([0, 0, 1, -1, step // 2]) for u in ubs})
    while len(ubs) < k:
        ubs.append(ubs[-1] + step)
    if rng.random() < 0.3:
        ubs = ubs[::-1]
    ids = list(range(1, k + 1))
    if k >= 2 and rng.random() < 0.15:
        ids[rng.randrange(1, k)] = 1                    # the same series object at two positions of the list
    tz = rng.choice(C2S_TZS)
    brep = rng.choice(BREPS)
    return {'form': 'random', 'w0': {'heap': heap, 'ids': ids, 'bl': ubs, 'fr': dict(NOFRAME), 'fn': 0}, 'unit': 1, 'step': step,
            'seed': rng.randrange(1 << 30), 'nsteps': rng.choice([4, 6, 8]), 'tz': tz, 'btz': rng.choice(BTZS) if tz else None,
            'brep': brep, 'iunit': rng.choice(IUNITS), 'name': rng.choice([None, 'close']), 'spelling': rng.randrange(0, 12)}


def sess_chooser(case):
    """draws the next step of a random session from what the world, as it reads now, makes possible (which rows, cells and
    positions exist): public calls and the caller's own in-place edits in any order.  df_unslice is asked for stitched
    frames only: after a stitch with increasing bounds of series without NaN, and after corrections of values that are
    there (SliceSess.tla: StitchedCanUnstitch, CorrectionKeepsStitched)."""
    import random
    rng = random.Random(case['seed'])
    step, st = case['step'], {'fresh': False, 'new': 0}

    def bound_near(w):
        pts = sorted({r for h in w['heap'] for r in h['rows']}) or [step]
        return max(1, rng.choice(pts) + rng.choice([0, 0, 1, -1, step // 2, -step]))

    def choose(k, w, last):
        if k >= case['nsteps']:
            return None
        nS, fr = len(w['ids']), w['fr']
        cells = [(r + 1, j + 1) for j, col in enumerate(fr['cols']) for r, v in enumerate(col) if v != NAN]
        menu = ['stitch'] * 3 + ['slice_s'] * 2 + ['put']
        if st['fresh'] and w['fn'] >= 1:
            menu += ['unslice'] * 3
        if w['fn'] >= 1:
            menu += ['slice_f'] + (['set_f'] * 3 if cells else [])
        if any(w['heap'][i - 1]['rows'] for i in w['ids']):
            menu += ['set_s'] * 2
        if nS >= 2 and len(set(w['ids'])) >= 2:
            menu += ['swap']
        menu += ['bound']
        if last and last['op'] in ('unslice', 'slice'):
            menu += ['smudge'] * 2
        what = rng.choice(menu)
        st['new'] += 1
        if what == 'stitch':
            st['fresh'] = all(a < b for a, b in zip(w['bl'], w['bl'][1:])) and not any(NAN in h['cols'][0] for h in w['heap'])
            return act('stitch', n=rng.randrange(1, nS + 1))
        if what == 'unslice':
            return act('unslice')
        if what in ('slice_s', 'slice_f'):
            lb, ub = rng.choice([0, bound_near(w)]), rng.choice([0, bound_near(w)])
            return act('slice', tgt='s' if what == 'slice_s' else 'f', i=rng.randrange(1, nS + 1) if what == 'slice_s' else 0,
                       lb=lb, ub=ub, oc=rng.choice(OCS))
        if what == 'set_s':
            i = rng.choice([i for i in range(1, nS + 1) if w['heap'][w['ids'][i - 1] - 1]['rows']])
            return act('set', tgt='s', i=i, j=1, r=rng.randrange(1, len(w['heap'][w['ids'][i - 1] - 1]['rows']) + 1), v=900000 + st['new'])
        if what == 'set_f':
            r, j = rng.choice(cells)
            return act('set', tgt='f', r=r, j=j, v=900000 + st['new'])
        if what == 'swap':
            i, j = sorted(rng.sample(range(1, nS + 1), 2))
            if w['ids'][i - 1] == w['ids'][j - 1]:
                return choose(k, w, last)
            return act('swap', i=i, j=j)
        if what == 'put':
            i = rng.randrange(1, nS + 1)
            old = w['heap'][w['ids'][i - 1] - 1]
            keep = [r for r in range(len(old['rows'])) if rng.random() < 0.8]
            return act('put', i=i, s={'rows': [old['rows'][r] for r in keep], 'cols': [[old['cols'][0][r] for r in keep]]})
        if what == 'bound':
            i = rng.randrange(1, nS + 1)
            bl = list(w['bl'])
            inc = all(a < b for a, b in zip(bl, bl[1:]))
            lo = (bl[i - 2] if i >= 2 else 0) if inc else (bl[i] if i < nS else 0)
            hi = (bl[i] if i < nS else bl[i - 1] + 3 * step) if inc else (bl[i - 2] if i >= 2 else bl[i - 1] + 3 * step)
            cand = [b for b in {bl[i - 1] + 1, bl[i - 1] - 1, (lo + hi) // 2, hi - 1, lo + 1} if lo < b < hi and b >= 1 and b != bl[i - 1]]
            if not cand:
                return choose(k, w, last)
            st['fresh'] = False
            return act('bound', i=i, b=rng.choice(sorted(cand)))
        return act('smudge', tgt='un' if last['op'] == 'unslice' else 'sl')
    return choose


def c2s_sess_chunk(cases):
    out = []
    for c in cases:
        out += observe_sess(c, sess_chooser(c))
    return out


def key_sess(o):
    a = o['a']
    return {'op': 'df_unslice' if a['op'] == 'unslice' else 'df_slice', 'kind': 'session', 'form': o['form'], 'step': o['k'], 'call': a['op'],
            'acts': o['acts'][:o['k']], 'w0': o['w0'], 'unit': o['unit'], 'named': o['named'], 'tz': o['tz'], 'btz': o['btz'],
            'brep': o['brep'], 'iunit': o['iunit'], 'spelling': o['spelling'], 'n': a.get('n') or o['w']['fn'], 'k': len(o['w0']['ids'])}


def sess_chunk(cases):
    """S2C for sessions: every step's result and the whole world afterwards compared with what TLC printed; the first step
    that differs is the finding.  df_unslice steps (admitted answers are a set) are returned for Trace_Slice."""
    res = []
    for case in cases:
        viol, tolog, nevals = [], [], 0
        for o, st in zip(observe_sess(case), case['steps']):
            a, x = o['a'], o['x']
            nevals += 1 if a['op'] in ('stitch', 'slice') else 2 if a['op'] == 'unslice' else 0
            want_w, want = st['w'], st['res']
            bad = None
            if a['op'] in ('stitch', 'slice'):
                p = 'stitch' if a['op'] == 'stitch' else 'slice'
                if x['out']['kind'] != 'val':
                    bad = (p + '_raised', {'expected': want, 'observed': x['out']})
                elif x['out']['rows'] != want['rows']:
                    bad = (p + '_rows', {'expected': want['rows'], 'observed': x['out']['rows']})
                elif x['out']['cols'] != want['cols']:
                    bad = (p + '_values', {'expected': want['cols'], 'observed': x['out']['cols']})
            if bad is None and a['op'] == 'unslice':
                tolog.append(o)
                if x['out']['kind'] == 'val' and x['out']['again'] != dict(want_w['fr'], kind='val'):
                    bad = ('unstitch_restitch', {'expected': want_w['fr'], 'observed': x['out']['again']})
            if bad is None and x['w'] != want_w:
                part = [k for k in ('ids', 'heap', 'bl', 'fr', 'fn') if x['w'][k] != want_w[k]]
                if a['op'] in ('stitch', 'unslice', 'slice'):
                    bad = ('argument_changed', {'part': part, 'expected': want_w, 'observed': x['w']})
                elif a['op'] == 'smudge':
                    bad = ('result_shared', {'part': part, 'expected': want_w, 'observed': x['w']})
                elif a['op'] == 'set' and ('fr' if a['tgt'] == 'f' else 'heap') not in part:
                    # the object written to reads as TLC says, another object changed with it: the two share their cells
                    bad = ('result_shared', {'part': part, 'expected': want_w, 'observed': x['w']})
                else:
                    raise Machinery('C13 driver: the caller\'s own step %r did not do what the specification says: %r' % (a, x['w']))
            if bad:
                viol.append((bad[0], key_sess(o), bad[1]))
                break
        res.append((viol, tolog, nevals))
    return res


def slice_kind(o):
    if o['mode'] in ('tod', 'ltod') and o['lb'] and o['ub'] and o['lb'] > o['ub']:
        return o['mode'] + '_wrap'
    return o['mode']


def has_dup(rows):
    return any(a == b for a, b in zip(rows, rows[1:]))


def key_slice(o, carrier=None):
    c = {'op': 'df_slice', 'kind': slice_kind(o), 'oc': ''.join(o['oc']), 'lb': o['lb'], 'ub': o['ub'], 's': o['s'],
         'clock': [o['mode'], o['B'], o['unit']], 'spelling': o['spelling'], 'tz': o.get('tz', ''), 'btz': o.get('btz', ''),
         'day0': o.get('day0', ''), 'dup': has_dup(o['s']['rows']), 'brep': o.get('brep', ''), 'iunit': o.get('iunit', '')}
    if carrier:
        c['carrier'] = carrier
    return c


def key_stitch(o, k=None):
    """o: a session (k = the 0-based index of the failing call) or an unstitch observation"""
    if o['op'] == 'session':
        inc = all(a < b for a, b in zip(o['ubs'], o['ubs'][1:]))
        k = 0 if k is None else k
        return {'op': 'df_slice', 'kind': 'stitch', 'n': o['calls'][k]['n'], 'k': len(o['ss']), 'direction': 'increasing' if inc else 'decreasing',
                'has_empty': any(len(x['rows']) == 0 for x in o['ss']), 'named': o['named'], 'call': k + 1,
                'ns': [c['n'] for c in o['calls']], 'ubs': o['ubs'], 'ss': o['ss'], 'unit': o['unit'], 'tz': o.get('tz', ''), 'btz': o.get('btz', ''),
                'dup': any(has_dup(x['rows']) for x in o['ss']), 'brep': o.get('brep', ''), 'iunit': o.get('iunit', '')}
    return {'op': 'df_unslice', 'kind': 'unstitch', 'n': o['n'], 'k': len(o['ubs']), 'named': o['named'], 'ubs': o['ubs'], 'F': o['F'], 'unit': o['unit'],
            'tz': o.get('tz', ''), 'btz': o.get('btz', ''), 'brep': o.get('brep', ''), 'iunit': o.get('iunit', '')}


# ---------------------------------------------------------------------------------------------
# S2C: replay of the cases TLC enumerated
# ---------------------------------------------------------------------------------------------
S2C_UNIT = {'date': 720, 'tod': 150, 'stitch': 720}      # grid step in minutes (ltod: from the zone, see zone_of)


# the zone in which a date bound for a zoned index is written (None = the zone of the index): the same instant, another wall clock
BTZS = [None, 'UTC', None, 'Asia/Tokyo', 'America/New_York', 'fixed-330']
BREPS = ['datetime', 'Timestamp', 'dt64', 'date', 'str']       # how a date bound is realised (see Clock)
IUNITS = [None, None, 'ns', None, 's']                          # resolution of the DatetimeIndex


def zone_of(z, i):
    """the real zone / clock-change day / slot size that the zone model z = [kind, G, H] of a ltod case stands for"""
    for unit in (60, 30):
        zs = ZONES.get((z['kind'], (z['G'] - 1) * unit, z['H'] * unit))
        if zs:
            zone, day = zs[i % len(zs)]
            return {'tz': zone, 'day0': day, 'unit': unit}
    raise Machinery('C13 driver: no real zone for the zone model %r' % (z,))


def s2c_chunk(cases):
    res = []
    for case in cases:
        viol, tolog, nevals, nt = [], [], 0, False
        if case['kind'] in ('date', 'tod', 'ltod'):
            o = observe_slice(dict(case, unit=case.get('unit') or S2C_UNIT[case['kind']]))
            want = case['want']
            if case['kind'] == 'ltod' and o['s']['tod'] != case['s']['tod']:
                raise Machinery('C13 driver: zone %s on %s does not show the wall clock of the zone model: %r' % (case['tz'], case['day0'], case))
            for r in o['runs']:
                nevals += 1
                w = want if r['carrier'] == 'df' else {'rows': want['rows'], 'cols': want['cols'][:1]}
                out = r['out']
                if out['kind'] != 'val':
                    viol.append(('slice_raised', key_slice(o, r['carrier']), {'expected': w, 'observed': out}))
                elif out['rows'] != w['rows']:
                    viol.append(('slice_rows', key_slice(o, r['carrier']), {'expected': w['rows'], 'observed': out['rows']}))
                elif out['cols'] != w['cols']:
                    viol.append(('slice_values', key_slice(o, r['carrier']), {'expected': w['cols'], 'observed': out['cols']}))
            nt = 0 < len(want['rows']) < len(case['s']['rows'])
        elif case['kind'] == 'dupsession':
            # series with repeated timestamps, one column: TLC enumerated the arguments, Trace_Slice judges the answers
            obs = observe_session(dict(case, unit=S2C_UNIT['stitch'], unslice=False))
            nevals += len(obs[0]['calls'])
            tolog.append(obs[0])
            nt = len({c // 1000 for call in obs[0]['calls'] for col in call['out']['cols'] for c in col if c != NAN}) > 1
        else:
            # a session: the cases TLC printed for one (series list, bound list), replayed as consecutive calls on the
            # same argument objects; call k must return what TLC expects for its n and leave the arguments alone
            obs = observe_session(dict(case, unit=S2C_UNIT['stitch']))
            se, uns = obs[0], {o['n']: o for o in obs[1:]}
            idk = list(range(1, len(case['ss']) + 1))
            for k, call in enumerate(se['calls']):
                nevals += 1
                want, out = case['wants'][str(call['n'])], call['out']
                bad = True
                if out['kind'] != 'val':
                    viol.append(('stitch_raised', key_stitch(se, k), {'expected': want, 'observed': out}))
                elif out['rows'] != want['rows']:
                    viol.append(('stitch_rows', key_stitch(se, k), {'expected': want['rows'], 'observed': out['rows']}))
                elif out['cols'] != want['cols']:
                    viol.append(('stitch_values', key_stitch(se, k), {'expected': want['cols'], 'observed': out['cols']}))
                elif call['ubs_after'] != case['ubs'] or call['ss_after'] != idk:
                    viol.append(('argument_changed', key_stitch(se, k), {'ubs': case['ubs'], 'ubs_after': call['ubs_after'], 'ss_after': call['ss_after']}))
                else:
                    bad = False
                nt = nt or len({c // 1000 for col in want['cols'] for c in col if c != NAN}) > 1
                if bad:
                    break                          # the rest of the session runs on damaged arguments
                un = uns.get(call['n'])
                if un is not None and k < len(case['wants']):      # df_unslice is claimed for stitched frames only
                    nevals += 2
                    tolog.append({kk: v for kk, v in un.items() if kk != 'again'})      # judged by Trace_Slice
                    if un['again'] is not None:
                        ag = un['again']
                        if ag['kind'] != 'val' or {'rows': ag['rows'], 'cols': ag['cols']} != want:
                            viol.append(('unstitch_restitch', key_stitch(un), {'expected': want, 'observed': ag}))
        res.append((viol, tolog, nevals, nt))
    return res


def c2s_chunk(cases):
    out = []
    for c in cases:
        if c['op'] == 'slice':
            out.append(observe_slice(c))
        else:
            out += [{k: v for k, v in o.items() if k != 'again'} for o in observe_session(c)]
    return out


PENDING = []       # (clause, case, detail) of the whole run; reported at the end, one representative per kind first


def report(ctx):
    seen, first, rest = set(), [], []
    for v in PENDING:
        c = v[1]
        k = (v[0], c['op'], c['kind'], c.get('oc'), c.get('n'), c.get('direction'), c.get('has_empty'), c.get('carrier'))
        (rest if k in seen else first).append(v)
        seen.add(k)
    for clause, key, detail in first + rest:
        ctx.violation(clause, key, detail)
    del PENDING[:]


def judge(ctx, obs):
    bad = ctx.validate('Trace_Slice', obs)
    first = {}
    for i, clause in bad:           # of a session only the first step that the specification rejects is a finding (the rest follows from it)
        o = obs[i - 1]
        if o['op'] == 'step':
            first[o['sid']] = min(first.get(o['sid'], o['k']), o['k'])
    for i, clause in bad:
        o = obs[i - 1]
        if o['op'] == 'step' and o['k'] != first[o['sid']]:
            continue
        if o['op'] == 'slice':
            PENDING.append((clause, key_slice(o), {'runs': o['runs']}))
        elif o['op'] == 'session':
            PENDING.append((clause, key_stitch(o), {'calls': o['calls']}))
        elif o['op'] == 'step':
            PENDING.append((clause, key_sess(o), {'world_before': o['w'], 'step': o['a'], 'observed': o['x']}))
        else:
            PENDING.append((clause, key_stitch(o), {'observed': o['out']}))
    return bad


def sessions_of(stitch_cases):
    """group TLC's stitch cases by their arguments: one session per (series list, bound list), one call per n that TLC
    printed an expectation for, the first n once more at the end; every other session uses named series"""
    import json
    groups = {}
    for c in stitch_cases:
        groups.setdefault(json.dumps([c['ss'], c['ubs']], sort_keys=True), []).append(c)
    out = []
    for g, key in enumerate(sorted(groups)):
        cs = sorted(groups[key], key=lambda c: c['n'])
        ns = [c['n'] for c in cs]
        ns = ns[g % len(ns):] + ns[:g % len(ns)]          # rotate the order of the calls
        out.append({'kind': 'session', 'ss': cs[0]['ss'], 'ubs': cs[0]['ubs'], 'ns': ns + ns[:1],
                    'wants': {str(c['n']): c['want'] for c in cs}, 'name': 'close' if g % 2 else None})
    return out


def s2c(ctx, cases, tag):
    import json
    # TLC's workers print the cases in a schedule-dependent order: sort them (spellings, samples depend on the seed only)
    cases = sorted(cases, key=lambda c: json.dumps(c, sort_keys=True))
    tells = {}
    for c in cases:
        for m in c.pop('tells', []):
            tells[m] = tells.get(m, 0) + 1
    for kind, mech in (('ltod', 'elapsed'), ('date', 'trimone')):
        # the universes must contain the cases that tell the law from the re-implementations modelled in Slice.tla
        if any(c['kind'] == kind for c in cases) and not tells.get(mech):
            raise Machinery('vacuous: no %s case of %s tells the law from the mechanism model "%s"' % (kind, tag, mech))
    cases = ([c for c in cases if c['kind'] in ('date', 'tod', 'ltod')] + sessions_of([c for c in cases if c['kind'] == 'stitch'])
             + [{'kind': 'dupsession', 'ss': c['ss'], 'ubs': c['ubs'], 'ns': [1, 1], 'name': 'close' if g % 3 == 1 else None}
                for g, c in enumerate(c for c in cases if c['kind'] == 'stitchdup')])
    for i, c in enumerate(cases):
        c['spelling'] = i % 12
        if c['kind'] == 'ltod':
            c.update(zone_of(c['z'], i))
        else:
            c['tz'] = TZS[(i // 12 + i) % len(TZS)]
            c['btz'] = BTZS[(i // 5) % len(BTZS)] if c['tz'] else None
        c['brep'] = BREPS[(i // 7 + i) % len(BREPS)]
        c['iunit'] = IUNITS[(i // 11) % len(IUNITS)]
    out = pmap(s2c_chunk, cases, chunk=400)
    tolog = []
    for i, (case, (viol, lg, nevals, nt)) in enumerate(zip(cases, out)):
        PENDING.extend(viol)
        tolog += lg
        ctx.evals += nevals
        ctx.traces += len(case['wants']) if case['kind'] == 'session' else 0 if case['kind'] == 'dupsession' else 1
        if nt:
            ctx.note(('s2c', repr([case.get(k) for k in ('kind', 's', 'lb', 'ub', 'oc', 'ss', 'ubs', 'ns', 'z')])))
        if i % 15013 == 11 or (case['kind'] == 'session' and i % 1013 == 5) or (case['kind'] == 'ltod' and i % 3001 == 7):
            ctx.sample({'s2c_case_' + tag: case}, limit=8)
    if tolog:
        judge(ctx, tolog)


FORMS = ['stitch2', 'frame', 'slice2']
SESS_OPS = {'stitch', 'unslice', 'slice', 'set', 'bound', 'swap', 'put', 'smudge'}


def s2c_sessions(ctx, sessions, tag, forms):
    """replay the histories TLC printed (MC_SliceSess); every session is dressed with a zone, a realisation of the bounds, an
    index resolution, a shared series name and a call spelling by its position in the sorted list"""
    import json
    sessions = sorted(sessions, key=lambda c: json.dumps(c, sort_keys=True))
    seen = {(c['form'], st['a']['op']) for c in sessions for st in c['steps']}
    for f in forms:
        if not any(k[0] == f for k in seen):
            raise Machinery('vacuous: TLC printed no session of form %s (%s)' % (f, tag))
    if tag == 'pairs' and {k[1] for k in seen} != SESS_OPS:
        raise Machinery('vacuous: the sessions of %s never take the steps %s' % (tag, sorted(SESS_OPS - {k[1] for k in seen})))
    for i, c in enumerate(sessions):
        c['sid'] = '%s-%d' % (tag, i)
        c['tz'] = TZS[(i // 12 + i) % len(TZS)]
        c['btz'] = BTZS[(i // 5) % len(BTZS)] if c['tz'] else None
        c['brep'] = BREPS[(i // 7 + i) % len(BREPS)]
        c['unit'] = 1440 if c['brep'] == 'date' else S2C_UNIT['stitch']        # a list of datetime.date bounds: a daily grid
        c['iunit'] = IUNITS[(i // 11) % len(IUNITS)]
        c['name'] = 'close' if i % 3 == 1 else None
        c['spelling'] = i % 12
    out = pmap(sess_chunk, sessions, chunk=150)
    tolog = []
    for i, (case, (viol, lg, nevals)) in enumerate(zip(sessions, out)):
        PENDING.extend(viol)
        tolog += lg
        ctx.evals += nevals
        ctx.traces += 1
        ctx.note(('sess', repr((case['form'], case['w0'], [small_act(st['a']) for st in case['steps']]))))
        if i % 1501 == 7:
            ctx.sample({'s2c_session_' + tag: {'form': case['form'], 'w0': case['w0'], 'steps': [small_act(st['a']) for st in case['steps']],
                                               'tz': case['tz'], 'btz': case['btz'], 'brep': case['brep']}}, limit=6)
    return tolog                    # the df_unslice steps: judged by Trace_Slice together with the random sessions


# ---------------------------------------------------------------------------------------------
# C2S inputs: random daily / intraday series with gaps, random bounds
# ---------------------------------------------------------------------------------------------
OCS = [['[', ']'], ['[', ')'], ['(', ']'], ['(', ')']]


def rand_bound(rng, pts, lo, hi):
    r = rng.random()
    if r < 0.12 or not pts:
        return 0 if r < 0.12 else rng.randrange(lo, hi + 1)
    if r < 0.55:
        return rng.choice(pts)                       # on an index point
    if r < 0.65:
        return max(lo, min(pts) - rng.randrange(1, 4))      # before
    if r < 0.75:
        return min(hi, max(pts) + rng.randrange(1, 4))      # after
    return rng.randrange(lo, hi + 1)                 # anywhere (mostly between)


C2S_TZS = [None, None, None, 'UTC', 'Europe/London', 'America/New_York', 'Asia/Kolkata', 'Australia/Sydney', 'fixed-180', 'fixed330']
C2S_CHANGES = sorted((zone, day, key[2]) for key, zs in ZONES.items() for zone, day in zs)     # (zone, clock-change day, minutes)


def with_dups(rng, rows, p=0.25):
    """some timestamps printed twice or three times (the index stays sorted)"""
    out = []
    for r in rows:
        out += [r] * (rng.choice([2, 2, 3]) if rng.random() < p else 1)
    return out


def codes(rows, ncols):
    """position codes: every cell different, so that the order of rows with equal timestamps shows"""
    return [[100000 * j + q for q in range(len(rows))] for j in range(ncols)]


def rand_zoned(rng, dense=0):
    """an intraday series in a zone with daylight saving around a clock-change day; bounds are times of day, most of
    them on or within the size of the change of the wall-clock time of some row"""
    zone, day, shift = rng.choice(C2S_CHANGES)
    B = 2000
    day0 = (datetime.date.fromisoformat(day) - datetime.timedelta(days=rng.choice([0, 0, 1, 2]))).isoformat()
    clock = Clock('ltod', B, 1, zone, day0)
    days = rng.sample(range(1, 5), rng.choice([1, 2, 3]) if not dense else 2 + dense)
    step = rng.choice([1, 5, 15, 30, 60]) if not dense else rng.choice([5, 15])
    near = [m for m in range(0, 300, step)]                    # the small hours, where the clocks change
    mins = sorted(set(rng.sample(near, min(len(near), rng.choice([1, 2, 4, 6]) if not dense else 5 * dense + 2))
                      + rng.sample(range(0, 1380, step), rng.choice([0, 1, 3]) if not dense else 9 * dense - 5)))
    rows = sorted({clock.grid(clock.stamp(d * B + m + 1)) for d in days for m in mins if rng.random() < 0.85})
    rows = [r for r in rows if r > 0]
    if dense or rng.random() < 0.2:
        rows = with_dups(rng, rows, 0.6 if dense else 0.25)
    tods = sorted({clock.todslot(clock.stamp(r)) for r in rows})

    def bnd():
        r = rng.random()
        if r < (0.2 * dense if dense else 0.12) or not tods:
            return 0 if tods or r < 0.12 else rng.randrange(1, 1441)
        k = rng.choice(tods)
        if r < 0.5:
            return k
        if r < 0.85:
            return max(1, min(1440, k + rng.choice([-1, 1]) * rng.choice([shift, shift, shift // 2, 1, shift + 1])))
        return rng.randrange(1, 1441)
    ncols = rng.choice([1, 2])
    s = {'rows': rows, 'cols': [[rng.randrange(0, 1000000) for _ in rows] for _ in range(ncols)] if not dense else codes(rows, ncols)}
    lb, ub = bnd(), bnd()
    if dense and tods and rng.random() < 0.5:          # a window that wraps past midnight, both ends near wall-clock readings of the index
        lb, ub = (lambda a, b: (max(a, b), min(a, b)))(*[max(1, min(1440, rng.choice(tods) + rng.choice([0, 0, 1, -1, shift]))) for _ in range(2)])
    elif dense and lb and ub and rng.random() < 0.6:     # ... or a wide one that does not
        lb, ub = rng.choice([(min(lb, ub), max(lb, ub)), (0, max(lb, ub)), (min(lb, ub), 0)])
    return {'op': 'slice', 'mode': 'ltod', 'B': B, 'unit': 1, 's': s, 'lb': lb, 'ub': ub, 'oc': rng.choice(OCS), 'spelling': rng.randrange(0, 12),
            'tz': zone, 'day0': day0}


def rand_slice(rng, dense=0, mode=None):
    """dense = 1 / 2: the directed family of indexes that REPEAT timestamps and are long enough for results of more than 16 / more
    than 64 rows (where library sorts stop being stable), cells = position codes; mode = 'date' / 'tod' / 'ltod' picks the window kind"""
    if mode == 'ltod' or (mode is None and rng.random() < 0.25):
        return rand_zoned(rng, dense)
    ncols = rng.choice([1, 2, 2, 3])
    if mode == 'date' or (mode is None and rng.random() < 0.5):
        # daily-ish series on a minute grid: timestamps are minutes since BASE
        step = rng.choice([1440, 1440, 60, 5, 1])
        n = rng.choice([0, 1, 2, 5, 20, 60]) if not dense else rng.choice([25, 40]) if dense == 1 else rng.choice([80, 110])
        pts = sorted(rng.sample(range(1, 121), min(n, 120)))
        rows = [p * step for p in pts]
        keys = rows
        lo, hi = 1, 125 * step
        mode, B = 'date', 100
        bnd = lambda: (lambda b: b if b == 0 or rng.random() < 0.7 else min(hi, b + rng.choice([-1, 1]) * rng.randrange(0, step)))(rand_bound(rng, keys, lo, hi))
    else:
        # intraday series: several days, minutes of the day; bounds are times of day
        mode, B = 'tod', 2000
        days = rng.sample(range(1, 9), rng.choice([1, 2, 3, 5]) if not dense else 3 + 2 * dense)
        mins = sorted(rng.sample(range(0, 1440, rng.choice([1, 5, 60, 240]) if not dense else rng.choice([5, 60])), rng.choice([1, 2, 4, 6]) if not dense else 3 + 5 * dense))
        rows = sorted(d * B + m + 1 for d in days for m in mins if rng.random() < 0.8)
        keys = sorted({r % B for r in rows})
        lo, hi = 1, 1440
        bnd = lambda: rand_bound(rng, keys, lo, hi)
    lb, ub = bnd(), bnd()
    if dense and mode == 'date' and lb and ub and rng.random() < 0.7:
        lb, ub = min(lb, ub), max(lb, ub)
    if dense and mode == 'tod':
        lb, ub = (lambda a, b: (max(a, b), min(a, b)))(rng.choice(keys), rng.choice(keys))      # a window that wraps past midnight
        if rng.random() < 0.5:                                                                     # ... or a wide one that does not
            lb, ub = rng.choice([(ub, lb), (0, lb), (ub, 0)])
    if dense or rng.random() < 0.2:
        rows = with_dups(rng, rows, 0.6 if dense else 0.25)
    tz = rng.choice(C2S_TZS)
    s = {'rows': rows, 'cols': [[rng.randrange(0, 1000000) for _ in rows] for _ in range(ncols)] if not dense else codes(rows, ncols)}
    return {'op': 'slice', 'mode': mode, 'B': B, 'unit': 1, 's': s, 'lb': lb, 'ub': ub, 'oc': rng.choice(OCS), 'spelling': rng.randrange(0, 12),
            'tz': tz, 'btz': rng.choice(BTZS) if tz else None, 'brep': rng.choice(BREPS), 'iunit': rng.choice(IUNITS)}


def rand_stitch(rng, dense=0):
    k = rng.choice([1, 2, 3, 4, 6]) if not dense else rng.choice([2, 3, 4])
    step = rng.choice([1440, 60])
    dup = rng.random() < 0.15 or dense > 0
    ss = []
    for i in range(k):
        n = rng.choice([0, 1, 5, 20, 40]) if not dense else rng.choice([20, 30]) if dense == 1 else rng.choice([50, 58])
        pts = sorted(rng.sample(range(1, 61), min(n, 60)))
        if dup:
            pts = with_dups(rng, pts, 0.6 if dense else 0.25)
        ss.append({'rows': [p * step for p in pts], 'cols': [[1000 * (i + 1) + p if not dup else 1000 * (i + 1) + q for q, p in enumerate(pts)]]})
    ubs = sorted(rng.sample(range(1, 66), k))
    ubs = [u * step + rng.choice([0, 0, 1, -1, step // 2]) for u in ubs]
    ubs = sorted(set(ubs))
    while len(ubs) < k:
        ubs.append(ubs[-1] + step)
    if rng.random() < 0.35:
        ubs = ubs[::-1]
    dup = any(has_dup(x['rows']) for x in ss)
    if rng.random() < 0.2:
        # some prints are NaN (a row is a row whatever its value); often at the same time in every series that has the row
        hole = set(rng.sample(range(1, 61), 6))
        for x in ss:
            x['cols'][0] = [NAN if (r // step in hole and rng.random() < 0.8) else v for r, v in zip(x['rows'], x['cols'][0])]
    tz = rng.choice(C2S_TZS)
    return {'op': 'session', 'ss': ss, 'ubs': ubs, 'unit': 1, 'unslice': not dup,
            'ns': [1 if dup else rng.randrange(1, k + 1) for _ in range(rng.choice([1, 2, 2, 3]))],
            'name': rng.choice([None, 'close', 'px']), 'tz': tz, 'btz': rng.choice(BTZS) if tz else None, 'brep': rng.choice(BREPS),
            'iunit': rng.choice(IUNITS)}


def c2s(ctx, n_slice, n_stitch, n_dense):
    cases = [rand_slice(ctx.rng) for _ in range(n_slice)] + [rand_stitch(ctx.rng) for _ in range(n_stitch)]
    # directed: repeated timestamps in results of more than 16 / more than 64 rows, every window kind, and one-column stitching
    cases += [rand_slice(ctx.rng, dense, mode) for dense in (1, 2) for mode in ('date', 'tod', 'ltod') for _ in range(n_dense)]
    cases += [rand_stitch(ctx.rng, dense) for dense in (1, 2) for _ in range(n_dense)]
    obs = pmap(c2s_chunk, cases, chunk=100)
    big = {}
    for o in obs:
        out = o['runs'][0]['out'] if o['op'] == 'slice' else o['calls'][0]['out'] if o['op'] == 'session' else None
        if out and out['kind'] == 'val' and has_dup(out['rows']):
            kind = slice_kind(o) if o['op'] == 'slice' else 'stitch'
            for m in (16, 64):
                if len(out['rows']) > m:
                    big[(kind, m)] = big.get((kind, m), 0) + 1
    for kind in ('date', 'tod', 'tod_wrap', 'ltod', 'ltod_wrap', 'stitch'):
        for m in (16, 64):
            if not big.get((kind, m)):
                raise Machinery('vacuous: no %s result of more than %d rows that repeats timestamps' % (kind, m))
    ctx.sample({'results_repeating_timestamps': {'%s>%d' % k: v for k, v in sorted(big.items())}})
    ctx.evals += sum(len(o['runs']) if o['op'] == 'slice' else len(o['calls']) if o['op'] == 'session' else 1 for o in obs)
    judge(ctx, obs)
    for o in obs:
        if o['op'] == 'slice':
            got = o['runs'][0]['out']
            if 0 < len(got['rows']) < len(o['s']['rows']):
                ctx.note(('c2s', repr((o['s']['rows'], o['lb'], o['ub'], o['oc'], o['mode'], o['tz'], o['day0']))))
        elif o['op'] == 'session' and len(o['ss']) > 1 and any(c['out']['rows'] for c in o['calls']):
            ctx.note(('c2s', repr((o['ss'], o['ubs'], [c['n'] for c in o['calls']]))))
    ctx.sample({'c2s_observation': obs[len(obs) // 3]})
    return obs


def c2s_sessions(ctx, n, s2c_steps):
    """random sessions on larger worlds: every step is judged by Trace_Slice (StepVerdict of SliceSess.tla), in one log with
    the df_unslice steps of the sessions that TLC generated"""
    cases = [rand_sess(ctx.rng) for _ in range(n)]
    for i, c in enumerate(cases):
        c['sid'] = 'random-%d' % i
    obs = pmap(c2s_sess_chunk, cases, chunk=10)
    ctx.evals += sum(2 if o['a']['op'] == 'unslice' else 1 for o in obs if o['a']['op'] in ('stitch', 'unslice', 'slice'))
    judge(ctx, obs + s2c_steps)
    ops = {o['a']['op'] for o in obs}
    if ops != SESS_OPS:
        raise Machinery('vacuous: the random sessions never take the steps %s' % sorted(SESS_OPS - ops))
    for o in obs:
        if o['k'] >= 3 and o['a']['op'] in ('stitch', 'unslice', 'slice'):
            ctx.note(('c2s_sess', repr((o['w0'], o['acts']))))
    ctx.sample({'c2s_session_step': {k: obs[len(obs) // 2][k] for k in ('w0', 'acts', 'tz', 'btz', 'brep', 'x')}})
    return obs


def replay(ctx, body):
    """./check C13 --replay <file>: run the recorded case again and let Trace_Slice judge it"""
    import json, shutil
    c = body['case']
    if c['kind'] in ('date', 'tod', 'tod_wrap', 'ltod', 'ltod_wrap'):
        mode, B, unit = c['clock']
        obs = [observe_slice({'mode': mode, 'B': B, 'unit': unit, 's': c['s'], 'lb': c['lb'], 'ub': c['ub'], 'oc': list(c['oc']),
                              'spelling': c.get('spelling', 0), 'tz': c.get('tz'), 'btz': c.get('btz'), 'day0': c.get('day0'),
                              'brep': c.get('brep'), 'iunit': c.get('iunit')})]
    elif c['kind'] == 'session':
        # a session on a world of caller-owned objects: the recorded steps again, every step judged by Trace_Slice
        steps = [{'a': act(a['op'], **{k: v for k, v in a.items() if k != 'op'})} for a in c['acts']]
        obs = observe_sess({'form': c['form'], 'w0': c['w0'], 'steps': steps, 'unit': c['unit'], 'tz': c.get('tz'), 'btz': c.get('btz'),
                            'brep': c.get('brep'), 'iunit': c.get('iunit'), 'name': 'close' if c.get('named') else None,
                            'spelling': c.get('spelling', 0), 'sid': 'replay'})
        bad = ctx.validate('Trace_Slice', obs)
        for o in obs:
            print(json.dumps({'k': o['k'], 'a': small_act(o['a']), 'x': o['x']})[:1500])
        print('REPLAY property=C13 %s' % ('rejected at step %d: %s' % (bad[0][0], bad[0][1]) if bad else 'accepted by the specification'))
        shutil.rmtree(ctx.tmp, ignore_errors=True)
        return 1 if bad else 0
    elif c['kind'] == 'stitch':
        obs = observe_session({'ss': c['ss'], 'ubs': c['ubs'], 'ns': c.get('ns') or [c['n']], 'unit': c['unit'], 'name': 'close' if c.get('named') else None,
                               'tz': c.get('tz'), 'btz': c.get('btz'), 'unslice': not c.get('dup'), 'brep': c.get('brep'), 'iunit': c.get('iunit')})[:1]
    else:
        # an unstitch case: rebuild the frame as df_slice returns it and call df_unslice again
        from pyg_base import df_unslice
        clock = Clock('date', 100, c['unit'], c.get('tz'), None, c.get('btz'), c.get('brep'), c.get('iunit'))
        F, n = c['F'], c['n']
        x = series(clock, F['rows'], F['cols'][0]) if n == 1 else pd.DataFrame(
            {j: [np.nan if v == NAN else float(v) for v in col] for j, col in enumerate(F['cols'])}, index=clock.index(F['rows']))
        try:
            u = df_unslice(x, [clock.bound(b) for b in c['ubs']])
            keys = sorted(u.keys())
            out = {'kind': 'val', 'keys': [clock.grid(k) for k in keys], 'series': [{k2: enc(u[k], clock)[k2] for k2 in ('rows', 'cols')} for k in keys]}
        except Exception as e:
            out = exc(e)
        obs = [{'op': 'unstitch', 'F': F, 'ubs': c['ubs'], 'n': n, 'unit': c['unit'], 'out': out}]
    bad = ctx.validate('Trace_Slice', obs)
    print(json.dumps(obs[0])[:4000])
    print('REPLAY property=C13 %s' % ('rejected: %s' % bad[0][1] if bad else 'accepted by the specification'))
    shutil.rmtree(ctx.tmp, ignore_errors=True)
    return 1 if bad else 0


def run(ctx):
    ctx.rule = ('S2C: every (index subset, lb, ub, bracket pair) of the date and time-of-day universes - unique timestamps, and sorted '
                'indexes that repeat timestamps -, every (zone model, rows around the clock change, time-of-day bounds, bracket pair) of '
                'the zoned universe and every (series list, bound list, n) of the stitch universe that TLC enumerates is replayed through '
                'df_slice on pd.Series and pd.DataFrame (df_unslice + re-stitching for increasing bound lists) and compared with == to the '
                'outcome TLC printed; each date / time-of-day / stitch case is dressed as a naive index or as an index in one of 5 zones '
                '(date bounds then zone-aware, in the zone of the index or in UTC), each zoned case is rendered in a real zone on a real '
                'clock-change day (the wall clock read off the rendered index must be the one the zone model printed).  One-column '
                'stitching of series with repeated timestamps, df_unslice results and the C2S runs (random daily / intraday series with '
                'gaps, repeated timestamps, naive or in 7 zones, minute grids around 12 clock changes, random bounds, 1-6 series) are '
                'judged by Trace_Slice.  Non-trivial = the slice keeps some but not all rows / the stitched result draws on more than one '
                'series; distinct by the abstract case.  '
                'SESSIONS (SliceSess.tla / MC_SliceSess: a call has no memory and owns nothing of the caller): one world of caller-owned '
                'objects - a list of series objects (the same object may sit at two positions), a list of bounds, the frame the last stitch '
                'returned; steps = df_slice(list, ub=bounds, n), df_unslice(frame, bounds), df_slice(series or frame, lb, ub, brackets) and the '
                'caller\'s own in-place actions between calls (a value of a series / a cell of the returned frame overwritten or erased, a '
                'bound moved, two list members swapped, a member replaced by a new object, the result of the last df_unslice / slice '
                'scribbled over).  TLC enumerates stitch(n) ; [edit] ; stitch(m), stitch ; c ; [edit] ; c with c = unslice or a slice of the '
                'frame, slice(q) ; [edit] ; slice(q\') breadth-first (edits thinned by a stride that moves with the world), simulates longer '
                'histories (kind of step drawn first), and prints the world it expects after every step: the driver reads the whole world '
                '(list members by identity and value, bounds, frame) after every step and compares with ==; df_unslice steps and random '
                'sessions on larger worlds (1-4 series <= 30 points, 4-8 steps) are judged step by step by Trace_Slice (StepVerdict).  Every '
                'case / session is dressed by its position with a zone, the zone a bound is written in (index zone, UTC, Tokyo, New York, '
                '+05:30: same instant, other wall clock), the realisation of date bounds (datetime, Timestamp, datetime64, date, string) and '
                'the resolution of the index (us, ns, s).')
    # the model of today's wrap-around branch breaks the law for brackets other than "(]" (design-level witness)
    ctx.mc('MC_Slice', 'MC_Slice_wrapmech.cfg', must_fail='WrapMechIsLaw', coverage=False)
    if ctx.quick:
        ctx.mc('MC_Slice', 'MC_Slice_quick.cfg')
        s2c(ctx, ctx.generate('MC_Slice', 'MC_Slice_gen.cfg'), 'quick')
        # sessions (the generator configuration carries the clauses of the session machine as invariants)
        un = s2c_sessions(ctx, ctx.generate('MC_SliceSess', 'MC_SliceSess_gen_quick.cfg'), 'pairs', FORMS)
        un += s2c_sessions(ctx, ctx.generate('MC_SliceSess', 'MC_SliceSess_sim.cfg', simulate=30, depth=16, seed=ctx.seed + 1, workers=1), 'sim', ['free'])
        c2s(ctx, 1500, 300, 30)
        c2s_sessions(ctx, 120, un)
    else:
        ctx.mc('MC_Slice', 'MC_Slice_thorough.cfg')
        s2c(ctx, ctx.generate('MC_Slice', 'MC_Slice_gen_big.cfg'), 'big')
        ctx.mc('MC_SliceSess', 'MC_SliceSess_thorough.cfg', coverage=False)     # (the driver checks that every form and every kind of step occurs)
        # why histories with edits are enumerated: a df_unslice that remembers the last frame object, and a stitch that stores
        # its trimmed series back into the list it was given, break the clauses of the session machine
        ctx.mc('MC_SliceSess', 'MC_SliceSess_memo.cfg', must_fail='UnsliceNoMemory', coverage=False)
        ctx.mc('MC_SliceSess', 'MC_SliceSess_trim.cfg', must_fail='CallsOwnNothing', coverage=False)
        un = s2c_sessions(ctx, ctx.generate('MC_SliceSess', 'MC_SliceSess_gen_thorough.cfg'), 'pairs', FORMS)
        un += s2c_sessions(ctx, ctx.generate('MC_SliceSess', 'MC_SliceSess_sim_thorough.cfg', simulate=1000, depth=20, seed=ctx.seed + 1, workers=1), 'sim', ['free'])
        c2s(ctx, 20000, 4000, 300)
        c2s_sessions(ctx, 2500, un)
    report(ctx)
    ctx.exhaustive = False
    ctx.assumptions += [
        'indexes are sorted; a single slice (date or time-of-day bounds) also runs on indexes that repeat timestamps; stitching '
        'series with repeated timestamps is claimed one column wide only and up to the number of rows shown per timestamp (deviation '
        'DupMultiplicityFree: the statement says whose data a timestamp shows and "at most once"); n > 1 with repeated timestamps '
        '(pandas cannot outer-join them) and df_unslice of such results stay outside; unsorted indexes stay outside (an interval of a '
        'shuffled index is still defined, but the stitching sentence speaks of series in time order)',
        'values are non-negative integer-valued floats (data independence)',
        'repeated timestamps in LONG results (library sorts are stable only for short inputs): a directed C2S family renders indexes that '
        'repeat 60% of their timestamps, with position codes as values, long enough for results of more than 16 and more than 64 rows, '
        'for date windows, time-of-day windows with and without wrap-around, naive and zoned, and one-column stitching; the run fails as '
        'vacuous unless each of these kinds returns such a result at both sizes',
        'an index in a time zone: the row\'s time of day is the wall-clock time the index itself shows (read with .hour/.minute off '
        'the rendered timestamps, and required to equal the zone model\'s LocalTod in S2C); date bounds for a zoned index are '
        'zone-aware datetimes (a naive bound against a zoned index is refused by pandas and is outside the domain)',
        'small-scope: MC/S2C date slices on subsets of 5-6 (thorough 8) index points with bounds on a grid twice as fine, and 3 points '
        'carrying up to 2 (thorough 3) rows each; time-of-day slices on 2 days x 3 (thorough 4) slots; zoned slices on 3 (thorough 5) '
        'slots of the clock-change day + 2 of an ordinary day for 2 (thorough 7) zone models; stitching 1-3 (thorough 4) series over '
        '2-4 index points; C2S series <= 60 points',
        'date bounds are handed over as datetime.datetime, pd.Timestamp, numpy.datetime64, datetime.date (midnight) or ISO strings for a '
        'naive index and as zone-aware datetime / Timestamp (in the zone of the index or in another zone) for a zoned index; a list of '
        'bounds is written in one realisation (dates on a daily grid, strings of one format); times of day as datetime.time; numbers '
        'and other date dialects are property C04; the bound pair is also spelled as a tuple and the brackets also as the letters c / o',
        'sessions: df_unslice is asked for stitched frames only (CanUnstitch: some family of series stitches to the frame - after a '
        'stitch with increasing bounds of NaN-free series, and after corrections of values that are there; TLC decides for the generated '
        'histories); a result that IS one of the caller\'s objects (df_slice without bounds hands back its argument) is not scribbled on; '
        'session worlds are small (2-3 series over 2-3 points, bounds on a grid twice as fine; random: <= 4 series of <= 30 points)',
        'series that record NaN values are stitched (a row is a row whatever its value) but not handed to df_unslice, which is '
        'exercised on frames that df_slice produced from NaN-free series with increasing bounds (a stitched frame shows NaN also '
        'where a series has no row)',
    ]
