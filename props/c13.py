"""C13 - df_slice keeps exactly the rows in the interval; stitching switches at bounds.

TLA+ (spec/Slice.tla) decides; this driver renders abstract series (timestamps = integers on a time grid,
bounds = grid positions, 0 = None) into pd.Series / pd.DataFrame with a DatetimeIndex and datetime /
datetime.time bounds, calls df_slice / df_unslice and encodes what came back."""
import datetime, math, warnings
import numpy as np
import pandas as pd
from harness.x_pool import pmap

NAN = -1
BASE = datetime.datetime(2021, 3, 1)
COLNAMES = ['a', 'b', 'c']


class Clock(object):
    """grid <-> wall clock.  mode 'date': timestamp t = BASE + t*unit minutes.  mode 'tod': timestamp
    d*B + k = BASE + d days + (k-1)*unit minutes, a bound k = the time of day (k-1)*unit minutes."""
    def __init__(self, mode, B, unit):
        self.mode, self.B, self.unit = mode, B, unit

    def stamp(self, t):
        if self.mode == 'date':
            return BASE + datetime.timedelta(minutes=t * self.unit)
        return BASE + datetime.timedelta(days=t // self.B, minutes=(t % self.B - 1) * self.unit)

    def bound(self, b):
        if b == 0:
            return None
        if self.mode == 'date':
            return self.stamp(b)
        m = (b - 1) * self.unit
        return datetime.time(m // 60, m % 60)

    def grid(self, ts):
        try:
            ts = pd.Timestamp(ts).to_pydatetime()
            if self.mode == 'date':
                q = (ts - BASE).total_seconds() / 60.0 / self.unit
            else:
                d = (ts.date() - BASE.date()).days
                k = (ts - datetime.datetime.combine(ts.date(), datetime.time())).total_seconds() / 60.0 / self.unit + 1
                q = d * self.B + k if 1 <= k < self.B else -9
            return int(q) if q == int(q) and 0 < q < 2 ** 31 - 1 else -9
        except Exception:
            return -9

    def index(self, rows):
        return pd.DatetimeIndex([self.stamp(t) for t in rows])

    def spec(self):
        return [self.mode, self.B, self.unit]


def cell(v):
    try:
        v = float(v)
    except Exception:
        return -3
    if math.isnan(v):
        return NAN
    return int(v) if v == int(v) and 0 <= v < 2 ** 31 - 1 else -2


def series(clock, rows, col):
    return pd.Series(np.array([float(v) for v in col], dtype=float), clock.index(rows))


def frame(clock, s):
    return pd.DataFrame({COLNAMES[j]: np.array([float(v) for v in col], dtype=float) for j, col in enumerate(s['cols'])},
                        index=clock.index(s['rows']), columns=COLNAMES[:len(s['cols'])])


def enc(res, clock, names=None):
    """a Series -> one column, a DataFrame (with the expected column labels) -> its columns"""
    if isinstance(res, pd.Series):
        return {'kind': 'val', 'rows': [clock.grid(t) for t in res.index], 'cols': [[cell(v) for v in res.values]]}
    if isinstance(res, pd.DataFrame) and (names is None or list(res.columns) == list(names)):
        return {'kind': 'val', 'rows': [clock.grid(t) for t in res.index],
                'cols': [[cell(v) for v in res.iloc[:, j].values] for j in range(res.shape[1])]}
    return {'kind': 'other', 'type': type(res).__name__, 'rows': [], 'cols': []}


def exc(e):
    return {'kind': 'exc', 'cls': type(e).__name__, 'rows': [], 'cols': []}


# ---------------------------------------------------------------------------------------------
# the calls
# ---------------------------------------------------------------------------------------------
def observe_slice(case):
    """case: {kind/mode, B, unit, s, lb, ub, oc, spelling}"""
    from pyg_base import df_slice
    mode = case.get('mode') or case['kind']
    clock = Clock(mode, case['B'], case['unit'])
    s = case['s']
    lb, ub = clock.bound(case['lb']), clock.bound(case['ub'])
    oc = ''.join(case['oc'])
    sp = case.get('spelling', 0)
    if sp % 3 == 2:
        oc = oc.replace('[', 'c').replace(']', 'c').replace('(', 'o').replace(')', 'o')
    runs = []
    for carrier in ('ser', 'df'):
        x = series(clock, s['rows'], s['cols'][0]) if carrier == 'ser' else frame(clock, s)
        if carrier == 'ser' and sp >= 6:
            x.name = 'close'           # a named series (the statement is indifferent to names)
        try:
            with warnings.catch_warnings():
                warnings.simplefilter('ignore')
                if sp % 3 == 1 and lb is not None and ub is not None:
                    res = df_slice(x, (lb, ub), None, oc)
                elif sp % 2 == 1:
                    res = df_slice(x, lb=lb, ub=ub, openclose=oc)
                else:
                    res = df_slice(x, lb, ub, oc)
            out = enc(res, clock, None if carrier == 'ser' else COLNAMES[:len(s['cols'])])
            if carrier == 'ser' and not isinstance(res, pd.Series):
                out = {'kind': 'other', 'type': type(res).__name__, 'rows': [], 'cols': []}
        except Exception as e:
            out = exc(e)
        runs.append({'carrier': carrier, 'out': out})
    return {'op': 'slice', 'mode': mode, 'B': case['B'], 'unit': case['unit'], 's': s, 'lb': case['lb'], 'ub': case['ub'],
            'oc': case['oc'], 'spelling': sp, 'runs': runs}


def observe_session(case):
    """case: {ss, ubs, ns, unit, name}: a session of stitch calls df_slice(xs, ub=bounds, n=n), n in ns, all on the SAME
    list objects xs / bounds (as a caller does who stitches 1-wide, then 2-wide ...).  After every call the two argument
    lists are read again.  For increasing bounds each stitched result is also handed to df_unslice and the recovered
    series are stitched again.  All series carry case['name'] (None or a shared name such as 'close')."""
    from pyg_base import df_slice, df_unslice
    clock = Clock('date', 100, case['unit'])
    ss, ubs, name = case['ss'], case['ubs'], case.get('name')
    xs = [series(clock, s['rows'], s['cols'][0]) for s in ss]
    if name:
        for x in xs:
            x.name = name
    originals = list(xs)
    bounds = [clock.bound(u) for u in ubs]
    increasing = all(a < b for a, b in zip(ubs, ubs[1:]))
    calls, unst = [], []
    for n in case['ns']:
        res = None
        try:
            with warnings.catch_warnings():
                warnings.simplefilter('ignore')
                res = df_slice(xs, ub=bounds, n=n)
            out = enc(res, clock)          # a Series or a frame; the statement does not name the column labels
        except Exception as e:
            out = exc(e)
        ubs_after = [clock.grid(b) if isinstance(b, datetime.datetime) else -9 for b in bounds] if isinstance(bounds, list) else [-9]
        pos = {id(x): i + 1 for i, x in enumerate(originals)}
        ss_after = [pos.get(id(x), -9) for x in xs] if isinstance(xs, list) else [-9]
        for i, x in enumerate(originals):          # ... and the series themselves still hold what they held
            e0 = enc(x, clock)
            if {'rows': e0['rows'], 'cols': e0['cols']} != ss[i] and (i + 1) in ss_after:
                ss_after[ss_after.index(i + 1)] = -8
        calls.append({'n': n, 'out': out, 'ubs_after': ubs_after, 'ss_after': ss_after})
        if out['kind'] == 'val' and increasing and ubs_after == ubs:
            F = {'rows': out['rows'], 'cols': out['cols']}
            again = None
            try:
                with warnings.catch_warnings():
                    warnings.simplefilter('ignore')
                    u = df_unslice(res, list(bounds))
                keys = sorted(u.keys())
                uo = {'kind': 'val', 'keys': [clock.grid(k) for k in keys], 'series': []}
                for k in keys:
                    e1 = enc(u[k], clock)
                    if e1['kind'] != 'val' or not isinstance(u[k], pd.Series):
                        uo = {'kind': 'other', 'type': type(u[k]).__name__}
                        break
                    uo['series'].append({'rows': e1['rows'], 'cols': e1['cols']})
                if uo['kind'] == 'val' and [clock.grid(k) for k in keys] == ubs:
                    try:
                        with warnings.catch_warnings():
                            warnings.simplefilter('ignore')
                            again = enc(df_slice([u[k] for k in keys], ub=list(bounds), n=n), clock)
                    except Exception as e:
                        again = exc(e)
            except Exception as e:
                uo = exc(e)
            unst.append({'op': 'unstitch', 'F': F, 'ubs': ubs, 'n': n, 'unit': case['unit'], 'named': bool(name), 'out': uo, 'again': again})
    return [{'op': 'session', 'ss': ss, 'ubs': ubs, 'unit': case['unit'], 'named': bool(name), 'calls': calls}] + unst


def slice_kind(o):
    if o['mode'] == 'tod' and o['lb'] and o['ub'] and o['lb'] > o['ub']:
        return 'tod_wrap'
    return o['mode']


def key_slice(o, carrier=None):
    c = {'op': 'df_slice', 'kind': slice_kind(o), 'oc': ''.join(o['oc']), 'lb': o['lb'], 'ub': o['ub'], 's': o['s'],
         'clock': [o['mode'], o['B'], o['unit']], 'spelling': o['spelling']}
    if carrier:
        c['carrier'] = carrier
    return c


def key_stitch(o, k=None):
    """o: a session (k = the 0-based index of the failing call) or an unstitch observation"""
    if o['op'] == 'session':
        inc = all(a < b for a, b in zip(o['ubs'], o['ubs'][1:]))
        k = 0 if k is None else k
        return {'op': 'df_slice', 'kind': 'stitch', 'n': o['calls'][k]['n'], 'k': len(o['ss']), 'direction': 'increasing' if inc else 'decreasing',
                'has_empty': any(len(x['rows']) == 0 for x in o['ss']), 'named': o['named'], 'call': k + 1,
                'ns': [c['n'] for c in o['calls']], 'ubs': o['ubs'], 'ss': o['ss'], 'unit': o['unit']}
    return {'op': 'df_unslice', 'kind': 'unstitch', 'n': o['n'], 'k': len(o['ubs']), 'named': o['named'], 'ubs': o['ubs'], 'F': o['F'], 'unit': o['unit']}


# ---------------------------------------------------------------------------------------------
# S2C: replay of the cases TLC enumerated
# ---------------------------------------------------------------------------------------------
S2C_UNIT = {'date': 720, 'tod': 150, 'stitch': 720}      # grid step in minutes


def s2c_chunk(cases):
    res = []
    for case in cases:
        viol, tolog, nevals, nt = [], [], 0, False
        if case['kind'] in ('date', 'tod'):
            o = observe_slice(dict(case, unit=S2C_UNIT[case['kind']]))
            want = case['want']
            for r in o['runs']:
                nevals += 1
                w = want if r['carrier'] == 'df' else {'rows': want['rows'], 'cols': want['cols'][:1]}
                out = r['out']
                if out['kind'] != 'val':
                    viol.append(('slice_raised', key_slice(o, r['carrier']), {'expected': w, 'observed': out}))
                elif out['rows'] != w['rows']:
                    viol.append(('slice_rows', key_slice(o, r['carrier']), {'expected': w['rows'], 'observed': out['rows']}))
                elif out['cols'] != w['cols']:
                    viol.append(('slice_values', key_slice(o, r['carrier']), {'expected': w['cols'], 'observed': out['cols']}))
            nt = 0 < len(want['rows']) < len(case['s']['rows'])
        else:
            # a session: the cases TLC printed for one (series list, bound list), replayed as consecutive calls on the
            # same argument objects; call k must return what TLC expects for its n and leave the arguments alone
            obs = observe_session(dict(case, unit=S2C_UNIT['stitch']))
            se, uns = obs[0], {o['n']: o for o in obs[1:]}
            idk = list(range(1, len(case['ss']) + 1))
            for k, call in enumerate(se['calls']):
                nevals += 1
                want, out = case['wants'][str(call['n'])], call['out']
                bad = True
                if out['kind'] != 'val':
                    viol.append(('stitch_raised', key_stitch(se, k), {'expected': want, 'observed': out}))
                elif out['rows'] != want['rows']:
                    viol.append(('stitch_rows', key_stitch(se, k), {'expected': want['rows'], 'observed': out['rows']}))
                elif out['cols'] != want['cols']:
                    viol.append(('stitch_values', key_stitch(se, k), {'expected': want['cols'], 'observed': out['cols']}))
                elif call['ubs_after'] != case['ubs'] or call['ss_after'] != idk:
                    viol.append(('argument_changed', key_stitch(se, k), {'ubs': case['ubs'], 'ubs_after': call['ubs_after'], 'ss_after': call['ss_after']}))
                else:
                    bad = False
                nt = nt or len({c // 1000 for col in want['cols'] for c in col if c != NAN}) > 1
                if bad:
                    break                          # the rest of the session runs on damaged arguments
                un = uns.get(call['n'])
                if un is not None and k < len(case['wants']):      # df_unslice is claimed for stitched frames only
                    nevals += 2
                    tolog.append({kk: v for kk, v in un.items() if kk != 'again'})      # judged by Trace_Slice
                    if un['again'] is not None:
                        ag = un['again']
                        if ag['kind'] != 'val' or {'rows': ag['rows'], 'cols': ag['cols']} != want:
                            viol.append(('unstitch_restitch', key_stitch(un), {'expected': want, 'observed': ag}))
        res.append((viol, tolog, nevals, nt))
    return res


def c2s_chunk(cases):
    out = []
    for c in cases:
        if c['op'] == 'slice':
            out.append(observe_slice(c))
        else:
            out += [{k: v for k, v in o.items() if k != 'again'} for o in observe_session(c)]
    return out


PENDING = []       # (clause, case, detail) of the whole run; reported at the end, one representative per kind first


def report(ctx):
    seen, first, rest = set(), [], []
    for v in PENDING:
        c = v[1]
        k = (v[0], c['op'], c['kind'], c.get('oc'), c.get('n'), c.get('direction'), c.get('has_empty'), c.get('carrier'))
        (rest if k in seen else first).append(v)
        seen.add(k)
    for clause, key, detail in first + rest:
        ctx.violation(clause, key, detail)
    del PENDING[:]


def judge(ctx, obs):
    bad = ctx.validate('Trace_Slice', obs)
    for i, clause in bad:
        o = obs[i - 1]
        if o['op'] == 'slice':
            PENDING.append((clause, key_slice(o), {'runs': o['runs']}))
        elif o['op'] == 'session':
            PENDING.append((clause, key_stitch(o), {'calls': o['calls']}))
        else:
            PENDING.append((clause, key_stitch(o), {'observed': o['out']}))
    return bad


def sessions_of(stitch_cases):
    """group TLC's stitch cases by their arguments: one session per (series list, bound list), one call per n that TLC
    printed an expectation for, the first n once more at the end; every other session uses named series"""
    import json
    groups = {}
    for c in stitch_cases:
        groups.setdefault(json.dumps([c['ss'], c['ubs']], sort_keys=True), []).append(c)
    out = []
    for g, key in enumerate(sorted(groups)):
        cs = sorted(groups[key], key=lambda c: c['n'])
        ns = [c['n'] for c in cs]
        ns = ns[g % len(ns):] + ns[:g % len(ns)]          # rotate the order of the calls
        out.append({'kind': 'session', 'ss': cs[0]['ss'], 'ubs': cs[0]['ubs'], 'ns': ns + ns[:1],
                    'wants': {str(c['n']): c['want'] for c in cs}, 'name': 'close' if g % 2 else None})
    return out


def s2c(ctx, cases, tag):
    import json
    # TLC's workers print the cases in a schedule-dependent order: sort them (spellings, samples depend on the seed only)
    cases = sorted(cases, key=lambda c: json.dumps(c, sort_keys=True))
    cases = [c for c in cases if c['kind'] != 'stitch'] + sessions_of([c for c in cases if c['kind'] == 'stitch'])
    for i, c in enumerate(cases):
        c['spelling'] = i % 12
    out = pmap(s2c_chunk, cases, chunk=400)
    tolog = []
    for i, (case, (viol, lg, nevals, nt)) in enumerate(zip(cases, out)):
        PENDING.extend(viol)
        tolog += lg
        ctx.evals += nevals
        ctx.traces += len(case['wants']) if case['kind'] == 'session' else 1
        if nt:
            ctx.note(('s2c', repr([case.get(k) for k in ('kind', 's', 'lb', 'ub', 'oc', 'ss', 'ubs', 'ns')])))
        if i % 15013 == 11 or (case['kind'] == 'session' and i % 1013 == 5):
            ctx.sample({'s2c_case_' + tag: case}, limit=6)
    if tolog:
        judge(ctx, tolog)


# ---------------------------------------------------------------------------------------------
# C2S inputs: random daily / intraday series with gaps, random bounds
# ---------------------------------------------------------------------------------------------
OCS = [['[', ']'], ['[', ')'], ['(', ']'], ['(', ')']]


def rand_bound(rng, pts, lo, hi):
    r = rng.random()
    if r < 0.12 or not pts:
        return 0 if r < 0.12 else rng.randrange(lo, hi + 1)
    if r < 0.55:
        return rng.choice(pts)                       # on an index point
    if r < 0.65:
        return max(lo, min(pts) - rng.randrange(1, 4))      # before
    if r < 0.75:
        return min(hi, max(pts) + rng.randrange(1, 4))      # after
    return rng.randrange(lo, hi + 1)                 # anywhere (mostly between)


def rand_slice(rng):
    ncols = rng.choice([1, 2, 2, 3])
    if rng.random() < 0.5:
        # daily-ish series on a minute grid: timestamps are minutes since BASE
        step = rng.choice([1440, 1440, 60, 5, 1])
        n = rng.choice([0, 1, 2, 5, 20, 60])
        pts = sorted(rng.sample(range(1, 121), min(n, 120)))
        rows = [p * step for p in pts]
        keys = rows
        lo, hi = 1, 125 * step
        mode, B = 'date', 100
        bnd = lambda: (lambda b: b if b == 0 or rng.random() < 0.7 else min(hi, b + rng.choice([-1, 1]) * rng.randrange(0, step)))(rand_bound(rng, keys, lo, hi))
    else:
        # intraday series: several days, minutes of the day; bounds are times of day
        mode, B = 'tod', 2000
        days = rng.sample(range(1, 9), rng.choice([1, 2, 3, 5]))
        mins = sorted(rng.sample(range(0, 1440, rng.choice([1, 5, 60, 240])), rng.choice([1, 2, 4, 6])))
        rows = sorted(d * B + m + 1 for d in days for m in mins if rng.random() < 0.8)
        keys = sorted({r % B for r in rows})
        lo, hi = 1, 1440
        bnd = lambda: rand_bound(rng, keys, lo, hi)
    lb, ub = bnd(), bnd()
    s = {'rows': rows, 'cols': [[rng.randrange(0, 1000000) for _ in rows] for _ in range(ncols)]}
    return {'op': 'slice', 'mode': mode, 'B': B, 'unit': 1, 's': s, 'lb': lb, 'ub': ub, 'oc': rng.choice(OCS), 'spelling': rng.randrange(0, 12)}


def rand_stitch(rng):
    k = rng.choice([1, 2, 3, 4, 6])
    step = rng.choice([1440, 60])
    ss = []
    for i in range(k):
        n = rng.choice([0, 1, 5, 20, 40])
        pts = sorted(rng.sample(range(1, 61), min(n, 60)))
        ss.append({'rows': [p * step for p in pts], 'cols': [[1000 * (i + 1) + p for p in pts]]})
    ubs = sorted(rng.sample(range(1, 66), k))
    ubs = [u * step + rng.choice([0, 0, 1, -1, step // 2]) for u in ubs]
    ubs = sorted(set(ubs))
    while len(ubs) < k:
        ubs.append(ubs[-1] + step)
    if rng.random() < 0.35:
        ubs = ubs[::-1]
    return {'op': 'session', 'ss': ss, 'ubs': ubs, 'ns': [rng.randrange(1, k + 1) for _ in range(rng.choice([1, 2, 2, 3]))], 'unit': 1,
            'name': rng.choice([None, 'close', 'px'])}


def c2s(ctx, n_slice, n_stitch):
    cases = [rand_slice(ctx.rng) for _ in range(n_slice)] + [rand_stitch(ctx.rng) for _ in range(n_stitch)]
    obs = pmap(c2s_chunk, cases, chunk=100)
    ctx.evals += sum(len(o['runs']) if o['op'] == 'slice' else len(o['calls']) if o['op'] == 'session' else 1 for o in obs)
    judge(ctx, obs)
    for o in obs:
        if o['op'] == 'slice':
            got = o['runs'][0]['out']
            if 0 < len(got['rows']) < len(o['s']['rows']):
                ctx.note(('c2s', repr((o['s']['rows'], o['lb'], o['ub'], o['oc'], o['mode']))))
        elif o['op'] == 'session' and len(o['ss']) > 1 and any(c['out']['rows'] for c in o['calls']):
            ctx.note(('c2s', repr((o['ss'], o['ubs'], [c['n'] for c in o['calls']]))))
    ctx.sample({'c2s_observation': obs[len(obs) // 3]})
    return obs


def replay(ctx, body):
    """./check C13 --replay <file>: run the recorded case again and let Trace_Slice judge it"""
    import json, shutil
    c = body['case']
    if c['kind'] in ('date', 'tod', 'tod_wrap'):
        mode, B, unit = c['clock']
        obs = [observe_slice({'mode': mode, 'B': B, 'unit': unit, 's': c['s'], 'lb': c['lb'], 'ub': c['ub'], 'oc': list(c['oc']),
                              'spelling': c.get('spelling', 0)})]
    elif c['kind'] == 'stitch':
        obs = observe_session({'ss': c['ss'], 'ubs': c['ubs'], 'ns': c.get('ns') or [c['n']], 'unit': c['unit'], 'name': 'close' if c.get('named') else None})[:1]
    else:
        # an unstitch case: rebuild the frame as df_slice returns it and call df_unslice again
        from pyg_base import df_unslice
        clock = Clock('date', 100, c['unit'])
        F, n = c['F'], c['n']
        x = series(clock, F['rows'], F['cols'][0]) if n == 1 else pd.DataFrame(
            {j: [np.nan if v == NAN else float(v) for v in col] for j, col in enumerate(F['cols'])}, index=clock.index(F['rows']))
        try:
            u = df_unslice(x, [clock.bound(b) for b in c['ubs']])
            keys = sorted(u.keys())
            out = {'kind': 'val', 'keys': [clock.grid(k) for k in keys], 'series': [{k2: enc(u[k], clock)[k2] for k2 in ('rows', 'cols')} for k in keys]}
        except Exception as e:
            out = exc(e)
        obs = [{'op': 'unstitch', 'F': F, 'ubs': c['ubs'], 'n': n, 'unit': c['unit'], 'out': out}]
    bad = ctx.validate('Trace_Slice', obs)
    print(json.dumps(obs[0])[:4000])
    print('REPLAY property=C13 %s' % ('rejected: %s' % bad[0][1] if bad else 'accepted by the specification'))
    shutil.rmtree(ctx.tmp, ignore_errors=True)
    return 1 if bad else 0


def run(ctx):
    ctx.rule = ('S2C: every (index subset, lb, ub, bracket pair) of the date and time-of-day universes and every (series list, '
                'bound list, n) of the stitch universe that TLC enumerates is replayed through df_slice on pd.Series and '
                'pd.DataFrame (df_unslice + re-stitching for increasing bound lists) and compared with == to the outcome TLC '
                'printed; df_unslice results and the C2S runs (random daily/intraday series with gaps, random bounds, 1-6 series) '
                'are judged by Trace_Slice.  Non-trivial = the slice keeps some but not all rows / the stitched result draws on '
                'more than one series; distinct by the abstract case.')
    # the model of today's wrap-around branch breaks the law for brackets other than "(]" (design-level witness)
    ctx.mc('MC_Slice', 'MC_Slice_wrapmech.cfg', must_fail='WrapMechIsLaw', coverage=False)
    if ctx.quick:
        ctx.mc('MC_Slice', 'MC_Slice_quick.cfg')
        s2c(ctx, ctx.generate('MC_Slice', 'MC_Slice_gen.cfg'), 'quick')
        c2s(ctx, 1500, 300)
    else:
        ctx.mc('MC_Slice', 'MC_Slice_thorough.cfg')
        s2c(ctx, ctx.generate('MC_Slice', 'MC_Slice_gen_big.cfg'), 'big')
        c2s(ctx, 20000, 4000)
    report(ctx)
    ctx.exhaustive = False
    ctx.assumptions += [
        'indexes are sorted and free of duplicates; values are non-negative integer-valued floats (data independence)',
        'small-scope: MC/S2C date slices on subsets of 5-6 (thorough 8) index points with bounds on a grid twice as fine; time-of-day '
        'slices on 2 days x 3 (thorough 4) slots; stitching 1-3 (thorough 4) series over 2-4 index points; C2S series <= 60 points',
        'bounds are handed over as datetime.datetime / datetime.time (other spellings of a date are property C04); the bound pair is '
        'also spelled as a tuple and the brackets also as the letters c / o',
        'df_unslice is exercised on frames that df_slice produced from NaN-free series with increasing bounds',
    ]
