"""C04 - dt() maps every supported spelling of an instant to the same datetime.

TLA+ (spec/Dates.tla: Denote / Expected / YMDOverflow on top of Civil.tla) decides what every spelling
(form, written integers, dialect) means.  This driver only
  * renders spellings into concrete arguments (objects, integers, strings - formatted by hand),
  * calls pyg_base.dt / ymd / dt2str,
  * encodes the outcome as ["ok", ordinal, second, microsecond] / ["exc", class] / ["other", type],
  * compares with == against what TLC printed (S2C) or hands the log to spec/Trace_Dt.tla (C2S).
The calendar itself (length and first ordinal of every month of 1900..2299) is printed by TLC
(MC_Dates_genmonths.cfg); the driver walks through it and does no calendar arithmetic of its own.
"""
import datetime, json, os, random, warnings
import multiprocessing as mp
from harness.core import Machinery

LONG = ['January', 'February', 'March', 'April', 'May', 'June', 'July', 'August', 'September', 'October', 'November', 'December']
SEVEN = ('datetime', 'pd_timestamp', 'pd_ns', 'np_us', 'dt2str')
NS_FORMS = ('pd_ns', 'np_ns')
STRING_FORMS = ('iso_str', 'yyyymmdd_str', 'monthname_str', 'numeric_str', 'dt2str')
# form -> the amounts of time of day that can be written (spec/Dates.tla: Tls)
# (strings: 2 = hour:minute, 10 + k = the seconds with k decimals - spec/Dates.tla: FracTls)
NEW_TLS = (2, 11, 12, 13, 14, 15, 17, 18, 19)
BASE_TLS = (0, 3, 4)
NOISE_FORMS = ('yyyymmdd_frac', 'ordinal_frac')         # accepted by dt(), not pinned by the statement: only ever called BEFORE judged calls
TLS = {'datetime': (0, 3, 4), 'pd_timestamp': (0, 3, 4), 'pd_ns': (0, 3, 4), 'np_us': (0, 3, 4), 'dt2str': (0, 3, 4),
       'iso_str': BASE_TLS + NEW_TLS, 'monthname_str': BASE_TLS + NEW_TLS, 'numeric_str': BASE_TLS + NEW_TLS, 'np_ns': (0, 3, 4), 'parts': (0, 3),
       'np_h': (1,), 'np_m': (2,), 'np_s': (3,), 'pd_s': (3,), 'np_ms': (5,),
       'date': (0,), 'np_D': (0,), 'yyyymmdd_int': (0,), 'yyyymmdd_str': (0,), 'ordinal_int': (0,)}
FORMS = sorted(TLS)

# renderings: how the written integers become characters.  The specification never sees them.
NUMERIC_V = [{'sep': s, 'pad': p} for s in '-/. ' for p in (1, 0)]
MONTHNAME_V = [dict(order=o, sep=s, name=n, pad=p) for o, s, n, p in [
    ('dmy', ' ', 'long', 1), ('dmy', ' ', 'long', 0), ('dmy', ' ', 'short', 0), ('dmy', '-', 'short', 1), ('dmy', '/', 'short', 0),
    ('dmy', '.', 'long', 1), ('dmy', ' ', 'upper', 0), ('dmy', ' ', 'lower', 1),
    ('mdy', ' ', 'long', 0), ('mdy', ', ', 'short', 1), ('mdy', '-', 'short', 0), ('mdy', '/', 'long', 1), ('mdy', '.', 'short', 0),
    ('ymd', ' ', 'long', 0), ('ymd', '-', 'short', 1)]]
ISO_V = [{'sep': 'T'}, {'sep': ' '}, {'sep': 'T', 'dec': ','}]         # (ISO 8601 writes the decimal sign as '.' or ',')


def variants(form, tl):
    """the renderings of a spelling class (their number is MC_DatesSess!NV)"""
    if form == 'numeric_str':
        return NUMERIC_V
    if form == 'monthname_str':
        return MONTHNAME_V
    if form == 'iso_str' and tl:
        return ISO_V if tl == 4 or tl > 10 else ISO_V[:2]
    return [{}]


def some_variants(form, tl, salt):
    """single-call families: the spelling classes added in round 4 take two of their renderings, in turn"""
    vs = variants(form, tl)
    if tl not in NEW_TLS or len(vs) <= 2:
        return vs
    return [vs[(salt + tl) % len(vs)], vs[(salt + tl + 3) % len(vs)]]


def vname(v):
    return ','.join('%s=%s' % kv for kv in sorted(v.items())) or '-'


# ---------------------------------------------------------------------------------------------
# rendering
def _hms(g, dec='.'):
    if not g:
        return ''
    if len(g) == 2:
        return '%02d:%02d' % tuple(g)
    s = '%02d:%02d:%02d' % tuple(g[:3])
    if len(g) == 5:                           # the integer g[3] written with g[4] decimals
        return s + dec + '%0*d' % (g[4], g[3])
    return s + (dec + '%06d' % g[3] if len(g) == 4 else '')


def _monthname(m, style):
    n = LONG[m - 1]
    return {'long': n, 'short': n[:3], 'upper': n.upper(), 'lower': n[:3].lower()}[style]


def render(form, f, v):
    """the positional arguments of dt()/ymd() for this spelling"""
    import numpy as np, pandas as pd
    if form == 'datetime':
        return (datetime.datetime(*f),)
    if form == 'date':
        return (datetime.date(*f),)
    if form == 'parts':
        return tuple(f)
    if form in ('yyyymmdd_int', 'ordinal_int'):
        return (int(f[0]),)
    if form in NOISE_FORMS:                   # a whole number plus num/den of a day, den a power of two: an exact float
        return (float(f[0]) + f[1] / f[2],)
    if form.startswith('np_'):
        unit = form[3:]
        s = '%04d-%02d-%02d' % tuple(f[:3])
        if unit != 'D':
            s += 'T%02d' % f[3]
        if unit not in ('D', 'h'):
            s += ':%02d' % f[4]
        if unit not in ('D', 'h', 'm'):
            s += ':%02d' % f[5]
        if unit in ('ms', 'us', 'ns'):
            s += '.' + {'ms': '%03d', 'us': '%06d', 'ns': '%09d'}[unit] % f[6]
        return (np.datetime64(s, unit),)
    if form in ('pd_timestamp', 'pd_ns'):
        t = pd.Timestamp(year=f[0], month=f[1], day=f[2], hour=f[3], minute=f[4], second=f[5], microsecond=f[6])
        return (t.as_unit('ns') if form == 'pd_ns' else t,)
    if form == 'pd_s':
        return (pd.Timestamp(year=f[0], month=f[1], day=f[2], hour=f[3], minute=f[4], second=f[5]).as_unit('s'),)
    if form == 'iso_str':
        return ('%04d-%02d-%02d' % tuple(f[:3]) + (v.get('sep', 'T') + _hms(f[3:], v.get('dec', '.')) if len(f) > 3 else ''),)
    if form == 'yyyymmdd_str':
        return ('%08d' % f[0],)
    if form == 'numeric_str':
        n = '%02d' if v['pad'] else '%d'
        return (n % f[0] + v['sep'] + n % f[1] + v['sep'] + '%04d' % f[2] + (' ' + _hms(f[3:]) if len(f) > 3 else ''),)
    if form == 'monthname_str':
        y, mon, d = '%04d' % f[0], _monthname(f[1], v['name']), ('%02d' if v['pad'] else '%d') % f[2]
        sep = v['sep']
        if v['order'] == 'dmy':
            s = d + sep + mon + sep + y
        elif v['order'] == 'mdy':
            s = mon + (' ' if sep == ', ' else sep) + d + sep + y
        else:
            s = y + sep + mon + sep + d
        return (s + (' ' + _hms(f[3:]) if len(f) > 3 else ''),)
    if form == 'dt2str':
        from pyg_base import dt2str
        return (dt2str(datetime.datetime(*f)),)
    raise ValueError(form)


def encode(r):
    if isinstance(r, datetime.datetime) and r.tzinfo is None and getattr(r, 'nanosecond', 0) == 0:
        return ['ok', r.toordinal(), r.hour * 3600 + r.minute * 60 + r.second, r.microsecond]
    return ['other', type(r).__name__]


def call(op, args, dl):
    """one public call; the outcome encoded (ParserError & co are ValueErrors: `except ValueError` catches them)"""
    from pyg_base import dt, ymd
    fn = dt if op == 'dt' else ymd
    try:
        with warnings.catch_warnings():
            warnings.simplefilter('ignore')
            r = fn(*args) if dl == 'uk' else fn(*args, dialect=dl)     # 'uk' is the default dialect
    except Exception as e:
        return ['exc', 'ValueError' if isinstance(e, ValueError) else type(e).__name__]
    return encode(r)


def observe(op, form, f, dl, v):
    try:
        args = render(form, f, v)
    except Exception as e:
        raise Machinery('cannot render %s %r %r: %r' % (form, f, v, e))
    return call(op, args, dl), args


# ---------------------------------------------------------------------------------------------
# how a writer arranges the integers of an instant (mirrors Dates!Spell; Trace_Dt re-derives it and the
# first spelling of every packed line is sent along so that TLC can reject a disagreement as bad_input)
def trunc(t, tl):
    h, mi, s, us = t
    if tl > 10:
        return (h, mi, s, us - us % 10 ** (16 - tl)) if tl < 16 else (h, mi, s, us)
    return {0: (0, 0, 0, 0), 1: (h, 0, 0, 0), 2: (h, mi, 0, 0), 3: (h, mi, s, 0), 4: (h, mi, s, us), 5: (h, mi, s, us - us % 1000)}[tl]


def spell(form, y, m, d, t, wr, tl, ord1):
    w = trunc(t, tl)
    if tl > 10:
        tail = list(w[:3]) + [w[3] // 10 ** (16 - tl) if tl <= 16 else w[3] * 10 ** (tl - 16), tl - 10]
    else:
        tail = {0: [], 2: list(w[:2]), 3: list(w[:3]), 4: list(w)}.get(tl)
    if form in SEVEN:
        return [y, m, d] + list(w)
    if form in ('date', 'np_D'):
        return [y, m, d]
    if form == 'np_h':
        return [y, m, d, w[0]]
    if form == 'np_m':
        return [y, m, d, w[0], w[1]]
    if form in ('np_s', 'pd_s'):
        return [y, m, d, w[0], w[1], w[2]]
    if form == 'np_ms':
        return [y, m, d, w[0], w[1], w[2], w[3] // 1000]
    if form == 'np_ns':
        return [y, m, d, w[0], w[1], w[2], w[3] * 1000]
    if form in ('parts', 'iso_str', 'monthname_str'):
        return [y, m, d] + tail
    if form in ('yyyymmdd_int', 'yyyymmdd_str'):
        return [y * 10000 + m * 100 + d]
    if form == 'ordinal_int':
        return [ord1 + d - 1]              # ord1 = TLC's ordinal of the first of the month
    if form == 'numeric_str':
        return ([d, m, y] if wr == 'dmy' else [m, d, y]) + tail
    raise ValueError(form)


def rand_tod(rng):
    r = rng.random()
    if r < 0.08:
        return [0, 0, 0, 0]
    if r < 0.16:
        return [23, 59, 59, 999999]
    if r < 0.24:
        return [0, 0, 0, rng.choice([1, 999, 1000, 999999])]
    if r < 0.32:
        return [rng.randrange(24), 0, 0, 0]
    return [rng.randrange(24), rng.randrange(60), rng.randrange(60), rng.choice([0, rng.randrange(1000000), rng.randrange(1000) * 1000])]


# ---------------------------------------------------------------------------------------------
# findings: one violation per (clause, spelling class, rendering, kind), with the first witness and a count
class Findings(object):
    """one violation per (clause, op, form, dialect, writer convention, kind of failure); the rendering keys (sep, pad, order,
    name) and the time length appear in the case only when all failing members of the group share them"""
    OPT = ('tl', 'sep', 'pad', 'order', 'name')

    def __init__(self):
        self.by = {}

    def add(self, clause, op, form, dl, wr, tl, v, f, args, want, got, where=None):
        kind = 'raised' if got[0] == 'exc' else ('wrong_value' if got[0] == 'ok' else 'not_a_datetime')
        case = {'op': op, 'form': form, 'dialect': dl, 'wr': wr, 'kind': kind}
        if where and where.get('after'):          # the call was made after another one: the class of the history
            case['after'] = where['after']
        opt = dict(v, tl=tl)
        key = json.dumps([clause, case], sort_keys=True)
        e = self.by.get(key)
        if e is None:
            wit = dict(f=f, arg=args if isinstance(args, str) else repr(args)[:200], rendering=dict(v))
            if where:
                wit.update(where)
            self.by[key] = e = {'clause': clause, 'case': case, 'common': dict(opt), 'witness': wit,
                                'detail': {'expected': want, 'observed': got, 'count': 0, 'failing_renderings': set()}}
        e['common'] = {k: x for k, x in e['common'].items() if opt.get(k, None) == x}
        e['detail']['count'] += 1
        e['detail']['failing_renderings'].add(vname(opt))

    def report(self, ctx):
        for key in sorted(self.by):
            e = self.by[key]
            e['detail']['failing_renderings'] = sorted(e['detail']['failing_renderings'])
            ctx.violation(e['clause'], dict(e['case'], **e['common'], **e['witness']), e['detail'])


# ---------------------------------------------------------------------------------------------
# S2C: the cases TLC enumerated, every rendering of each, plain == with what TLC expects
def _s2c_day(rec):
    bad, n, nontrivial = [], 0, 0
    for c in rec['cases']:
        form, f, dl = c['form'], c['f'], c['dl']
        for i, v in enumerate(some_variants(form, c['tl'], rec['d'])):
            for op in (('dt', 'ymd') if i == 0 else ('dt',)):
                got, args = observe(op, form, f, dl, v)
                n += 1
                want = c[op]
                if got != want:
                    bad.append(('ymd_drops_time' if op == 'ymd' else c['cl'], op, form, dl, c['wr'], c['tl'], v, f, args, want, got))
        if form not in ('datetime',):
            nontrivial += 1
    return bad, n, nontrivial, len(rec['cases'])


def _s2c_ovf(rec):
    bad, n = [], 0
    for d, w in zip(rec['ds'], rec['want']):
        for op in ('dt', 'ymd'):
            got = call(op, (rec['y'], rec['m'], d), 'uk')
            n += 1
            if got != ['ok', w, 0, 0]:
                bad.append(('overflow', op, 'parts', 'uk', '-', 0, {}, [rec['y'], rec['m'], d], (rec['y'], rec['m'], d), ['ok', w, 0, 0], got))
    return bad, n


def s2c(ctx, pool, cfg, ovf_cfg, findings):
    recs = sorted(ctx.generate('MC_Dates', cfg), key=lambda r: (r['y'], r['m'], r['d']))
    for (bad, n, nt, ncases), rec in zip(pool.map(_s2c_day, recs, 8), recs):
        ctx.evals += n
        ctx.traces += ncases
        for b in bad:
            findings.add(*b, where={'y': rec['y'], 'm': rec['m'], 'd': rec['d']})
        for c in rec['cases']:
            if c['form'] != 'datetime':
                ctx.note(('s2c', c['form'], c['tl'], c['wr'], c['dl'], rec['y'], rec['m'], rec['d']))
    ctx.sample({'s2c_case': dict(recs[len(recs) // 3]['cases'][-1], y=recs[len(recs) // 3]['y'])})
    orecs = sorted(ctx.generate('MC_Dates', ovf_cfg), key=lambda r: (r['y'], r['m']))
    for (bad, n), rec in zip(pool.map(_s2c_ovf, orecs, 8), orecs):
        ctx.evals += n
        ctx.traces += len(rec['ds'])
        for b in bad:
            findings.add(*b)
        if rec['m'] not in range(1, 13):
            ctx.note(('s2c-ovf', rec['y'], rec['m']))
    ctx.sample({'s2c_overflow': {k: orecs[7][k] for k in ('y', 'm')}, 'ds': orecs[7]['ds'][:4], 'want': orecs[7]['want'][:4]})


# ---------------------------------------------------------------------------------------------
# sessions: histories of calls in ONE process image.  Every history starts in a process in which dt() has never been
# called (a forked copy of a parent that has only imported pyg_base), as the session machine of MC_DatesSess starts with
# an empty history; the histories that share such a process are on different calendar days.
def _fresh(fn, payload):
    r, w = os.pipe()
    pid = os.fork()
    if pid == 0:
        code = 1
        try:
            os.close(r)
            try:
                out = json.dumps(['ok', fn(payload)])
            except BaseException as e:
                out = json.dumps(['err', repr(e)[:600]])
            with os.fdopen(w, 'w') as f:
                f.write(out)
            code = 0
        finally:
            os._exit(code)
    os.close(w)
    with os.fdopen(r) as f:
        data = f.read()
    os.waitpid(pid, 0)
    try:
        kind, res = json.loads(data)
    except ValueError:
        raise Machinery('a session process died without an answer')
    if kind != 'ok':
        raise Machinery('a session process failed: %s' % res)
    return res


def _play(calls):
    """the calls of one history, one after the other; equal arguments are the SAME object (rendered once)"""
    made, outs = {}, []
    for c in calls:
        v = c['v']
        key = json.dumps([c['form'], c['f'], v], sort_keys=True)
        if key not in made:
            try:
                made[key] = render(c['form'], c['f'], v)
            except Exception as e:
                raise Machinery('cannot render %s %r %r: %r' % (c['form'], c['f'], v, e))
        outs.append((call(c['op'], made[key], c['dl']), repr(made[key])[:120]))
    return outs


def _show(calls, outs):
    return ['%s(%s%s) -> %s' % (c['op'], a[1:-1].rstrip(','), '' if c['dl'] == 'uk' else ", dialect='us'", json.dumps(o))
            for c, (o, a) in zip(calls, outs)]


def _sess_slot(sessions):
    bad, n = [], 0
    for s in sessions:
        calls = [dict(c, v=variants(c['form'], c['tl'])[c['v']] if c['form'] not in NOISE_FORMS else {}) for c in s['calls']]
        outs = _play(calls)
        n += len(outs)
        for i, (c, (got, arg)) in enumerate(zip(calls, outs)):
            if c['want'] == ['undefined']:
                raise Machinery('the session generator left the domain: %s' % json.dumps(s)[:300])
            if c['want'] != ['unpinned'] and got != c['want']:
                bad.append([c['cl'], c['op'], c['form'], c['dl'], c['wr'], c['tl'], c['v'], c['f'], arg, c['want'], got,
                            {'after': c['cls'], 'call': i + 1, 'history': _show(calls, outs), 'y': s['y'], 'm': s['m'], 'd': s['d'],
                             'calls': [{k: x[k] for k in ('op', 'form', 'f', 'dl', 'v')} for x in calls]}])
    return bad, n


def _sess_slot_job(sessions):
    return _fresh(_sess_slot, sessions)


def s2c_sessions(ctx, pool, cfg, findings, **kw):
    recs = ctx.generate('MC_DatesSess', cfg, **kw)
    by_day = {}
    for r in recs:
        by_day.setdefault((r['y'], r['m'], r['d']), []).append(r)
    slots = {}
    for day in sorted(by_day):          # slot j = the j-th history of every day: no two histories of a process share a day
        for j, r in enumerate(sorted(by_day[day], key=lambda r: json.dumps(r['calls'], sort_keys=True))):
            slots.setdefault(j, []).append(r)
    for bad, n in pool.map(_sess_slot_job, [slots[j] for j in sorted(slots)], 1):
        ctx.evals += n
        for b in bad:
            findings.add(*b[:11], where=b[11])
    ctx.traces += len(recs)
    for r in recs:
        ctx.note(('sess', r['y'], r['m'], r['d']) + tuple((c['cls'], c['op'], c['form'], c['tl'], c['wr'], c['dl']) for c in r['calls']))
    ctx.extra['s2c_sessions'] = ctx.extra.get('s2c_sessions', 0) + len(recs)
    ctx.extra['s2c_session_processes'] = ctx.extra.get('s2c_session_processes', 0) + len(slots)
    ctx.sample({'s2c_session': recs[len(recs) // 2]})


def _rand_call(rng, y, m, d, ord1, op=None):
    form = rng.choice(FORMS + ['numeric_str'] * 6 + ['monthname_str'] * 2 + ['iso_str'] * 3 + ['yyyymmdd_int', 'yyyymmdd_str', 'dt2str'])
    if form in NS_FORMS and y > 2261:
        form = 'np_us'
    tl = rng.choice(TLS[form] if len(TLS[form]) <= 3 or rng.random() < 0.35 else BASE_TLS)
    wr = rng.choice(['dmy', 'mdy']) if form == 'numeric_str' else '-'
    return dict(op=op or rng.choice(['dt', 'dt', 'ymd']), form=form, tl=tl, wr=wr, dl=rng.choice(['uk', 'us']), how='fresh',
                v=rng.choice(variants(form, tl)), f=spell(form, y, m, d, rand_tod(rng), wr, tl, ord1))


def _rand_session(rng, months):
    """2..5 calls on one random day; about half of them collide with the call before (the same spelling in the other
    dialect / through the other entry point / in another rendering / with another time of day), some follow a number
    with a fraction of a day"""
    y = rng.randrange(1900, 2300)
    m = rng.randrange(1, 13)
    dim, ord1 = months[(y, m)]
    d = rng.choice([1, 9, 10, 12, 13, dim, rng.randrange(1, dim + 1), rng.randrange(1, dim + 1)])
    calls = []
    for i in range(rng.choice([2, 2, 3, 3, 4, 5])):
        r = rng.random()
        prev = calls[-1] if calls else None
        if prev is not None and prev['form'] in NOISE_FORMS:
            c = _rand_call(rng, y, m, d, ord1)
            c.update(form='yyyymmdd_int' if prev['form'] == 'yyyymmdd_frac' else 'ordinal_int', tl=0, wr='-', v={}, how='int_part')
            c['f'] = spell(c['form'], y, m, d, [0, 0, 0, 0], '-', 0, ord1)
        elif prev is not None and r < 0.5:
            c = dict(prev)
            how = rng.choice(['dl', 'op', 'v', 't', 'dl+v', 'dl+t'])
            if 'dl' in how:
                c['dl'] = 'us' if prev['dl'] == 'uk' else 'uk'
            if how == 'op':
                c['op'] = 'ymd' if prev['op'] == 'dt' else 'dt'
            if 't' in how:
                c['tl'] = rng.choice(TLS[c['form']])
                c['f'] = spell(c['form'], y, m, d, rand_tod(rng), c['wr'], c['tl'], ord1)
            if 'v' in how or 't' in how:
                c['v'] = rng.choice(variants(c['form'], c['tl']))
            c['how'] = how
        elif r < 0.6 and i < 4:
            form = rng.choice(NOISE_FORMS)
            n = spell('yyyymmdd_int' if form == 'yyyymmdd_frac' else 'ordinal_int', y, m, d, [0, 0, 0, 0], '-', 0, ord1)[0]
            c = dict(op='dt', form=form, tl=0, wr='-', dl=rng.choice(['uk', 'us']), v={}, f=[n, rng.choice([1, 2, 3]), 4], how='noise')
        else:
            c = _rand_call(rng, y, m, d, ord1)
        calls.append(c)
    if calls[-1]['form'] in NOISE_FORMS:      # a noise call is only ever followed by a judged one
        c = _rand_call(rng, y, m, d, ord1)
        c.update(form='yyyymmdd_int' if calls[-1]['form'] == 'yyyymmdd_frac' else 'ordinal_int', tl=0, wr='-', v={}, how='int_part')
        c['f'] = spell(c['form'], y, m, d, [0, 0, 0, 0], '-', 0, ord1)
        calls.append(c)
    return calls


def _sess_record(batch):
    out = []
    for calls in batch:
        outs = _play(calls)
        out.append({'k': 'sess', 'calls': [dict(op=c['op'], form=c['form'], f=c['f'], dl=c['dl'], wr=c['wr'], tl=c['tl'], out=o)
                                           for c, (o, a) in zip(calls, outs)],
                    'vs': [c['v'] for c in calls], 'arg': _show(calls, outs), 'hows': [c['how'] for c in calls]})
    return out


def _sess_record_job(batch):
    return _fresh(_sess_record, batch)


def c2s_sessions(ctx, pool, months):
    """random histories recorded from the code (judged later by Trace_Dt, call by call, with Dates!Expected)"""
    n = 2000 if ctx.quick else 40000
    sessions = [_rand_session(ctx.rng, months) for _ in range(n)]
    lines = [o for part in pool.map(_sess_record_job, [sessions[i:i + 20] for i in range(0, n, 20)], 1) for o in part]
    ctx.evals += sum(len(o['calls']) for o in lines)
    for o in lines:
        ctx.note(('c2s-sess',) + tuple(o['arg']))
    ctx.extra['c2s_sessions'] = len(lines)
    ctx.sample({'c2s_session': {'history': lines[3]['arg'], 'hows': lines[3]['hows']}})
    return lines


# ---------------------------------------------------------------------------------------------
# C2S, packed: one line per (year, spelling class, outcome pattern)
def _pack(outs, with_month):
    """outs: [(m, d, out)] in calendar order -> runs of consecutive days with the same relative outcome"""
    runs = []
    for m, d, out in outs:
        rel = ['ok', out[1] - d, out[2], out[3]] if out[0] == 'ok' else list(out)
        last = runs[-1] if runs else None
        if last is not None and last[0] == m and last[2] == d - 1 and last[3:] == rel:
            last[2] = d
        else:
            runs.append([m, d, d] + rel)
    return runs if with_month else [r[1:] for r in runs]


def plan(y, ops=('dt', 'ymd')):
    """(op, form, tl, wr, dl, rendering) to run on every chosen day of year y"""
    out = []
    for form in FORMS:
        if form in NS_FORMS and y > 2261:
            continue
        wrs = ('dmy', 'mdy') if form == 'numeric_str' else ('-',)
        for wr in wrs:
            for dl in ('uk', 'us'):
                if form == 'monthname_str':       # 15 renderings: each with one amount of time, in turn over the years
                    for i, v in enumerate(MONTHNAME_V):
                        out.append(('dt', form, TLS[form][(i + y) % 3], wr, dl, v))
                else:
                    for tl in TLS[form]:
                        if tl in NEW_TLS and form in STRING_FORMS:
                            continue
                        for v in variants(form, tl):
                            out.append(('dt', form, tl, wr, dl, v))
                if form in STRING_FORMS and len(TLS[form]) > 3:      # hour:minute / k decimals of the seconds: two per year, in turn
                    for j in (0, 4):
                        tl = NEW_TLS[(y + j) % len(NEW_TLS)]
                        vs = variants(form, tl)
                        out.append(('dt', form, tl, wr, dl, vs[(y + 3 * j) % len(vs)]))
                # ymd: every form, the longest time of day it can carry, one rendering in turn
                tl = [t for t in TLS[form] if t not in NEW_TLS or form not in STRING_FORMS][-1] if form != 'monthname_str' else (3, 4)[y % 2]
                vs = variants(form, tl)
                out.append(('ymd', form, tl, wr, dl, vs[y % len(vs)]))
    return [p for p in out if p[0] in ops]


def _year_job(job):
    y, months, days, seed = job         # months: {m: (dim, ord1)}; days: {m: [d...]}
    rng = random.Random(seed * 7919 + y)
    tods = [rand_tod(rng) for _ in range(12)]
    groups, first, calls = {}, {}, 0
    for op, form, tl, wr, dl, v in plan(y):
        outs, f0 = [], None
        for m in sorted(days):
            for d in days[m]:
                f = spell(form, y, m, d, tods[m - 1], wr, tl, months[m][1])
                if f0 is None:
                    f0 = [m, d, f]
                got, _ = observe(op, form, f, dl, v)
                outs.append((m, d, got))
        calls += len(outs)
        runs = _pack(outs, True)
        key = json.dumps([op, form, tl, wr, dl, runs])
        groups.setdefault(key, []).append(v)
        first[key] = f0
    lines = []
    for key in sorted(groups):
        op, form, tl, wr, dl, runs = json.loads(key)
        lines.append({'k': 'yr', 'op': op, 'form': form, 'tl': tl, 'wr': wr, 'dl': dl, 'y': y, 'tods': tods,
                      'n': sum(r[2] - r[1] + 1 for r in runs), 'vs': groups[key], 'f0': first[key], 'runs': runs})
    return lines, calls


def _ovf_job(job):
    y, ds = job
    lines, calls = [], 0
    for m in range(-36, 49):
        for op in (('dt', 'ymd') if (m - y) % 5 == 0 else ('dt',)):
            outs = [(0, d, call(op, (y, m, d), 'uk')) for d in ds]
            calls += len(outs)
            runs = _pack(outs, False)
            lines.append({'k': 'ovf', 'op': op, 'y': y, 'm': m, 'n': len(outs), 'runs': runs})
    return lines, calls


def _single(rng, months):
    """one random spelling of one random instant"""
    y = rng.randrange(1900, 2300)
    m = rng.randrange(1, 13)
    dim, ord1 = months[(y, m)]
    d = rng.choice([1, 9, 10, 12, 13, dim, rng.randrange(1, dim + 1), rng.randrange(1, dim + 1)])
    form = rng.choice(FORMS + ['numeric_str'] * 6 + ['monthname_str'] * 3 + ['iso_str', 'dt2str'])
    if form in NS_FORMS and y > 2261:
        form = 'np_us'
    tl = rng.choice(TLS[form] if len(TLS[form]) <= 3 or rng.random() < 0.35 else BASE_TLS)
    wr = rng.choice(['dmy', 'mdy']) if form == 'numeric_str' else '-'
    v = rng.choice(variants(form, tl))
    return dict(k='one', op=rng.choice(['dt', 'dt', 'ymd']), form=form, f=spell(form, y, m, d, rand_tod(rng), wr, tl, ord1),
                dl=rng.choice(['uk', 'us']), wr=wr, tl=tl, v=v)


def _single_job(obs):
    for o in obs:
        o['out'], args = observe(o['op'], o['form'], o['f'], o['dl'], o['v'])
        o['arg'] = repr(args)[:120]
    return obs


def _canaries(obs):
    """two deliberately corrupted copies of recorded observations: the trace specification must reject them"""
    out = []
    for want in ('one', 'yr', 'ovf', 'sess'):
        for o in obs:
            if o['k'] != want:
                continue
            c = json.loads(json.dumps(o))
            if want == 'one' and c['out'][0] == 'ok':
                c['out'][1] += 1
            elif want == 'yr' and c['runs'][-1][3] == 'ok':
                c['runs'][-1][4] += 1
            elif want == 'ovf' and c['runs'][-1][2] == 'ok':
                c['runs'][-1][5] += 1
            elif want == 'sess' and c['calls'][-1]['out'][0] == 'ok':
                c['calls'][-1]['out'][1] += 1
            else:
                continue
            out.append(c)
            break
    return out


def validate(ctx, obs, findings, months):
    """TLC judges the log (in slices); rejected lines become findings"""
    parts, cur, weight = [], [], 0          # slices of at most 60 000 lines / 3 000 000 judged days
    for o in obs:
        cur.append(o)
        weight += o.get('n', 1)
        if len(cur) >= 60000 or weight >= 3000000:
            parts.append(cur)
            cur, weight = [], 0
    if cur:
        parts.append(cur)
    for part in parts:
        can = _canaries(part)
        lines = [{k: v for k, v in o.items() if k not in ('v', 'arg', 'vs', 'hows')} for o in part + can]
        bad = ctx.validate('Trace_Dt', lines)
        hit = {i for i, _ in bad}
        for j in range(len(can)):
            if len(part) + j + 1 not in hit:
                raise Machinery('Trace_Dt accepted a corrupted observation (%s): the binding is not real' % can[j]['k'])
        for i, clause in bad:
            if i > len(part):
                continue
            o = part[i - 1]
            name, _, where = clause.partition('@')
            if name == 'bad_input':
                raise Machinery('the driver left the domain of the specification (%s): %s' % (clause, json.dumps(o)[:400]))
            if o['k'] == 'one':
                findings.add(name, o['op'], o['form'], o['dl'], o['wr'], o['tl'], o['v'], o['f'], o['arg'], 'see Dates!Expected', o['out'])
            elif o['k'] == 'sess':
                i = int(where.split(':')[0])
                c = o['calls'][i - 1]
                findings.add(name, c['op'], c['form'], c['dl'], c['wr'], c['tl'], o['vs'][i - 1], c['f'], o['arg'][i - 1], 'see Dates!Expected', c['out'],
                             where={'after': 'first' if i == 1 else o['hows'][i - 1], 'call': i, 'history': o['arg'],
                                    'calls': [dict({k: x[k] for k in ('op', 'form', 'f', 'dl')}, v=v) for x, v in zip(o['calls'], o['vs'])]})
            elif o['k'] == 'yr':
                m, d = [int(x) for x in where.split(':')]
                run = [r for r in o['runs'] if r[0] == m and r[1] <= d <= r[2]][0]
                got = ['ok', run[4] + d, run[5], run[6]] if run[3] == 'ok' else run[3:]
                for v in o['vs']:
                    f = spell(o['form'], o['y'], m, d, o['tods'][m - 1], o['wr'], o['tl'], months[(o['y'], m)][1])
                    try:
                        arg = repr(render(o['form'], f, v))[:200]
                    except Exception:
                        arg = '?'
                    findings.add(name, o['op'], o['form'], o['dl'], o['wr'], o['tl'], v, f, arg, 'see Dates!Expected', got,
                                 where={'y': o['y'], 'm': m, 'd': d})
            else:
                m, d = [int(x) for x in where.split(':')]
                run = [r for r in o['runs'] if r[0] <= d <= r[1]][0]
                got = ['ok', run[3] + d, run[4], run[5]] if run[2] == 'ok' else run[2:]
                findings.add(name, o['op'], 'parts', 'uk', '-', 0, {}, [o['y'], o['m'], d], (o['y'], o['m'], d), 'see Dates!YMDOverflow', got)


def c2s(ctx, pool, months, findings, sess_lines=()):
    full = [1900, 1999, 2000, 2001, 2096, 2097, 2098, 2099, 2100, 2299] if ctx.quick else list(range(1900, 2300))
    jobs = []
    for y in full:
        jobs.append((y, {m: months[(y, m)] for m in range(1, 13)}, {m: list(range(1, months[(y, m)][0] + 1)) for m in range(1, 13)}, ctx.seed))
    if ctx.quick:       # the day <= 12 / > 12 and the one / two digit boundaries of every month of 40 more years
        for y in sorted(ctx.rng.sample([y for y in range(1900, 2300) if y not in full], 40)):
            jobs.append((y, {m: months[(y, m)] for m in range(1, 13)},
                         {m: [1, 9, 10, 12, 13, months[(y, m)][0]] for m in range(1, 13)}, ctx.seed))
    obs, days = [], 0
    for (lines, calls), job in zip(pool.map(_year_job, jobs, 1), jobs):
        obs += lines
        ctx.evals += calls
        days += sum(len(v) for v in job[2].values())
        for o in lines:
            if o['form'] != 'datetime':
                for r in o['runs']:
                    ctx.note(('c2s', o['op'], o['form'], o['tl'], o['wr'], o['dl'], o['y'], r[0]))
    ctx.extra['c2s_days'] = days
    ctx.extra['c2s_packed_lines'] = len(obs)
    ctx.sample({'c2s_packed_line': {k: (v if k != 'runs' else v[:3]) for k, v in obs[len(obs) // 2].items() if k != 'tods'}})
    # random single calls: a fresh time of day, form and rendering for every call
    n = 16000 if ctx.quick else 240000
    singles = [_single(ctx.rng, months) for _ in range(n)]
    parts = [singles[i:i + 500] for i in range(0, n, 500)]
    singles = [o for part in pool.map(_single_job, parts, 1) for o in part]
    ctx.evals += n
    for o in singles:
        ctx.note(('one', o['arg'], o['dl'], o['op']))
    ctx.sample({'c2s_single': singles[7]})
    # overflow: all months in -36..48 and all days in -400..400
    years = ([1900, 1999, 2000, 2001, 2100, 2299] + sorted(ctx.rng.sample(range(1901, 2299), 6))) if ctx.quick else list(range(1900, 2300))
    ovf = []
    for (lines, calls), job in zip(pool.map(_ovf_job, [(y, list(range(-400, 401))) for y in years], 1), years):
        ovf += lines
        ctx.evals += calls
    for o in ovf:
        if o['m'] not in range(1, 13):
            ctx.note(('ovf', o['op'], o['y'], o['m']))
    ctx.extra['c2s_overflow_calls'] = sum(o['n'] for o in ovf)
    ctx.sample({'c2s_overflow_line': ovf[len(ovf) // 2]})
    validate(ctx, obs + singles + list(sess_lines), findings, months)
    validate(ctx, ovf, findings, months)


def run(ctx):
    ctx.rule = ('S2C: every spelling class (form, amount of time written, writer convention, dialect) of every day TLC enumerated, '
                'in every rendering (4 separators x padded/unpadded, 15 month-name layouts, T/blank), dt and ymd, == the outcome '
                'TLC printed; overflow menu of 23 days x months -36..48.  C2S: per year and spelling class the outcomes of all '
                'chosen days packed as runs and unpacked/judged day by day by Trace_Dt; random single calls; overflow for all '
                'd in -400..400.  Non-trivial = any spelling other than the datetime object itself; distinct by spelling class x '
                'day (S2C), by spelling class x year x month (C2S), by concrete argument (singles), by (year, month) outside 1..12 (overflow).  '
                'Strings also write hour:minute only and the seconds with 1..9 decimals (Dates!FracUs: n written with k digits = n / 10^k s).  '
                'SESSIONS (MC_DatesSess: a call has no memory): histories of 2 calls (thorough: TLC-simulated, 5 calls) on one day in a '
                'process that never called dt() before - the second call collides with the first on a possible memo key (same argument '
                'object in the other dialect / through the other entry point, same integers in another rendering, same day with another '
                'time of day, another form with the same digits / integer part / day, a yyyymmdd number or ordinal with a fraction of a '
                'day before the plain integer, any other spelling class in turn); every call == Dates!Expected of that call alone.  '
                'C2S: random histories of 2..5 calls judged call by call by Trace_Dt (k = "sess").  Distinct sessions by day x call classes.')
    ctx.mc('MC_Civil', 'MC_Civil.cfg')
    ctx.mc('MC_Dates', 'MC_Dates_quick.cfg' if ctx.quick else 'MC_Dates_thorough.cfg')
    # the mechanism model of today's uk2dt/us2dt is expected to break the law (see the findings below)
    ctx.mc('MC_Dates', 'MC_Dates_mechtoday.cfg', must_fail='MechTodayIsLaw', coverage=False)
    # the session machine: the generated histories expose a memo on every key class of the catalogue, on every day
    ctx.mc('MC_DatesSess', 'MC_DatesSess_quick.cfg' if ctx.quick else 'MC_DatesSess_thorough.cfg')
    months = {(r['y'], r['m']): (r['dim'], r['ord1']) for r in ctx.generate('MC_Dates', 'MC_Dates_genmonths.cfg')}
    if len(months) != 4800:
        raise Machinery('the calendar printed by TLC has %d months' % len(months))
    findings = Findings()
    nproc = int(os.environ.get('VERIF_PY_WORKERS', min(16, os.cpu_count() or 1)))
    import pyg_base                      # imported (nothing called) before the workers are forked: the session processes are copies of this state
    with mp.get_context('fork').Pool(nproc) as pool:
        # histories first: until they are done no worker has called dt() itself, it only forks the session processes
        s2c_sessions(ctx, pool, 'MC_DatesSess_gen1.cfg' if ctx.quick else 'MC_DatesSess_gen2.cfg', findings)
        if not ctx.quick:               # TLC-simulated longer sessions through the same machine
            s2c_sessions(ctx, pool, 'MC_DatesSess_sim.cfg', findings, simulate=8000, depth=6, seed=ctx.seed + 1, workers=1)
        sess_lines = c2s_sessions(ctx, pool, months)
        s2c(ctx, pool, 'MC_Dates_gen1.cfg', 'MC_Dates_genovf1.cfg', findings)
        if not ctx.quick:
            s2c(ctx, pool, 'MC_Dates_gen2.cfg', 'MC_Dates_genovf2.cfg', findings)
        c2s(ctx, pool, months, findings, sess_lines)
    findings.report(ctx)
    ctx.exhaustive = False
    ctx.assumptions += [
        'every calendar day of the tier is exercised in every form, but times of day are sampled (one random time per month and '
        'year for the packed log, a fresh one per random single call, a menu of 4 in S2C), not enumerated',
        'packed C2S log: per (year, op, form, time length, writer convention, dialect) the outcomes of consecutive days are packed '
        'as runs [month, first day, last day, kind, ordinal - day, second, microsecond] and renderings (separator, padding, month '
        'name layout) with identical runs share one line; TLC unpacks every run and judges every single day with Dates!Denote. '
        'The packing (harness, trusted) only subtracts the day number and compares encodings for equality',
        'the calendar (month lengths, first ordinals) walked by the driver is printed by TLC from Civil.tla; Python datetime is used '
        'only to build datetime/date arguments and to read toordinal()/hour/minute/second/microsecond of results',
        'an exception is encoded as "ValueError" when isinstance(e, ValueError) (dateutil ParserError is one), else by its class name',
        'nanosecond spellings (np.datetime64[ns], Timestamp.as_unit("ns")) exist only up to 2262-04-11; they are used for years <= 2261',
        'sessions: every history runs in a forked copy of a process that has imported pyg_base and called nothing; the histories '
        'sharing such a process are on different calendar days (slot j = the j-th history of every day), so a memo keyed on '
        'anything finer than the calendar day starts empty for every history.  Arguments of dt() are immutable (str, int, float, '
        'datetime, numpy / pandas scalars): equal arguments within a history are the same object, and there is nothing for the '
        'caller to edit between calls',
        'numbers with a fraction of a day (20000301.75, 730180.5) are accepted by dt() but not pinned by the statement '
        '(Dates!Unpinned): they are called only BEFORE judged calls in a history and their own outcome is not compared',
        'the number of decimals of the seconds (1..9, beyond 6 only zeros), hour:minute without seconds and the decimal comma of '
        'ISO 8601 are taken in turn over the days / years in the single-call families (two per day), not all on every day',
        'excluded by the design: relative spellings (dt(-3), dt("1b"), dt()), time zones, 2-digit years; month-name strings are '
        'rendered in day-month-year, month-day-year and year-month-day order with English names (full, 3-letter, upper, lower case)',
    ]


def replay(ctx, body):
    """./check C04 --replay <file>: run the recorded witness again and show what comes back"""
    c = body['case']
    v = c.get('rendering', {})
    if c.get('calls'):                        # a history: all its calls again, in this (new) process
        outs = _play(c['calls'])
        print('\n'.join(_show(c['calls'], outs)))
        got = outs[c['call'] - 1][0]
    elif body['clause'] == 'overflow':
        got = call(c['op'], tuple(c['f']), 'uk')
    else:
        got, args = observe(c['op'], c['form'], c['f'], c['dialect'], v)
        print('argument:', args)
    print('observed:', got, ' recorded:', body['detail'])
    return 0 if got == body['detail'].get('expected') else 1
