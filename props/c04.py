"""C04 - dt() maps every supported spelling of an instant to the same datetime.

TLA+ (spec/Dates.tla: Denote / Expected / YMDOverflow on top of Civil.tla) decides what every spelling
(form, written integers, dialect) means.  This driver only
  * renders spellings into concrete arguments (objects, integers, strings - formatted by hand),
  * calls pyg_base.dt / ymd / dt2str,
  * encodes the outcome as ["ok", ordinal, second, microsecond] / ["exc", class] / ["other", type],
  * compares with == against what TLC printed (S2C) or hands the log to spec/Trace_Dt.tla (C2S).
The calendar itself (length and first ordinal of every month of 1900..2299) is printed by TLC
(MC_Dates_genmonths.cfg); the driver walks through it and does no calendar arithmetic of its own.
"""
import datetime, json, os, random, warnings
import multiprocessing as mp
from harness.core import Machinery

LONG = ['January', 'February', 'March', 'April', 'May', 'June', 'July', 'August', 'September', 'October', 'November', 'December']
SEVEN = ('datetime', 'pd_timestamp', 'pd_ns', 'np_us', 'dt2str')
NS_FORMS = ('pd_ns', 'np_ns')
STRING_FORMS = ('iso_str', 'yyyymmdd_str', 'monthname_str', 'numeric_str', 'dt2str')
# form -> the amounts of time of day that can be written (spec/Dates.tla: Tls)
TLS = {'datetime': (0, 3, 4), 'pd_timestamp': (0, 3, 4), 'pd_ns': (0, 3, 4), 'np_us': (0, 3, 4), 'dt2str': (0, 3, 4),
       'iso_str': (0, 3, 4), 'monthname_str': (0, 3, 4), 'numeric_str': (0, 3, 4), 'np_ns': (0, 3, 4), 'parts': (0, 3),
       'np_h': (1,), 'np_m': (2,), 'np_s': (3,), 'pd_s': (3,), 'np_ms': (5,),
       'date': (0,), 'np_D': (0,), 'yyyymmdd_int': (0,), 'yyyymmdd_str': (0,), 'ordinal_int': (0,)}
FORMS = sorted(TLS)

# renderings: how the written integers become characters.  The specification never sees them.
NUMERIC_V = [{'sep': s, 'pad': p} for s in '-/. ' for p in (1, 0)]
MONTHNAME_V = [dict(order=o, sep=s, name=n, pad=p) for o, s, n, p in [
    ('dmy', ' ', 'long', 1), ('dmy', ' ', 'long', 0), ('dmy', ' ', 'short', 0), ('dmy', '-', 'short', 1), ('dmy', '/', 'short', 0),
    ('dmy', '.', 'long', 1), ('dmy', ' ', 'upper', 0), ('dmy', ' ', 'lower', 1),
    ('mdy', ' ', 'long', 0), ('mdy', ', ', 'short', 1), ('mdy', '-', 'short', 0), ('mdy', '/', 'long', 1), ('mdy', '.', 'short', 0),
    ('ymd', ' ', 'long', 0), ('ymd', '-', 'short', 1)]]
ISO_V = [{'sep': 'T'}, {'sep': ' '}]


def variants(form, tl):
    if form == 'numeric_str':
        return NUMERIC_V
    if form == 'monthname_str':
        return MONTHNAME_V
    if form == 'iso_str' and tl:
        return ISO_V
    return [{}]


def vname(v):
    return ','.join('%s=%s' % kv for kv in sorted(v.items())) or '-'


# ---------------------------------------------------------------------------------------------
# rendering
def _hms(g):
    if not g:
        return ''
    s = '%02d:%02d:%02d' % tuple(g[:3])
    return s + ('.%06d' % g[3] if len(g) == 4 else '')


def _monthname(m, style):
    n = LONG[m - 1]
    return {'long': n, 'short': n[:3], 'upper': n.upper(), 'lower': n[:3].lower()}[style]


def render(form, f, v):
    """the positional arguments of dt()/ymd() for this spelling"""
    import numpy as np, pandas as pd
    if form == 'datetime':
        return (datetime.datetime(*f),)
    if form == 'date':
        return (datetime.date(*f),)
    if form == 'parts':
        return tuple(f)
    if form in ('yyyymmdd_int', 'ordinal_int'):
        return (int(f[0]),)
    if form.startswith('np_'):
        unit = form[3:]
        s = '%04d-%02d-%02d' % tuple(f[:3])
        if unit != 'D':
            s += 'T%02d' % f[3]
        if unit not in ('D', 'h'):
            s += ':%02d' % f[4]
        if unit not in ('D', 'h', 'm'):
            s += ':%02d' % f[5]
        if unit in ('ms', 'us', 'ns'):
            s += '.' + {'ms': '%03d', 'us': '%06d', 'ns': '%09d'}[unit] % f[6]
        return (np.datetime64(s, unit),)
    if form in ('pd_timestamp', 'pd_ns'):
        t = pd.Timestamp(year=f[0], month=f[1], day=f[2], hour=f[3], minute=f[4], second=f[5], microsecond=f[6])
        return (t.as_unit('ns') if form == 'pd_ns' else t,)
    if form == 'pd_s':
        return (pd.Timestamp(year=f[0], month=f[1], day=f[2], hour=f[3], minute=f[4], second=f[5]).as_unit('s'),)
    if form == 'iso_str':
        return ('%04d-%02d-%02d' % tuple(f[:3]) + (v.get('sep', 'T') + _hms(f[3:]) if len(f) > 3 else ''),)
    if form == 'yyyymmdd_str':
        return ('%08d' % f[0],)
    if form == 'numeric_str':
        n = '%02d' if v['pad'] else '%d'
        return (n % f[0] + v['sep'] + n % f[1] + v['sep'] + '%04d' % f[2] + (' ' + _hms(f[3:]) if len(f) > 3 else ''),)
    if form == 'monthname_str':
        y, mon, d = '%04d' % f[0], _monthname(f[1], v['name']), ('%02d' if v['pad'] else '%d') % f[2]
        sep = v['sep']
        if v['order'] == 'dmy':
            s = d + sep + mon + sep + y
        elif v['order'] == 'mdy':
            s = mon + (' ' if sep == ', ' else sep) + d + sep + y
        else:
            s = y + sep + mon + sep + d
        return (s + (' ' + _hms(f[3:]) if len(f) > 3 else ''),)
    if form == 'dt2str':
        from pyg_base import dt2str
        return (dt2str(datetime.datetime(*f)),)
    raise ValueError(form)


def encode(r):
    if isinstance(r, datetime.datetime) and r.tzinfo is None and getattr(r, 'nanosecond', 0) == 0:
        return ['ok', r.toordinal(), r.hour * 3600 + r.minute * 60 + r.second, r.microsecond]
    return ['other', type(r).__name__]


def call(op, args, dl):
    """one public call; the outcome encoded (ParserError & co are ValueErrors: `except ValueError` catches them)"""
    from pyg_base import dt, ymd
    fn = dt if op == 'dt' else ymd
    try:
        with warnings.catch_warnings():
            warnings.simplefilter('ignore')
            r = fn(*args) if dl == 'uk' else fn(*args, dialect=dl)     # 'uk' is the default dialect
    except Exception as e:
        return ['exc', 'ValueError' if isinstance(e, ValueError) else type(e).__name__]
    return encode(r)


def observe(op, form, f, dl, v):
    try:
        args = render(form, f, v)
    except Exception as e:
        raise Machinery('cannot render %s %r %r: %r' % (form, f, v, e))
    return call(op, args, dl), args


# ---------------------------------------------------------------------------------------------
# how a writer arranges the integers of an instant (mirrors Dates!Spell; Trace_Dt re-derives it and the
# first spelling of every packed line is sent along so that TLC can reject a disagreement as bad_input)
def trunc(t, tl):
    h, mi, s, us = t
    return {0: (0, 0, 0, 0), 1: (h, 0, 0, 0), 2: (h, mi, 0, 0), 3: (h, mi, s, 0), 4: (h, mi, s, us), 5: (h, mi, s, us - us % 1000)}[tl]


def spell(form, y, m, d, t, wr, tl, ord1):
    w = trunc(t, tl)
    tail = {0: [], 3: list(w[:3]), 4: list(w)}.get(tl)
    if form in SEVEN:
        return [y, m, d] + list(w)
    if form in ('date', 'np_D'):
        return [y, m, d]
    if form == 'np_h':
        return [y, m, d, w[0]]
    if form == 'np_m':
        return [y, m, d, w[0], w[1]]
    if form in ('np_s', 'pd_s'):
        return [y, m, d, w[0], w[1], w[2]]
    if form == 'np_ms':
        return [y, m, d, w[0], w[1], w[2], w[3] // 1000]
    if form == 'np_ns':
        return [y, m, d, w[0], w[1], w[2], w[3] * 1000]
    if form in ('parts', 'iso_str', 'monthname_str'):
        return [y, m, d] + tail
    if form in ('yyyymmdd_int', 'yyyymmdd_str'):
        return [y * 10000 + m * 100 + d]
    if form == 'ordinal_int':
        return [ord1 + d - 1]              # ord1 = TLC's ordinal of the first of the month
    if form == 'numeric_str':
        return ([d, m, y] if wr == 'dmy' else [m, d, y]) + tail
    raise ValueError(form)


def rand_tod(rng):
    r = rng.random()
    if r < 0.08:
        return [0, 0, 0, 0]
    if r < 0.16:
        return [23, 59, 59, 999999]
    if r < 0.24:
        return [0, 0, 0, rng.choice([1, 999, 1000, 999999])]
    if r < 0.32:
        return [rng.randrange(24), 0, 0, 0]
    return [rng.randrange(24), rng.randrange(60), rng.randrange(60), rng.choice([0, rng.randrange(1000000), rng.randrange(1000) * 1000])]


# ---------------------------------------------------------------------------------------------
# findings: one violation per (clause, spelling class, rendering, kind), with the first witness and a count
class Findings(object):
    """one violation per (clause, op, form, dialect, writer convention, kind of failure); the rendering keys (sep, pad, order,
    name) and the time length appear in the case only when all failing members of the group share them"""
    OPT = ('tl', 'sep', 'pad', 'order', 'name')

    def __init__(self):
        self.by = {}

    def add(self, clause, op, form, dl, wr, tl, v, f, args, want, got, where=None):
        kind = 'raised' if got[0] == 'exc' else ('wrong_value' if got[0] == 'ok' else 'not_a_datetime')
        case = {'op': op, 'form': form, 'dialect': dl, 'wr': wr, 'kind': kind}
        opt = dict(v, tl=tl)
        key = json.dumps([clause, case], sort_keys=True)
        e = self.by.get(key)
        if e is None:
            wit = dict(f=f, arg=args if isinstance(args, str) else repr(args)[:200], rendering=dict(v))
            if where:
                wit.update(where)
            self.by[key] = e = {'clause': clause, 'case': case, 'common': dict(opt), 'witness': wit,
                                'detail': {'expected': want, 'observed': got, 'count': 0, 'failing_renderings': set()}}
        e['common'] = {k: x for k, x in e['common'].items() if opt.get(k, None) == x}
        e['detail']['count'] += 1
        e['detail']['failing_renderings'].add(vname(opt))

    def report(self, ctx):
        for key in sorted(self.by):
            e = self.by[key]
            e['detail']['failing_renderings'] = sorted(e['detail']['failing_renderings'])
            ctx.violation(e['clause'], dict(e['case'], **e['common'], **e['witness']), e['detail'])


# ---------------------------------------------------------------------------------------------
# S2C: the cases TLC enumerated, every rendering of each, plain == with what TLC expects
def _s2c_day(rec):
    bad, n, nontrivial = [], 0, 0
    for c in rec['cases']:
        form, f, dl = c['form'], c['f'], c['dl']
        for i, v in enumerate(variants(form, c['tl'])):
            for op in (('dt', 'ymd') if i == 0 else ('dt',)):
                got, args = observe(op, form, f, dl, v)
                n += 1
                want = c[op]
                if got != want:
                    bad.append(('ymd_drops_time' if op == 'ymd' else c['cl'], op, form, dl, c['wr'], c['tl'], v, f, args, want, got))
        if form not in ('datetime',):
            nontrivial += 1
    return bad, n, nontrivial, len(rec['cases'])


def _s2c_ovf(rec):
    bad, n = [], 0
    for d, w in zip(rec['ds'], rec['want']):
        for op in ('dt', 'ymd'):
            got = call(op, (rec['y'], rec['m'], d), 'uk')
            n += 1
            if got != ['ok', w, 0, 0]:
                bad.append(('overflow', op, 'parts', 'uk', '-', 0, {}, [rec['y'], rec['m'], d], (rec['y'], rec['m'], d), ['ok', w, 0, 0], got))
    return bad, n


def s2c(ctx, pool, cfg, ovf_cfg, findings):
    recs = sorted(ctx.generate('MC_Dates', cfg), key=lambda r: (r['y'], r['m'], r['d']))
    for (bad, n, nt, ncases), rec in zip(pool.map(_s2c_day, recs, 8), recs):
        ctx.evals += n
        ctx.traces += ncases
        for b in bad:
            findings.add(*b, where={'y': rec['y'], 'm': rec['m'], 'd': rec['d']})
        for c in rec['cases']:
            if c['form'] != 'datetime':
                ctx.note(('s2c', c['form'], c['tl'], c['wr'], c['dl'], rec['y'], rec['m'], rec['d']))
    ctx.sample({'s2c_case': dict(recs[len(recs) // 3]['cases'][-1], y=recs[len(recs) // 3]['y'])})
    orecs = sorted(ctx.generate('MC_Dates', ovf_cfg), key=lambda r: (r['y'], r['m']))
    for (bad, n), rec in zip(pool.map(_s2c_ovf, orecs, 8), orecs):
        ctx.evals += n
        ctx.traces += len(rec['ds'])
        for b in bad:
            findings.add(*b)
        if rec['m'] not in range(1, 13):
            ctx.note(('s2c-ovf', rec['y'], rec['m']))
    ctx.sample({'s2c_overflow': {k: orecs[7][k] for k in ('y', 'm')}, 'ds': orecs[7]['ds'][:4], 'want': orecs[7]['want'][:4]})


# ---------------------------------------------------------------------------------------------
# C2S, packed: one line per (year, spelling class, outcome pattern)
def _pack(outs, with_month):
    """outs: [(m, d, out)] in calendar order -> runs of consecutive days with the same relative outcome"""
    runs = []
    for m, d, out in outs:
        rel = ['ok', out[1] - d, out[2], out[3]] if out[0] == 'ok' else list(out)
        last = runs[-1] if runs else None
        if last is not None and last[0] == m and last[2] == d - 1 and last[3:] == rel:
            last[2] = d
        else:
            runs.append([m, d, d] + rel)
    return runs if with_month else [r[1:] for r in runs]


def plan(y, ops=('dt', 'ymd')):
    """(op, form, tl, wr, dl, rendering) to run on every chosen day of year y"""
    out = []
    for form in FORMS:
        if form in NS_FORMS and y > 2261:
            continue
        wrs = ('dmy', 'mdy') if form == 'numeric_str' else ('-',)
        for wr in wrs:
            for dl in ('uk', 'us'):
                if form == 'monthname_str':       # 15 renderings: each with one amount of time, in turn over the years
                    for i, v in enumerate(MONTHNAME_V):
                        out.append(('dt', form, TLS[form][(i + y) % 3], wr, dl, v))
                else:
                    for tl in TLS[form]:
                        for v in variants(form, tl):
                            out.append(('dt', form, tl, wr, dl, v))
                # ymd: every form, the longest time of day it can carry, one rendering in turn
                tl = TLS[form][-1] if form != 'monthname_str' else (3, 4)[y % 2]
                vs = variants(form, tl)
                out.append(('ymd', form, tl, wr, dl, vs[y % len(vs)]))
    return [p for p in out if p[0] in ops]


def _year_job(job):
    y, months, days, seed = job         # months: {m: (dim, ord1)}; days: {m: [d...]}
    rng = random.Random(seed * 7919 + y)
    tods = [rand_tod(rng) for _ in range(12)]
    groups, first, calls = {}, {}, 0
    for op, form, tl, wr, dl, v in plan(y):
        outs, f0 = [], None
        for m in sorted(days):
            for d in days[m]:
                f = spell(form, y, m, d, tods[m - 1], wr, tl, months[m][1])
                if f0 is None:
                    f0 = [m, d, f]
                got, _ = observe(op, form, f, dl, v)
                outs.append((m, d, got))
        calls += len(outs)
        runs = _pack(outs, True)
        key = json.dumps([op, form, tl, wr, dl, runs])
        groups.setdefault(key, []).append(v)
        first[key] = f0
    lines = []
    for key in sorted(groups):
        op, form, tl, wr, dl, runs = json.loads(key)
        lines.append({'k': 'yr', 'op': op, 'form': form, 'tl': tl, 'wr': wr, 'dl': dl, 'y': y, 'tods': tods,
                      'n': sum(r[2] - r[1] + 1 for r in runs), 'vs': groups[key], 'f0': first[key], 'runs': runs})
    return lines, calls


def _ovf_job(job):
    y, ds = job
    lines, calls = [], 0
    for m in range(-36, 49):
        for op in (('dt', 'ymd') if (m - y) % 5 == 0 else ('dt',)):
            outs = [(0, d, call(op, (y, m, d), 'uk')) for d in ds]
            calls += len(outs)
            runs = _pack(outs, False)
            lines.append({'k': 'ovf', 'op': op, 'y': y, 'm': m, 'n': len(outs), 'runs': runs})
    return lines, calls


def _single(rng, months):
    """one random spelling of one random instant"""
    y = rng.randrange(1900, 2300)
    m = rng.randrange(1, 13)
    dim, ord1 = months[(y, m)]
    d = rng.choice([1, 9, 10, 12, 13, dim, rng.randrange(1, dim + 1), rng.randrange(1, dim + 1)])
    form = rng.choice(FORMS + ['numeric_str'] * 6 + ['monthname_str'] * 3 + ['iso_str', 'dt2str'])
    if form in NS_FORMS and y > 2261:
        form = 'np_us'
    tl = rng.choice(TLS[form])
    wr = rng.choice(['dmy', 'mdy']) if form == 'numeric_str' else '-'
    v = rng.choice(variants(form, tl))
    return dict(k='one', op=rng.choice(['dt', 'dt', 'ymd']), form=form, f=spell(form, y, m, d, rand_tod(rng), wr, tl, ord1),
                dl=rng.choice(['uk', 'us']), wr=wr, tl=tl, v=v)


def _single_job(obs):
    for o in obs:
        o['out'], args = observe(o['op'], o['form'], o['f'], o['dl'], o['v'])
        o['arg'] = repr(args)[:120]
    return obs


def _canaries(obs):
    """two deliberately corrupted copies of recorded observations: the trace specification must reject them"""
    out = []
    for want in ('one', 'yr', 'ovf'):
        for o in obs:
            if o['k'] != want:
                continue
            c = json.loads(json.dumps(o))
            if want == 'one' and c['out'][0] == 'ok':
                c['out'][1] += 1
            elif want == 'yr' and c['runs'][-1][3] == 'ok':
                c['runs'][-1][4] += 1
            elif want == 'ovf' and c['runs'][-1][2] == 'ok':
                c['runs'][-1][5] += 1
            else:
                continue
            out.append(c)
            break
    return out


def validate(ctx, obs, findings, months):
    """TLC judges the log (in slices); rejected lines become findings"""
    parts, cur, weight = [], [], 0          # slices of at most 60 000 lines / 3 000 000 judged days
    for o in obs:
        cur.append(o)
        weight += o.get('n', 1)
        if len(cur) >= 60000 or weight >= 3000000:
            parts.append(cur)
            cur, weight = [], 0
    if cur:
        parts.append(cur)
    for part in parts:
        can = _canaries(part)
        lines = [{k: v for k, v in o.items() if k not in ('v', 'arg', 'vs')} for o in part + can]
        bad = ctx.validate('Trace_Dt', lines)
        hit = {i for i, _ in bad}
        for j in range(len(can)):
            if len(part) + j + 1 not in hit:
                raise Machinery('Trace_Dt accepted a corrupted observation (%s): the binding is not real' % can[j]['k'])
        for i, clause in bad:
            if i > len(part):
                continue
            o = part[i - 1]
            name, _, where = clause.partition('@')
            if name == 'bad_input':
                raise Machinery('the driver left the domain of the specification (%s): %s' % (clause, json.dumps(o)[:400]))
            if o['k'] == 'one':
                findings.add(name, o['op'], o['form'], o['dl'], o['wr'], o['tl'], o['v'], o['f'], o['arg'], 'see Dates!Expected', o['out'])
            elif o['k'] == 'yr':
                m, d = [int(x) for x in where.split(':')]
                run = [r for r in o['runs'] if r[0] == m and r[1] <= d <= r[2]][0]
                got = ['ok', run[4] + d, run[5], run[6]] if run[3] == 'ok' else run[3:]
                for v in o['vs']:
                    f = spell(o['form'], o['y'], m, d, o['tods'][m - 1], o['wr'], o['tl'], months[(o['y'], m)][1])
                    try:
                        arg = repr(render(o['form'], f, v))[:200]
                    except Exception:
                        arg = '?'
                    findings.add(name, o['op'], o['form'], o['dl'], o['wr'], o['tl'], v, f, arg, 'see Dates!Expected', got,
                                 where={'y': o['y'], 'm': m, 'd': d})
            else:
                m, d = [int(x) for x in where.split(':')]
                run = [r for r in o['runs'] if r[0] <= d <= r[1]][0]
                got = ['ok', run[3] + d, run[4], run[5]] if run[2] == 'ok' else run[2:]
                findings.add(name, o['op'], 'parts', 'uk', '-', 0, {}, [o['y'], o['m'], d], (o['y'], o['m'], d), 'see Dates!YMDOverflow', got)


def c2s(ctx, pool, months, findings):
    full = [1900, 1999, 2000, 2001, 2096, 2097, 2098, 2099, 2100, 2299] if ctx.quick else list(range(1900, 2300))
    jobs = []
    for y in full:
        jobs.append((y, {m: months[(y, m)] for m in range(1, 13)}, {m: list(range(1, months[(y, m)][0] + 1)) for m in range(1, 13)}, ctx.seed))
    if ctx.quick:       # the day <= 12 / > 12 and the one / two digit boundaries of every month of 40 more years
        for y in sorted(ctx.rng.sample([y for y in range(1900, 2300) if y not in full], 40)):
            jobs.append((y, {m: months[(y, m)] for m in range(1, 13)},
                         {m: [1, 9, 10, 12, 13, months[(y, m)][0]] for m in range(1, 13)}, ctx.seed))
    obs, days = [], 0
    for (lines, calls), job in zip(pool.map(_year_job, jobs, 1), jobs):
        obs += lines
        ctx.evals += calls
        days += sum(len(v) for v in job[2].values())
        for o in lines:
            if o['form'] != 'datetime':
                for r in o['runs']:
                    ctx.note(('c2s', o['op'], o['form'], o['tl'], o['wr'], o['dl'], o['y'], r[0]))
    ctx.extra['c2s_days'] = days
    ctx.extra['c2s_packed_lines'] = len(obs)
    ctx.sample({'c2s_packed_line': {k: (v if k != 'runs' else v[:3]) for k, v in obs[len(obs) // 2].items() if k != 'tods'}})
    # random single calls: a fresh time of day, form and rendering for every call
    n = 16000 if ctx.quick else 240000
    singles = [_single(ctx.rng, months) for _ in range(n)]
    parts = [singles[i:i + 500] for i in range(0, n, 500)]
    singles = [o for part in pool.map(_single_job, parts, 1) for o in part]
    ctx.evals += n
    for o in singles:
        ctx.note(('one', o['arg'], o['dl'], o['op']))
    ctx.sample({'c2s_single': singles[7]})
    # overflow: all months in -36..48 and all days in -400..400
    years = ([1900, 1999, 2000, 2001, 2100, 2299] + sorted(ctx.rng.sample(range(1901, 2299), 6))) if ctx.quick else list(range(1900, 2300))
    ovf = []
    for (lines, calls), job in zip(pool.map(_ovf_job, [(y, list(range(-400, 401))) for y in years], 1), years):
        ovf += lines
        ctx.evals += calls
    for o in ovf:
        if o['m'] not in range(1, 13):
            ctx.note(('ovf', o['op'], o['y'], o['m']))
    ctx.extra['c2s_overflow_calls'] = sum(o['n'] for o in ovf)
    ctx.sample({'c2s_overflow_line': ovf[len(ovf) // 2]})
    validate(ctx, obs + singles, findings, months)
    validate(ctx, ovf, findings, months)


def run(ctx):
    ctx.rule = ('S2C: every spelling class (form, amount of time written, writer convention, dialect) of every day TLC enumerated, '
                'in every rendering (4 separators x padded/unpadded, 15 month-name layouts, T/blank), dt and ymd, == the outcome '
                'TLC printed; overflow menu of 23 days x months -36..48.  C2S: per year and spelling class the outcomes of all '
                'chosen days packed as runs and unpacked/judged day by day by Trace_Dt; random single calls; overflow for all '
                'd in -400..400.  Non-trivial = any spelling other than the datetime object itself; distinct by spelling class x '
                'day (S2C), by spelling class x year x month (C2S), by concrete argument (singles), by (year, month) outside 1..12 (overflow).')
    ctx.mc('MC_Civil', 'MC_Civil.cfg')
    ctx.mc('MC_Dates', 'MC_Dates_quick.cfg' if ctx.quick else 'MC_Dates_thorough.cfg')
    # the mechanism model of today's uk2dt/us2dt is expected to break the law (see the findings below)
    ctx.mc('MC_Dates', 'MC_Dates_mechtoday.cfg', must_fail='MechTodayIsLaw', coverage=False)
    months = {(r['y'], r['m']): (r['dim'], r['ord1']) for r in ctx.generate('MC_Dates', 'MC_Dates_genmonths.cfg')}
    if len(months) != 4800:
        raise Machinery('the calendar printed by TLC has %d months' % len(months))
    findings = Findings()
    nproc = int(os.environ.get('VERIF_PY_WORKERS', min(16, os.cpu_count() or 1)))
    with mp.get_context('fork').Pool(nproc) as pool:
        s2c(ctx, pool, 'MC_Dates_gen1.cfg', 'MC_Dates_genovf1.cfg', findings)
        if not ctx.quick:
            s2c(ctx, pool, 'MC_Dates_gen2.cfg', 'MC_Dates_genovf2.cfg', findings)
        c2s(ctx, pool, months, findings)
    findings.report(ctx)
    ctx.exhaustive = False
    ctx.assumptions += [
        'every calendar day of the tier is exercised in every form, but times of day are sampled (one random time per month and '
        'year for the packed log, a fresh one per random single call, a menu of 4 in S2C), not enumerated',
        'packed C2S log: per (year, op, form, time length, writer convention, dialect) the outcomes of consecutive days are packed '
        'as runs [month, first day, last day, kind, ordinal - day, second, microsecond] and renderings (separator, padding, month '
        'name layout) with identical runs share one line; TLC unpacks every run and judges every single day with Dates!Denote. '
        'The packing (harness, trusted) only subtracts the day number and compares encodings for equality',
        'the calendar (month lengths, first ordinals) walked by the driver is printed by TLC from Civil.tla; Python datetime is used '
        'only to build datetime/date arguments and to read toordinal()/hour/minute/second/microsecond of results',
        'an exception is encoded as "ValueError" when isinstance(e, ValueError) (dateutil ParserError is one), else by its class name',
        'nanosecond spellings (np.datetime64[ns], Timestamp.as_unit("ns")) exist only up to 2262-04-11; they are used for years <= 2261',
        'excluded by the design: relative spellings (dt(-3), dt("1b"), dt()), time zones, 2-digit years; month-name strings are '
        'rendered in day-month-year, month-day-year and year-month-day order with English names (full, 3-letter, upper, lower case)',
    ]


def replay(ctx, body):
    """./check C04 --replay <file>: run the recorded witness again and show what comes back"""
    c = body['case']
    v = c.get('rendering', {})
    if body['clause'] == 'overflow':
        got = call(c['op'], tuple(c['f']), 'uk')
    else:
        got, args = observe(c['op'], c['form'], c['f'], c['dialect'], v)
        print('argument:', args)
    print('observed:', got, ' recorded:', body['detail'])
    return 0 if got == body['detail'].get('expected') else 1
