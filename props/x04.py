"""X04 - extension of the specification over two parts of pyg_base no listed property covers:

 X04-a  the configuration store (cfg_read / cfg_write over the files of PYG_CFG) as a key-value store over
        a file system WITH CRASH POINTS                       spec/CfgStore.tla, MC_CfgStore, Trace_CfgStore
 X04-b  the process-wide registry get_cache(*names) and the place of the configuration in it
                                                              spec/CfgStoreReg.tla, MC_/Trace_CfgStoreReg
 X04-c  named_dict: classes with keys, defaults, types, casts; construction, item assignment, rebuilding
                                                              spec/NamedDict.tla, MC_/Trace_NamedDict

TLA+ decides.  This file only
  * renders TLC's abstract histories / cases into real files, real processes (harness/x_cfgproc.py: fork,
    SIGKILL), real classes and calls of the public API,
  * encodes what came back (value or exception class, file contents, object identities, operands after),
  * compares with == / membership in the set of outcomes TLC printed (S2C), or logs the observations and
    lets the trace specifications judge them (C2S).
"""
import itertools, json, multiprocessing, os, random, shutil, subprocess, sys, tempfile, warnings

from harness.core import Machinery

with warnings.catch_warnings():
    warnings.simplefilter('ignore')            # import once, before any worker process is forked
    import pyg_base                            # noqa: F401

from harness.x_cfgproc import Palette, World, Proc, Local, Died

FAULTS = ['crash_truncated', 'crash_partial', 'between_truncated', 'between_partial', 'bad_value']
KEY2 = ['a', 'b']
KEY4 = ['a', 'b', 'c', 'd']

_TASKS = []
_ROOT = [None]
_POOL = [None]


def _pmap(f, items):
    """map over the worker processes (forked once, at the start of run(), before any thread exists)"""
    if _POOL[0] is None or len(items) <= 1:
        return [f(i) for i in items]
    return _POOL[0].map(f, items, chunksize=4)


def _leaves(emitted, key=lambda e: e['hist'], ctxkey=lambda e: ''):
    """the maximal histories among those TLC printed (every printed history is a prefix of a longer one or a leaf)"""
    seen, pre = {}, set()
    for e in emitted:
        h = key(e)
        k = (ctxkey(e), json.dumps(h))
        seen[k] = e
        if h:
            pre.add((ctxkey(e), json.dumps(h[:-1])))
    return [e for k, e in sorted(seen.items()) if k not in pre]


# =====================================================================================================
# X04-a  configuration store
# =====================================================================================================
def _slim(hist):
    return [{k: v for k, v in e.items() if k not in ('adm', 'mech')} for e in hist]


def _replay_store(arg):
    """one TLC history against real processes and real files"""
    ix, t = arg
    pal = Palette()
    root = os.path.join(_ROOT[0], 's%d' % ix)
    world = World(root, t['npaths'], t['blocked'])
    for i, units in enumerate(t['init'], 1):
        world.put(i, pal.text(units))
    procs, state = {}, {}
    out = {'reads': 0, 'viol': [], 'desync': 0, 'mech_reads': 0, 'mech_reads_agree': 0, 'disk_agree': 0, 'faults': {}, 'sample': None,
           'left_to_trace': 0}
    rec = []                     # what really happened, in the format of Trace_CfgStore (judged there as a whole)
    writing = {}                 # process -> the configuration it is writing
    on_model = [True]            # the real reads so far are the ones the mechanism model predicted
    hist = t['hist']
    written = [[u for u in units if u[0] not in ('{', '}', '!')] for units in t['init']]

    def expected_after(p, k):
        """where the model says process p stands after event k: ('pre_open', path) / ('opened', path) / ('flushed', None) / ('done', None)"""
        e = hist[k]
        if e['op'] in ('begin', 'fail'):
            nxt = [f for f in hist[k + 1:] if f['p'] == p]
            if nxt and nxt[0]['op'] == 'open':
                return 'pre_open', world.paths[nxt[0]['path'] - 1]
            # the model stands before an open that the history does not show any more, or the write is over
            return ('pre_open' if (e['op'] == 'begin' and t['unblocked']) or (e['op'] == 'fail' and e.get('more') == 1) else 'done'), None
        if e['op'] == 'open':
            return 'opened', world.paths[e['path'] - 1]
        if e['op'] == 'flush':
            return 'flushed', None
        return 'done', None

    def advance(p, k, first=False):
        """let the real process run until it stands where the model says it stands after event k (an implementation
        may take more or fewer steps than the model: extra stops are passed over and counted)"""
        want, path = expected_after(p, k)
        n = 0
        while n < 40:
            if not first:
                procs[p].send({'op': 'go'})
            first = False
            msg = procs[p].recv()
            n += 1
            if 'done' in msg:
                state[p] = 'idle'
                rec.append({'op': 'end', 'p': p, 'cfg': writing.pop(p), 'done': msg['done']})
                if msg.get('arg_after') != msg.get('arg_before'):
                    out['viol'].append(('write_argument_changed', {'engine': 's2c', 'op': 'write', 'area': 'store', 'fault': 'none'}, msg))
                if want != 'done':
                    out['desync'] += 1
                return
            if msg.get('at') == want and (path is None or msg.get('path') == path):
                break
        out['desync'] += n - 1

    try:
        for k, e in enumerate(hist):
            op, p = e['op'], e['p']
            if op == 'spawn':
                if p in procs:
                    procs[p].kill()
                procs[p] = Proc(world.env, pal, KEY2); state[p] = 'idle'
                rec.append({'op': 'spawn', 'p': p})
            elif op == 'begin':
                cum = list(itertools.accumulate(len(x) for x in pal.unit_texts(e['cfg'])))
                cuts = []                                    # one list of cuts per file the model opens
                for f in hist[k + 1:]:
                    if f['p'] != p:
                        continue
                    if f['op'] == 'open':
                        cuts.append([])
                    elif f['op'] == 'flush':
                        cuts[-1].append(cum[f['k'] - 1])
                    elif f['op'] in ('close', 'crash', 'begin'):
                        break
                written.append(e['cfg'])
                procs[p].send({'op': 'write', 'cfg': e['cfg'], 'stepwise': 1, 'cuts': cuts})
                state[p] = 'stopped'
                writing[p] = e['cfg']
                rec.append({'op': 'begin', 'p': p, 'cfg': e['cfg']})
                advance(p, k, first=True)
            elif op in ('open', 'flush', 'fail', 'close'):
                if state[p] == 'stopped':
                    advance(p, k)
            elif op == 'crash':
                procs[p].kill(); state[p] = 'dead'
                if p in writing:
                    rec.append({'op': 'end', 'p': p, 'cfg': writing.pop(p), 'done': 0})
            elif op == 'read':
                if state.get(p) != 'idle':
                    raise Machinery('history asks process %s to read while it is %s: %s' % (p, state.get(p), json.dumps(_slim(hist))))
                r = procs[p].call({'op': 'read'})
                out['reads'] += 1
                fault = e['fault']
                out['faults'][fault] = out['faults'].get(fault, 0) + 1
                rec.append({'op': 'read', 'p': p, 'ok': r['ok'], 'cfg': r['cfg'] if r['ok'] else [], 'cls': r.get('cls', ''), 'fault': fault,
                            'reader': e['reader'], 'files': [pal.enc_file(world.get(i), KEY2, written) for i in range(1, t['npaths'] + 1)]})
                rec[-1]['s2c_verdict'] = 'left'
                if not on_model[0] or out['desync']:
                    # an earlier read came back with another admitted outcome than the mechanism model's, or the real write took
                    # other steps than the model's (it may be over while the model thinks it under way): the sets TLC printed for
                    # the rest of this history presuppose the model's course; the trace specification, which is given what
                    # really happened, judges the rest
                    out['left_to_trace'] += 1
                    continue
                admitted = r['ok'] == 1 and r['cfg'] in e['adm']
                rec[-1]['s2c_verdict'] = 'ok' if admitted else 'bad'
                out['mech_reads'] += 1
                if (r['ok'], r['cfg'] if r['ok'] else []) == (e['mech']['ok'], e['mech']['cfg'] if e['mech']['ok'] else []):
                    out['mech_reads_agree'] += 1
                else:
                    on_model[0] = False
                if not admitted:
                    case = {'engine': 's2c', 'op': 'read', 'area': 'store', 'fault': fault, 'reader': e['reader'], 'npaths': t['npaths'],
                            'blocked': t['blocked'], 'init': t['init'], 'hist': _slim(hist[:k + 1])}
                    files = [pal.enc_file(world.get(i), KEY2, written) for i in range(1, t['npaths'] + 1)]
                    out['viol'].append(('read_raised' if r['ok'] != 1 else 'read_not_old_or_new', case,
                                        {'admitted': e['adm'], 'observed': r, 'files_at_the_read': files}))
                elif out['sample'] is None and fault == 'none' and k > 4:
                    out['sample'] = {'s2c_store_history': _slim(hist[:k + 1]), 'admitted': e['adm'], 'observed': r}
        final = [pal.enc_file(world.get(i), KEY2, written) for i in range(1, t['npaths'] + 1)]
        out['disk_agree'] = 1 if final == t['disk'] else 0
        out['rec'] = {'init': [{'there': 0 if u == [['!', 0]] else 1, 'cfg': [x for x in u if x[0] not in ('{', '}', '!')]} for u in t['init']],
                      'events': rec}
    finally:
        for p, pr in procs.items():
            if pr.alive:
                if state.get(p) == 'stopped':
                    pr.kill()
                else:
                    pr.stop()
        shutil.rmtree(root, ignore_errors=True)
    return out


def s2c_store(ctx, emitted, label, npaths, blocked, sample=None):
    global _TASKS
    leaves = _leaves(emitted, ctxkey=lambda e: json.dumps(e['init']))
    total = len(leaves)
    if sample is not None and len(leaves) > sample:
        # a seeded sample in which every fault class and every kind of reader (fresh / lived through the write / the writer)
        # is represented alike: the histories are grouped by the fault classes and the readers of their reads, and drawn
        # from the groups in turn
        groups = {}
        for e in leaves:
            reads = [x for x in e['hist'] if x['op'] == 'read']
            groups.setdefault(json.dumps([sorted({x['fault'] for x in reads}), sorted({x['reader'] for x in reads})]), []).append(e)
        for g in groups.values():
            ctx.rng.shuffle(g)
        picked = []
        while len(picked) < sample:
            for k in sorted(groups):
                if groups[k] and len(picked) < sample:
                    picked.append(groups[k].pop())
        leaves = picked
    _TASKS = [{'init': e['init'], 'hist': e['hist'], 'disk': e['disk'], 'npaths': npaths, 'blocked': list(blocked),
               'unblocked': npaths - len(blocked)} for e in leaves]
    res = _pmap(_replay_store, list(enumerate(_TASKS)))
    faults = {}
    for i, r in enumerate(res):
        ctx.evals += r['reads']
        ctx.traces += 1
        for f, n in r['faults'].items():
            faults[f] = faults.get(f, 0) + n
        for clause, case, detail in r['viol']:
            ctx.violation(clause, case, detail)
        if any(e['op'] == 'read' for e in _TASKS[i]['hist']) and any(e['op'] in ('close', 'crash', 'fail') for e in _TASKS[i]['hist']):
            ctx.note(('s2c-store', label, i))
        if r['sample'] is not None:
            ctx.sample(r['sample'], limit=1)
    ctx.extra.setdefault('s2c_store', {})[label] = {
        'maximal_histories_generated': total, 'replayed': len(_TASKS),
        'reads_compared': sum(r['reads'] for r in res), 'reads_by_fault_class': faults,
        'reads_where_code_equals_mechanism_model': sum(r['mech_reads_agree'] for r in res),
        'final_disk_equals_mechanism_model': sum(r['disk_agree'] for r in res),
        'steps_out_of_step_with_model': sum(r['desync'] for r in res),
        'reads_left_to_the_trace_specification': sum(r['left_to_trace'] for r in res)}
    group = {'one-file': '1', 'two-files': '2', 'two-files-first-blocked': '2b'}[label]
    recs = [{'id': 0, 'init': r['rec']['init'], 'events': r['rec']['events'],
             'feats': {'group': group, 'palette': 'int', 'died': 0, 'died_torn': 0, 'bad': 0, 'real_interpreter': 0, 's2c': label}} for r in res]
    _TASKS = []
    return recs


# ---- C2S: random histories, real deaths at arbitrary points of the unwrapped code ------------------------
GROUPS = {'1': (1, ()), '2': (2, ()), '2b': (2, (1,))}
_REAL_READ = ('import json, sys, warnings\nwarnings.simplefilter("ignore")\n'
              'from pyg_base import cfg_read\nprint("CFG=" + json.dumps(cfg_read()))\n')


def _real_interpreter_read(env, pal, keyord):
    """cfg_read() in a brand-new interpreter: `import pyg_base` reads the configuration already"""
    e = dict(os.environ); e['PYG_CFG'] = env
    p = subprocess.run([sys.executable, '-W', 'ignore', '-c', _REAL_READ], env=e, stdout=subprocess.PIPE, stderr=subprocess.PIPE, text=True, timeout=300)
    for line in p.stdout.splitlines():
        if line.startswith('CFG='):
            return {'ok': 1, 'cfg': pal.enc_cfg(json.loads(line[4:]), keyord)}
    last = [l for l in p.stderr.strip().splitlines() if l.strip()]
    return {'ok': 0, 'cfg': [], 'cls': (last[-1].split(':')[0].split('.')[-1] if last else 'no output')}


def _store_history(args):
    seed, hid, group, real = args
    rng = random.Random(seed)
    npaths, blocked = GROUPS[group]
    pal = Palette('blob', rng.choice([3000, 6000])) if rng.random() < 0.3 else Palette()
    root = os.path.join(_ROOT[0], 'c%d' % hid)
    world = World(root, npaths, blocked)
    probe = World(root + 'p', npaths, blocked)

    def rand_cfg(bad=False):
        ks = [k for k in KEY4 if rng.random() < 0.6]
        c = [[k, rng.randint(1, 5)] for k in ks]
        if bad and c:
            c[rng.randrange(len(c))][1] = 0
        return c

    def text_of(c):
        return ''.join(pal.unit_texts(c))

    init = []
    for i in range(1, npaths + 1):
        if i in blocked or rng.random() < 0.3:
            init.append({'there': 0, 'cfg': []})
        else:
            c = rand_cfg()
            world.put(i, text_of(c)); probe.put(i, text_of(c))
            init.append({'there': 1, 'cfg': c})
    written = [x['cfg'] for x in init]
    events, procs = [], {}
    feats = {'group': group, 'palette': pal.kind, 'died': 0, 'died_torn': 0, 'bad': 0, 'real_interpreter': 0}

    def files():
        return [pal.enc_file(world.get(i), KEY4, written) for i in range(1, npaths + 1)]

    cause = {}                       # file -> what tore it ('crash' / 'bad_value'), for the files that are torn now

    def torn_kinds():
        out = {}
        for i, u in enumerate(files(), 1):
            if not (u == [['!', 0]] or (u and u[-1][0] == '}')):
                out[i] = 'truncated' if u == [] else 'partial'
        return out

    def after_write(kind):
        """which files did this write leave torn (kind: 'died' / 'bad_value' / 'none')"""
        now = torn_kinds()
        for i in list(cause):
            if i not in now:
                del cause[i]
        for i in now:
            cause.setdefault(i, kind)

    inflight = [0]

    def fault_now():
        now = torn_kinds()
        if not now:
            return 'none'
        target = min(i for i in range(1, npaths + 1) if i not in blocked)
        if inflight[0] and target in now:
            return 'between_' + now[target]
        if any(cause.get(i) == 'died' for i in now):
            i = [i for i in now if cause.get(i) == 'died'][0]
            return 'crash_' + now[i]
        if any(cause.get(i) == 'bad_value' for i in now):
            return 'bad_value'
        return 'none'

    def spawn():
        p = len(procs) + 1
        procs[p] = Proc(world.env, pal, KEY4)
        events.append({'op': 'spawn', 'p': p})
        return p

    def read(p):
        r = procs[p].call({'op': 'read'})
        events.append({'op': 'read', 'p': p, 'ok': r['ok'], 'cfg': r['cfg'] if r['ok'] else [], 'cls': r.get('cls', ''),
                       'fault': fault_now(), 'files': files()})

    def live():
        return [p for p in procs if procs[p].alive]

    try:
        spawn()
        if rng.random() < 0.6:
            read(1)
        if rng.random() < 0.5:
            read(spawn())                                     # a second process that has seen the initial configuration
        for step in range(rng.randint(3, 7)):
            if len(procs) >= 4:
                break
            if not live():
                spawn()
            what = rng.choices(['read', 'write', 'die', 'spawn', 'bad', 'pause'], [3, 3, 4, 1, 1, 3])[0]
            if what == 'read':
                read(rng.choice(live()))
            elif what == 'spawn':
                read(spawn())
            elif what in ('write', 'bad'):
                p = rng.choice(live())
                c = rand_cfg(bad=(what == 'bad'))
                written.append(c)
                r = procs[p].call({'op': 'write', 'cfg': c})
                events.append({'op': 'write', 'p': p, 'cfg': c, 'done': r['done'], 'files': files(),
                               'arg_same': 1 if r.get('arg_after') == r.get('arg_before') else 0})
                isbad = any(v == 0 for _, v in c)
                after_write('bad_value' if isbad else 'none')
                feats['bad'] += 1 if isbad else 0
                if rng.random() < 0.7:
                    read(p)
                for x in live():                              # ... and the processes that have lived through it
                    if x != p and rng.random() < 0.5:
                        read(x)
            elif what == 'pause':
                # a write is stopped (SIGSTOP) at an arbitrary event; another process reads meanwhile; then the writer
                # goes on to the end - or is killed where it stands
                p = rng.choice(live())
                c = rand_cfg()
                written.append(c)
                pr = Proc(probe.env, pal, KEY4)
                total = pr.call({'op': 'write', 'cfg': c, 'die_at': 0, 'count_only': True})['events']
                pr.stop()
                n = rng.randrange(0, max(1, total - 3))
                procs[p].send({'op': 'write', 'cfg': c, 'pause_at': n})
                how, r = procs[p].paused_or_reply()
                if how == 'reply':                            # ended before that event: an ordinary completed write
                    events.append({'op': 'write', 'p': p, 'cfg': c, 'done': r['done'], 'files': files(), 'arg_same': 1})
                    after_write('none')
                    continue
                events.append({'op': 'begin', 'p': p, 'cfg': c, 'pause_at': n, 'of': total, 'files': files()})
                inflight[0] = 1
                feats['paused'] = feats.get('paused', 0) + 1
                others = [x for x in live() if x != p]
                if not others or rng.random() < 0.5:
                    others.append(spawn())
                for x in others:
                    read(x)
                if rng.random() < 0.75:
                    procs[p].resume()
                    r = procs[p].recv()
                    done = r['done']
                else:
                    procs[p].kill(); done = 0
                inflight[0] = 0
                events.append({'op': 'end', 'p': p, 'cfg': c, 'done': done, 'files': files()})
                after_write('none' if done else 'died')
                for x in live():
                    if rng.random() < 0.6:
                        read(x)
            else:
                p = rng.choice(live())
                c = rand_cfg()
                written.append(c)
                pr = Proc(probe.env, pal, KEY4)              # how many events does this write have?  (a dry run elsewhere)
                total = pr.call({'op': 'write', 'cfg': c, 'die_at': 0, 'count_only': True})['events']
                pr.stop()
                n = rng.randrange(0, total + 2)
                try:
                    r = procs[p].call({'op': 'write', 'cfg': c, 'die_at': n})
                    done = r['done']
                except Died:
                    procs[p].reap(); done = 0
                events.append({'op': 'write', 'p': p, 'cfg': c, 'done': done, 'die_at': n, 'of': total, 'files': files(), 'arg_same': 1})
                after_write('none' if done else 'died')
                if not done:
                    feats['died'] += 1
                    feats['died_torn'] += 1 if fault_now() != 'none' else 0
                    if real:                                  # the next process is a brand-new interpreter
                        q = len(procs) + 1
                        procs[q] = Proc(world.env, pal, KEY4)   # (a placeholder that keeps the numbering; it does nothing)
                        procs[q].kill()
                        events.append({'op': 'spawn', 'p': q})
                        r = _real_interpreter_read(world.env, pal, KEY4)
                        events.append({'op': 'read', 'p': q, 'ok': r['ok'], 'cfg': r['cfg'], 'cls': r.get('cls', ''),
                                       'fault': fault_now(), 'files': files(), 'real_interpreter': 1})
                        feats['real_interpreter'] += 1
                        real = False
                    else:
                        read(spawn())
                for q in live():
                    if rng.random() < 0.5:
                        read(q)
        if real:                                              # not used yet: the history ends with a brand-new interpreter reading
            q = len(procs) + 1
            procs[q] = Proc(world.env, pal, KEY4)
            procs[q].kill()
            events.append({'op': 'spawn', 'p': q})
            r = _real_interpreter_read(world.env, pal, KEY4)
            events.append({'op': 'read', 'p': q, 'ok': r['ok'], 'cfg': r['cfg'], 'cls': r.get('cls', ''),
                           'fault': fault_now(), 'files': files(), 'real_interpreter': 1})
            feats['real_interpreter'] += 1
    finally:
        for pr in procs.values():
            if pr.alive:
                pr.stop()
        shutil.rmtree(root, ignore_errors=True); shutil.rmtree(root + 'p', ignore_errors=True)
    return {'id': hid, 'init': init, 'events': events, 'feats': feats}


def c2s_store_record(ctx, n, nreal, replayed=()):
    """run the random histories; returns them - together with what really happened in the S2C replays (`replayed`) - with
    the logs the trace specification will be given"""
    plan = []
    for i in range(n):
        group = ('1', '1', '2', '2b')[i % 4]
        plan.append((ctx.rng.randrange(2 ** 31), i + 1, group, i < nreal))
    hs = _pmap(_store_history, plan)
    if os.environ.get('VERIF_X04_CORRUPT') == 'store':         # binding self-check: falsify one recorded read
        e = [e for e in hs[1]['events'] if e['op'] == 'read' and e['ok'] == 1][-1]
        e['cfg'] = [[k, v % 5 + 1] for k, v in e['cfg']] or [['a', 1]]
    for k, h in enumerate(replayed):
        h['id'] = 100000 + k
    hs = hs + list(replayed)
    logs = []
    for group in GROUPS:
        sub = [h for h in hs if h['feats']['group'] == group]
        if sub:
            obs = [{'id': h['id'], 'init': h['init'],
                    'events': [{k: e[k] for k in ('op', 'p', 'cfg', 'done', 'ok') if k in e} for e in h['events']]} for h in sub]
            logs.append((group, sub, obs))
    return hs, logs


def c2s_store_judge(ctx, hs, logs):
    found = []
    for group, sub, obs in logs:
        want = sum(len(o['events']) + 1 for o in obs)
        ctx.evals += sum(len(o['events']) for o in obs)
        bad = ctx.validate('Trace_CfgStore', obs, cfg='Trace_CfgStore_%s.cfg' % group, expect_states=want)
        ctx.traces += len({b for b, _ in bad}) - len({b // 1000 for b, _ in bad})      # count histories, not lines
        rejected = {(code // 1000, code % 1000) for code, _ in bad}
        for hi, h in enumerate(sub, 1):
            # the replayed S2C histories were judged read by read against the sets TLC printed, too: both routes must agree
            for k, e in enumerate(h['events'], 1):
                v = e.get('s2c_verdict')
                if v in ('ok', 'bad') and (v == 'bad') != ((hi, k) in rejected):
                    raise Machinery('S2C (admitted sets) and the trace specification disagree on history %s event %d: %s' % (h['id'], k, json.dumps(h['events'][:k])[:1500]))
        for code, clause in bad:
            h = sub[code // 1000 - 1]; k = code % 1000
            e = h['events'][k - 1]
            if e.get('s2c_verdict') == 'bad':
                continue                              # reported by the S2C comparison already
            found.append((clause, {'engine': 'c2s' if 's2c' not in h['feats'] else 's2c-trace', 'op': 'read', 'area': 'store', 'fault': e['fault'], 'group': group, 'palette': h['feats']['palette'],
                                   'real_interpreter': e.get('real_interpreter', 0), 'history': h['id'], 'event': k,
                                   'init': h['init'], 'hist': [{a: b for a, b in x.items() if a != 'files'} for x in h['events'][:k]]},
                          {'observed': {a: e.get(a) for a in ('ok', 'cfg', 'cls')}, 'files_at_the_read': e.get('files')}))
    hs = [h for h in hs if 's2c' not in h['feats']]           # the statistics below are about the random histories only
    for h in hs:
        for k, e in enumerate(h['events']):
            if e['op'] == 'write' and not e['arg_same']:
                found.append(('write_argument_changed', {'engine': 'c2s', 'op': 'write', 'area': 'store', 'fault': 'none', 'history': h['id'], 'event': k + 1}, e))
        if h['feats']['died'] or h['feats']['bad']:
            ctx.note(('c2s-store', h['id']))
    for clause, case, detail in found:
        ctx.violation(clause, case, detail)
    died = [e for h in hs for e in h['events'] if e['op'] == 'write' and 'die_at' in e and not e['done']]

    def whole(e):
        return all(u == [['!', 0]] or (u and u[-1][0] == '}') for u in e['files'])
    tenths = {}
    for e in died:
        t = tenths.setdefault(min(9, 10 * e['die_at'] // max(1, e['of'])), [0, 0])
        t[0 if whole(e) else 1] += 1
    ctx.extra['c2s_store'] = {
        'histories': len(hs), 'events': sum(len(h['events']) for h in hs),
        'reads': sum(1 for h in hs for e in h['events'] if e['op'] == 'read'),
        'writes_completed': sum(1 for h in hs for e in h['events'] if e['op'] == 'write' and e['done']),
        'processes_killed_inside_a_write': len(died),
        'of_which_left_a_torn_file': sum(h['feats']['died_torn'] for h in hs),
        'writes_of_unserialisable_values': sum(h['feats']['bad'] for h in hs),
        'writes_paused_at_an_arbitrary_point_while_others_read': sum(h['feats'].get('paused', 0) for h in hs),
        'reads_by_a_brand_new_interpreter': sum(h['feats']['real_interpreter'] for h in hs),
        'large_values_palette': sum(1 for h in hs if h['feats']['palette'] == 'blob'),
        'reads_by_fault_class': {f: sum(1 for h in hs for e in h['events'] if e['op'] == 'read' and e['fault'] == f)
                                 for f in ['none'] + FAULTS},
        # where, among the traced events of one write (in tenths), death left the files whole / torn (projection of the log; no verdict)
        'death_point_tenth_to_[whole, torn]': {str(k): v for k, v in sorted(tenths.items())}}
    h = hs[len(hs) // 2]
    ctx.sample({'c2s_store_history': {'id': h['id'], 'feats': h['feats'], 'init': h['init'],
                                      'events': [{a: b for a, b in e.items() if a != 'files'} for e in h['events'][:6]]}}, limit=3)


# =====================================================================================================
# X04-b  the registry behind get_cache, one process, no files
# =====================================================================================================
def _reg_event(me, rets, e):
    """perform one event of a registry history in this process; returns the encoded observation"""
    op = e['op']
    def tok(i):
        rets.append(i)
        return rets.index(i) + 1
    if op == 'get':
        r = me.handle({'op': 'get_cache', 'names': e['names']})
        if not r['ok']:
            rets.append(0); return {'kind': 'exc', 'cls': r['cls']}
        return {'kind': 'obj', 'tok': tok(r['id']), 'keys': r['keys']}
    if op == 'store':
        r = me.handle({'op': 'store', 'names': e['names'], 'key': e['key'], 'value': e['value']})
        rets.append(0)
        return {'kind': 'none'} if r['ok'] else {'kind': 'exc', 'cls': r['cls']}
    if op == 'fetch':
        r = me.handle({'op': 'fetch', 'names': e['names'], 'key': e['key']})
        rets.append(0)
        return {'kind': 'item', 'has': r['has'], 'val': r['val']} if r['ok'] else {'kind': 'exc', 'cls': r['cls']}
    if op == 'write':
        r = me.handle({'op': 'write', 'cfg': e['cfg']})
        if not r['done']:
            rets.append(0); return {'kind': 'exc', 'cls': r['cls']}
        rets.append(r['id'])
        return {'kind': 'none'}
    if op == 'read':
        r = me.handle({'op': 'read'})
        if not r['ok']:
            rets.append(0); return {'kind': 'exc', 'cls': r['cls']}
        return {'kind': 'obj', 'tok': tok(r['id']), 'keys': r['keys']}
    raise Machinery('unknown registry event %r' % (e,))


def _canon_reg(o):
    return dict(o, keys=sorted(o['keys'])) if o.get('kind') == 'obj' else o


def _replay_reg(hist):
    me = Local(None, Palette(), KEY4)
    rets, bad = [], []
    for k, e in enumerate(hist):
        got = _reg_event(me, rets, e)
        if _canon_reg(got) != _canon_reg(e['want']):
            clause = ('raised' if got['kind'] == 'exc' else 'one_object_per_name' if got['kind'] == 'obj' and got.get('tok') != e['want'].get('tok')
                      else 'object_contents' if got['kind'] == 'obj' else 'stored_item')
            bad.append((clause, {'engine': 's2c', 'op': e['op'], 'area': 'registry', 'hist': [{a: b for a, b in x.items() if a != 'want'} for x in hist[:k + 1]]},
                        {'expected': e['want'], 'observed': got}))
            break
    return {'n': len(hist), 'bad': bad}


def s2c_reg(ctx, emitted, label):
    global _TASKS
    _TASKS = [e['hist'] for e in _leaves(emitted)]
    res = _pmap(_replay_reg, _TASKS)
    for i, r in enumerate(res):
        ctx.evals += r['n']; ctx.traces += 1
        for clause, case, detail in r['bad']:
            ctx.violation(clause, case, detail)
        if len({json.dumps(e.get('names', 'cfg')) for e in _TASKS[i]}) > 1:
            ctx.note(('s2c-reg', label, i))
    if _TASKS:
        ctx.sample({'s2c_registry_history': _TASKS[len(_TASKS) // 2]}, limit=4)
    ctx.extra.setdefault('s2c_registry', {})[label] = {'maximal_histories_replayed': len(_TASKS), 'events': sum(r['n'] for r in res)}
    _TASKS = []


def _reg_history(args):
    seed, hid = args
    rng = random.Random(seed)
    me = Local(None, Palette(), KEY4)
    names = ['x', 'y', 'z', 'CFG']
    rets, events = [], []
    for _ in range(rng.randint(8, 25)):
        op = rng.choices(['get', 'store', 'fetch', 'write', 'read'], [5, 3, 3, 1, 2])[0]
        path = [rng.choice(names) for _ in range(rng.choice([0, 1, 1, 2, 2, 3]))]
        if op == 'get':
            e = {'op': 'get', 'names': path}
        elif op == 'store':
            e = {'op': 'store', 'names': path, 'key': rng.choice('abc'), 'value': rng.randint(1, 5)}
        elif op == 'fetch':
            e = {'op': 'fetch', 'names': path, 'key': rng.choice('abc')}
        elif op == 'write':
            e = {'op': 'write', 'cfg': [[k, rng.randint(1, 5)] for k in 'abc' if rng.random() < 0.5]}
        else:
            e = {'op': 'read'}
        e['got'] = _reg_event(me, rets, e)
        events.append(e)
    return {'id': hid, 'events': events}


def c2s_reg_record(ctx, n):
    hs = _pmap(_reg_history, [(ctx.rng.randrange(2 ** 31), i + 1) for i in range(n)])
    if os.environ.get('VERIF_X04_CORRUPT') == 'reg':
        e = [e for e in hs[0]['events'] if e['got'].get('kind') == 'obj'][-1]
        e['got']['tok'] = e['got']['tok'] % 5 + 2
    return hs


def c2s_reg_judge(ctx, hs):
    want = sum(len(h['events']) + 1 for h in hs)
    ctx.evals += sum(len(h['events']) for h in hs)
    bad = ctx.validate('Trace_CfgStoreReg', hs, cfg='Trace_CfgStoreReg.cfg', expect_states=want)
    ctx.traces += len({b for b, _ in bad}) - len({b // 1000 for b, _ in bad})
    for code, clause in bad:
        h = hs[code // 1000 - 1]; k = code % 1000
        ctx.violation(clause, {'engine': 'c2s', 'op': h['events'][k - 1]['op'], 'area': 'registry', 'history': h['id'], 'event': k,
                               'hist': [{a: b for a, b in x.items() if a != 'got'} for x in h['events'][:k]]},
                      {'observed': h['events'][k - 1]['got']})
    for h in hs:
        ctx.note(('c2s-reg', h['id']))
    ctx.extra['c2s_registry'] = {'histories': len(hs), 'events': sum(len(h['events']) for h in hs)}
    ctx.sample({'c2s_registry_history': {'id': hs[0]['id'], 'events': hs[0]['events'][:5]}}, limit=5)


# =====================================================================================================
# X04-c  named_dict
# =====================================================================================================
from harness.enc import tag, untag            # noqa: E402
from harness import x_ndfuncs                 # noqa: E402

_CLASSES = {}


def nd_declare(decl):
    """named_dict(...) for an abstract declaration; ('class', cls) or (exception class name, None)"""
    key = json.dumps(decl, sort_keys=True)
    if key not in _CLASSES:
        from pyg_base import named_dict
        try:
            cls = named_dict('Rec', list(decl['keys']), defaults={k: untag(v) for k, v in decl['defaults']},
                             types={k: n for k, n in decl['types']}, casts={k: n for k, n in decl['casts']})
            _CLASSES[key] = ('class', cls)
        except Exception as e:
            _CLASSES[key] = (type(e).__name__, None)
    return _CLASSES[key]


def _enc_items(d):
    return sorted([k, tag(v)] for k, v in dict.items(d))


def nd_encode(x, cls):
    """an instance as the specification sees it, plus the flags the trace specification asks for"""
    items = _enc_items(x)
    attrs_same = all(getattr(x, k) is dict.__getitem__(x, k) for k in dict.keys(x))
    is_dict = (isinstance(x, dict) and isinstance(x, cls) and type(x).__name__ == 'Rec' and x == dict(dict.items(x))
               and len(x) == len(items))
    return {'kind': 'inst', 'cls': '', 'items': items}, (1 if attrs_same else 0), (1 if is_dict else 0)


def nd_call(cls, call):
    pos = [untag(v) for v in call['pos']]
    kw = {k: untag(v) for k, v in call['kw']}
    arg_same, attrs_same, is_dict, x = 1, 1, 1, None
    try:
        if call['form'] == 'mapping':
            arg = dict(kw)
            try:
                x = cls(arg)
            finally:
                arg_same = 1 if list(arg.items()) == list(kw.items()) else 0
        else:
            x = cls(*pos, **kw)
        out, attrs_same, is_dict = nd_encode(x, cls)
    except Exception as e:
        out = {'kind': 'exc', 'cls': type(e).__name__, 'items': []}
    return out, attrs_same, is_dict, arg_same, x


def _canon_out(o):
    return {'kind': o['kind'], 'cls': o['cls'], 'items': sorted(o['items'])}


def nd_features(case):
    d, c = case['decl'], case['call']
    return {'form': c['form'], 'npos': len(c['pos']), 'nkw': len(c['kw']), 'has_defaults': 1 if d['defaults'] else 0,
            'has_casts': 1 if d['casts'] else 0, 'has_types': 1 if d['types'] else 0,
            'default_kinds': ''.join(sorted({v[0] for _, v in d['defaults']}))}


def s2c_nd(ctx, emitted):
    tables = [e['tables'] for e in emitted if 'tables' in e]
    if len(tables) != 1:
        raise Machinery('the generator printed %d function tables' % len(tables))
    x_ndfuncs.install(tables[0])
    cases = sorted((e for e in emitted if 'decl' in e), key=lambda e: json.dumps([e['decl'], e['call']], sort_keys=True))
    stats = {'cases': len(cases), 'declaration_fails': 0, 'instances': 0, 'exceptions': 0, 'several_outcomes_admitted': 0}
    for k, case in enumerate(cases):
        ctx.evals += 1; ctx.traces += 1
        declares, cls = nd_declare(case['decl'])
        base = {'engine': 's2c', 'area': 'named_dict', 'decl': case['decl'], 'call': case['call'], **nd_features(case)}
        if declares != case['declares']:
            ctx.violation('declaration_outcome', dict(base, op='declare'), {'expected': case['declares'], 'observed': declares})
            continue
        if declares != 'class':
            stats['declaration_fails'] += 1
            continue
        out, attrs_same, is_dict, arg_same, x = nd_call(cls, case['call'])
        wants = [_canon_out(w) for w in case['want']]
        stats['several_outcomes_admitted'] += case['loose']
        stats['instances' if out['kind'] == 'inst' else 'exceptions'] += 1
        if _canon_out(out) not in wants:
            ctx.violation('construct_raised' if out['kind'] == 'exc' else 'construct_items', dict(base, op='construct'),
                          {'admitted': wants, 'observed': out})
        elif out['kind'] == 'inst' and not attrs_same:
            ctx.violation('attribute_is_item', dict(base, op='construct'), {'observed': out})
        elif out['kind'] == 'inst' and not is_dict:
            ctx.violation('instance_is_a_dict', dict(base, op='construct'), {'observed': out})
        elif not arg_same:
            ctx.violation('mapping_argument_changed', dict(base, op='construct'), {'observed': out})
        if case['decl']['defaults'] or case['decl']['casts'] or case['decl']['types'] or case['call']['kw']:
            ctx.note(('s2c-nd', k))
        if k % 3001 == 17:
            ctx.sample({'s2c_named_dict_case': case, 'observed': out}, limit=7)
    ctx.extra['s2c_named_dict'] = stats


def _nd_apply(cls, x, e, k):
    """one event on a live instance; returns (observation, new x)"""
    if e['op'] == 'set':
        v = untag(e['value'])
        try:
            if k % 2:
                setattr(x, e['key'], v)               # x.key = v
            else:
                x[e['key']] = v
            return {'out': nd_encode(x, cls)[0]}, x
        except Exception as ex:
            return {'out': {'kind': 'exc', 'cls': type(ex).__name__, 'items': []}}, x
    if e['op'] == 'del':
        try:
            del x[e['key']]
            return {'out': nd_encode(x, cls)[0]}, x
        except Exception as ex:
            return {'out': {'kind': 'exc', 'cls': type(ex).__name__, 'items': []}}, x
    if e['op'] == 'rebuild':
        before = _enc_items(x)
        try:
            y = type(x)(x)
            out = nd_encode(y, cls)[0]
        except Exception as ex:
            y, out = x, {'kind': 'exc', 'cls': type(ex).__name__, 'items': []}
        return {'out': out, 'src_same': 1 if _enc_items(x) == before else 0}, y
    raise Machinery('unknown instance event %r' % (e,))


def s2c_nd_inst(ctx, emitted, label):
    tables = [e['tables'] for e in emitted if 'tables' in e]
    x_ndfuncs.install(tables[0])
    leaves = _leaves([e for e in emitted if 'hist' in e], ctxkey=lambda e: json.dumps([e['decl'], e['call']]))
    n = 0
    for i, h in enumerate(leaves):
        declares, cls = nd_declare(h['decl'])
        out, _, _, _, x = nd_call(cls, h['call'])
        ctx.traces += 1
        base = {'engine': 's2c', 'area': 'named_dict', 'decl': h['decl'], 'call': h['call'], 'has_defaults': 1 if h['decl']['defaults'] else 0}
        if out['kind'] != 'inst' or sorted(out['items']) != sorted(h['start']):
            ctx.violation('construct_items', dict(base, op='construct'), {'expected': h['start'], 'observed': out})
            continue
        for k, e in enumerate(h['hist']):
            o, x = _nd_apply(cls, x, e, k)
            ctx.evals += 1; n += 1
            wants = [_canon_out(w) for w in e['want']]
            hist = [{a: b for a, b in ev.items() if a != 'want'} for ev in h['hist'][:k + 1]]
            if _canon_out(o['out']) not in wants:
                clause = {'set': 'item_assignment', 'del': 'item_deletion', 'rebuild': 'rebuild_outcome'}[e['op']]
                ctx.violation(clause, dict(base, op=e['op'], hist=hist), {'admitted': wants, 'observed': o['out']})
                break
            if e['op'] == 'rebuild' and not o['src_same']:
                ctx.violation('rebuild_changed_its_source', dict(base, op='rebuild', hist=hist), {'observed': o})
                break
        ctx.note(('s2c-nd-inst', label, i))
    if leaves:
        ctx.sample({'s2c_named_dict_history': leaves[len(leaves) // 3]}, limit=8)
    ctx.extra.setdefault('s2c_named_dict_instances', {})[label] = {'maximal_histories_replayed': len(leaves), 'events': n}


# ---- C2S: random declarations, random user functions, random calls and instance histories ---------------
ND_INTS = [0, 1, 2, 3, 7, 10]
ND_STRS = ['1', '2', '7', '10', 'x', '', 'w']
ND_D = ['d', [730120, 0, 0]]


def _nd_random_case(rng, hid):
    """a random declaration with its user-function tables; returns (decl, fns, value chooser)"""
    names = rng.sample('abcde', rng.randint(1, 4))
    plain = [['i', i] for i in ND_INTS] + [['s', s] for s in ND_STRS] + [['n', 0]]
    universe = plain + [ND_D]
    results = plain + [['b', 1], ['b', 0]]
    excs = [['exc', c] for c in ('TypeError', 'ValueError', 'KeyError', 'ZeroDivisionError')]
    fns = []
    for j in range(rng.randint(0, 3)):
        rows = [[v, rng.choice(results * 2 + excs)] for v in rng.sample(universe, rng.randint(0, 6))]
        fns.append({'name': 'harness.x_ndfuncs.f%d_%d' % (hid, j), 'rows': rows, 'other': rng.choice(results * 2 + excs)})
    user = [f['name'] for f in fns]
    # defaults: mostly for the last keys (a valid declaration), sometimes not
    if rng.random() < 0.8:
        dk = names[len(names) - rng.randint(0, len(names)):]
        rng.shuffle(dk)
    else:
        dk = rng.sample(names + ['z'], rng.randint(1, min(3, len(names) + 1)))
    casts, types = [], []
    for k in rng.sample(names, rng.randint(0, min(2, len(names)))):
        casts.append([k, rng.choice(['int', 'str', 'float'] + user + (['no_such_cast'] if rng.random() < 0.03 else []))])
    for k in rng.sample(names, rng.randint(0, min(2, len(names)))):
        types.append([k, rng.choice(['int', 'str', 'float', 'datetime.datetime'] + user + (['no_such_type'] if rng.random() < 0.03 else []))])
    strcast = {k for k, n in casts if n == 'str'}

    def value(k):
        return rng.choice(plain if k in strcast else universe)       # str() of a datetime is not axiomatised
    decl = {'keys': names, 'defaults': [[k, value(k)] for k in dk], 'types': types, 'casts': casts}
    return decl, fns, value


def _nd_random_call(rng, decl, value):
    names = decl['keys']
    if rng.random() < 0.3:
        ks = rng.sample(names + ['z'], rng.randint(0, len(names) + 1))
        return {'form': 'mapping', 'pos': [], 'kw': [[k, value(k)] for k in ks]}
    npos = rng.choice([0, 1, len(names), len(names), rng.randint(0, len(names) + 1)])
    pos = [value(names[i] if i < len(names) else 'z') for i in range(npos)]
    rest = names[npos:] + ['z'] + (names[:npos] if rng.random() < 0.15 else [])
    ks = [k for k in rest if rng.random() < (0.9 if k != 'z' else 0.3)]
    seen, kw = set(), []
    for k in ks:
        if k not in seen:
            seen.add(k); kw.append([k, value(k)])
    return {'form': 'args', 'pos': pos, 'kw': kw}


def c2s_nd_record(ctx, n, nhist):
    obs, hists = [], []
    for hid in range(1, n + 1):
        decl, fns, value = _nd_random_case(ctx.rng, hid)
        x_ndfuncs.install(fns)
        declares, cls = nd_declare(decl)
        for _ in range(4):
            call = _nd_random_call(ctx.rng, decl, value)
            o = {'decl': decl, 'fns': fns, 'declares': declares, 'call': call, 'out': {'kind': 'exc', 'cls': '', 'items': []},
                 'attrs_same': 1, 'is_dict': 1, 'arg_same': 1}
            if declares == 'class':
                o['out'], o['attrs_same'], o['is_dict'], o['arg_same'], _ = nd_call(cls, call)
            obs.append(o)
            if declares != 'class':
                break
        if declares == 'class' and len(hists) < nhist:
            call = _nd_random_call(ctx.rng, decl, value)
            out, _, _, _, x = nd_call(cls, call)
            events = [{'op': 'new', 'call': call, 'out': out, 'now': out['items']}]
            if out['kind'] == 'inst':
                for k in range(ctx.rng.randint(2, 7)):
                    op = ctx.rng.choice(['set', 'set', 'del', 'rebuild'])
                    e = {'op': op}
                    if op in ('set', 'del'):
                        e['key'] = ctx.rng.choice(decl['keys'] + ['z'])
                    if op == 'set':
                        e['value'] = value(e['key'])
                    o, x = _nd_apply(cls, x, e, k)
                    e.update(o)
                    e['now'] = _enc_items(x)
                    events.append(e)
            hists.append({'id': len(hists) + 1, 'decl': decl, 'fns': fns, 'events': events})
    if os.environ.get('VERIF_X04_CORRUPT') == 'nd':
        o = [o for o in obs if o['out']['kind'] == 'inst' and o['out']['items']][0]
        o['out']['items'][0][1] = ['s', 'corrupted']
    return obs, hists


def c2s_nd_judge(ctx, obs, hists):
    ctx.evals += len(obs) + sum(len(h['events']) for h in hists)
    for i, clause in ctx.validate('Trace_NamedDict', obs, cfg='Trace_NamedDict.cfg'):
        o = obs[i - 1]
        if clause.startswith('harness_'):
            raise Machinery('Trace_NamedDict: %s at line %d' % (clause, i))
        ctx.violation(clause, {'engine': 'c2s', 'area': 'named_dict', 'op': 'declare' if clause == 'declaration_outcome' else 'construct',
                               'decl': o['decl'], 'call': o['call'], **nd_features(o)},
                      {'observed': o['out'], 'declares': o['declares'], 'fns': o['fns']})
    want = sum(len(h['events']) + 1 for h in hists)
    bad = ctx.validate('Trace_NamedDictInst', hists, cfg='Trace_NamedDictInst.cfg', expect_states=want)
    ctx.traces += len({b for b, _ in bad}) - len({b // 1000 for b, _ in bad})
    for code, clause in bad:
        h = hists[code // 1000 - 1]; k = code % 1000
        e = h['events'][k - 1]
        ctx.violation(clause, {'engine': 'c2s', 'area': 'named_dict', 'op': e['op'] if e['op'] != 'new' else 'construct', 'decl': h['decl'],
                               'has_defaults': 1 if h['decl']['defaults'] else 0, 'history': h['id'], 'event': k,
                               'hist': [{a: b for a, b in x.items() if a != 'out'} for x in h['events'][:k]]},
                      {'observed': e.get('out'), 'src_same': e.get('src_same')})
    for k, o in enumerate(obs):
        if o['declares'] == 'class' and (o['decl']['casts'] or o['decl']['types'] or o['decl']['defaults']):
            ctx.note(('c2s-nd', k))
    ctx.extra['c2s_named_dict'] = {
        'constructions': len(obs), 'declarations_failing': sum(1 for o in obs if o['declares'] != 'class'),
        'instances': sum(1 for o in obs if o['out']['kind'] == 'inst'),
        'raised': sum(1 for o in obs if o['declares'] == 'class' and o['out']['kind'] == 'exc'),
        'mapping_form': sum(1 for o in obs if o['call']['form'] == 'mapping'),
        'instance_histories': len(hists), 'instance_events': sum(len(h['events']) for h in hists)}
    ctx.sample({'c2s_named_dict_observation': obs[len(obs) // 2]}, limit=9)


def run(ctx):
    from harness.x_tlcpar import Prefetch
    q = ctx.quick
    if os.environ.get('VERIF_X04_ACCEPT_PROPOSED') == '1':
        # the defects of the unchanged tree found by this check, as PROPOSED known findings (extensions/X04.known.json);
        # not applied unless asked for: by default they are reported as violations
        with open(os.path.join(os.path.dirname(os.path.dirname(os.path.abspath(__file__))), 'extensions', 'X04.known.json')) as f:
            ctx.known = ctx.known + [k for k in json.load(f)['known'] if k['property'] == ctx.pid]
    _ROOT[0] = tempfile.mkdtemp(prefix='x04-', dir=ctx.tmp)
    ctx.rule = ('X04-a S2C: maximal histories of TLC (writer stepped open/flush/close, deaths, readers in between) replayed with real '
                'processes (fork, SIGKILL) on real files, every read compared with the set the law admits; C2S: random histories with '
                'processes killed at arbitrary traced events inside the unwrapped cfg_write, judged by Trace_CfgStore. '
                'X04-b: registry histories (get_cache / item store / cfg_write / cfg_read without files) replayed in a fresh module, object identity '
                'as "first event that returned the same object"; random ones judged by Trace_CfgStoreReg. '
                'X04-c: every (declaration, call) of the strata and every instance history replayed through named_dict; random declarations '
                'with random table-driven casts/checks judged by Trace_NamedDict / Trace_NamedDictInst. '
                'Non-trivial = store history with a read after a completed, died or failed write; registry history over more than one path; '
                'named_dict case with defaults, casts, checks or keywords.')
    GEN = [('MC_CfgStore', 'MC_CfgStore_gen1.cfg' if q else 'MC_CfgStore_gen1t.cfg'), ('MC_CfgStoreReg', 'MC_CfgStoreReg_gen.cfg'),
           ('MC_NamedDict', 'MC_NamedDict_gen.cfg' if q else 'MC_NamedDict_gent.cfg'), ('MC_CfgStore', 'MC_CfgStore_gen2.cfg'), ('MC_CfgStore', 'MC_CfgStore_gen2b.cfg'),
           ('MC_CfgStoreReg', 'MC_CfgStoreReg_gendeep.cfg' if q else 'MC_CfgStoreReg_gendeep5.cfg'),
           ('MC_NamedDict', 'MC_NamedDict_gen_inst.cfg' if q else 'MC_NamedDict_gen_inst3.cfg')]
    MC = [('MC_CfgStore', 'MC_CfgStore_quick.cfg' if q else 'MC_CfgStore_thorough.cfg', {}),
          ('MC_CfgStore', 'MC_CfgStore_two.cfg', {}), ('MC_CfgStore', 'MC_CfgStore_twob.cfg', {}),
          ('MC_CfgStore', 'MC_CfgStore_faults.cfg', {})]
    MC += [('MC_CfgStore', 'MC_CfgStore_f_%s.cfg' % f, {'must_fail': 'ReadLaw', 'coverage': False}) for f in FAULTS]
    MC += [('MC_CfgStoreReg', 'MC_CfgStoreReg_quick.cfg' if q else 'MC_CfgStoreReg_thorough.cfg', {}),
           ('MC_NamedDict', 'MC_NamedDict_quick.cfg' if q else 'MC_NamedDict_thorough.cfg', {'coverage': False}),   # one action: nothing to be vacuous
           ('MC_NamedDict', 'MC_NamedDict_inst.cfg', {})]
    import time
    t0 = time.time()
    marks = []

    def mark(what):
        marks.append((what, round(time.time() - t0, 1)))
    nw = int(os.environ.get('VERIF_PY_WORKERS', min(12, os.cpu_count() or 1)))
    _POOL[0] = multiprocessing.get_context('fork').Pool(nw) if nw > 1 else None
    only = os.environ.get('VERIF_X04_ONLY')          # development aid: 'store' / 'reg' / 'nd' runs one area only
    if only:
        area = {'store': 'MC_CfgStore', 'reg': 'MC_CfgStoreReg', 'nd': 'MC_NamedDict'}[only]
        GEN = [g if g[0] == area else None for g in GEN]
        MC = [m for m in MC if m[0] == area]
        ctx.assumptions.append('PARTIAL RUN: VERIF_X04_ONLY=%s' % only)
    try:
        with Prefetch(ctx.tmp) as pf:
            # all TLC runs that need no input from the code are started now; the replays begin as soon as their generator is back
            for g in GEN:
                if g:
                    pf.submit(g[0], g[1], coverage=False)
            for m, c, kw in MC:
                pf.submit(m, c, coverage=kw.get('coverage', True))
            # --- S2C
            mark('start')
            recs = []
            GEN[0] and recs.extend(s2c_store(ctx, ctx.generate(*GEN[0]), 'one-file', 1, (), sample=240 if q else None))
            mark('s2c store one-file')
            GEN[1] and s2c_reg(ctx, ctx.generate(*GEN[1]), 'length<=3')
            mark('s2c registry')
            GEN[2] and s2c_nd(ctx, ctx.generate(*GEN[2]))
            mark('s2c named_dict')
            GEN[3] and recs.extend(s2c_store(ctx, ctx.generate(*GEN[3]), 'two-files', 2, (), sample=80 if q else None))
            GEN[4] and recs.extend(s2c_store(ctx, ctx.generate(*GEN[4]), 'two-files-first-blocked', 2, (1,), sample=40 if q else None))
            GEN[5] and s2c_reg(ctx, ctx.generate(*GEN[5]), 'narrow-menu-length<=%d' % (4 if q else 5))
            GEN[6] and s2c_nd_inst(ctx, ctx.generate(*GEN[6]), 'ops<=2' if q else 'ops<=3')
            # --- C2S: record everything, then let the trace specifications judge (their runs are started together, too)
            mark('s2c rest')
            hs, logs = c2s_store_record(ctx, 48 if q else 1200, 2 if q else 12, recs) if only in (None, 'store') else ([], [])
            mark('c2s store recorded')
            regs = c2s_reg_record(ctx, 150 if q else 2000) if only in (None, 'reg') else []
            obs, hists = c2s_nd_record(ctx, 500 if q else 6000, 150 if q else 1500) if only in (None, 'nd') else ([], [])
            mark('c2s all recorded')
            for group, sub, o in logs:
                pf.submit_validate('Trace_CfgStore', 'Trace_CfgStore_%s.cfg' % group, o)
            regs and pf.submit_validate('Trace_CfgStoreReg', 'Trace_CfgStoreReg.cfg', regs)
            obs and pf.submit_validate('Trace_NamedDict', 'Trace_NamedDict.cfg', obs)
            hists and pf.submit_validate('Trace_NamedDictInst', 'Trace_NamedDictInst.cfg', hists)
            hs and c2s_store_judge(ctx, hs, logs)
            regs and c2s_reg_judge(ctx, regs)
            obs and c2s_nd_judge(ctx, obs, hists)
            # --- MC (started at the beginning; collected here): the mechanism satisfies the law when no fault is injected,
            # reads outside a fault satisfy it whatever happened before, and each fault class alone breaks it
            mark('c2s judged')
            for m, c, kw in MC:
                ctx.mc(m, c, **kw)
            mark('mc collected')
            ctx.extra['seconds_at_milestones'] = marks
            ctx.extra['fault_classes_under_which_the_mechanism_model_breaks_old_or_new'] = list(FAULTS)
            ctx.extra['crash_points_at_which_the_mechanism_model_keeps_old_or_new'] = [
                'before the open', 'the whole text on the disk but the file not yet closed', 'after the close']
    finally:
        if _POOL[0] is not None:
            _POOL[0].terminate(); _POOL[0].join(); _POOL[0] = None
        shutil.rmtree(_ROOT[0], ignore_errors=True)
    ctx.exhaustive = False
    ctx.assumptions += ASSUMPTIONS


ASSUMPTIONS = [
    'X04-a small scope: model checking over 2 keys x 2 values, 2 processes, <= 2 writes; S2C histories: one writer, the text reaches the disk in at most '
    'one piece before the close; quick tier replays a seeded sample of the maximal histories',
    'X04-a one writer at a time (a process begins a write only when no other live process is in the middle of one); concurrent writers are outside the statement',
    'X04-a process death = SIGKILL of a forked process whose pyg_base._cfg was re-executed with PYG_CFG set (a few reads by brand-new interpreters as a cross-check); '
    'the file system itself is assumed not to lose what was handed to it (no power failure after a completed write)',
    'X04-a stepwise replay wraps the builtin open as seen by pyg_base._cfg: when which part of the text reaches the disk is chosen by TLC (a runtime may flush at any time); '
    'the C2S deaths use the unwrapped code with the runtime\'s own buffering',
    'X04-a a long-lived process sees the files laid over what it was given before (cfg_read "updates" the cache): named deviation CacheMerge - keys that were '
    'removed from the file stay in such a process',
    'X04-b names and stored item keys are disjoint (an item stored under a name that is later used as a path component is outside the statement)',
    'X04-c casts / checks are table-driven user callables built from the tables the specification prints, plus int / str / float / isinstance axiomatised on the universe in use; '
    'named deviations: PosKwConflict, ExtraPositional, WhichFailure; types / casts only for declared keys; values are immutable scalars '
    '(a mutable default shared between instances is not covered)',
]
